"""Systematic single-site mutation of the functions a property's rules actually analyse (thorough tier).

This measures the *checker*, not the repository: every mutant is an in-memory overlay of /repo's current source; the
property's rule set is run on it; a mutant is `reported` (VIOLATION), `unrecognised` (ANALYSIS-ERROR: the rules refuse
to vouch for the construct) or `survived` (the rules still say HOLDS).  A survivor is not necessarily a breach of the
property (many mutants are equivalent or touch behaviour the property does not speak about); survivors are listed so
that they can be triaged, and the triage outcome is kept in sa/catalogue/survivors.json (equivalent / out-of-scope /
numeric-only), so that the run reports only *untriaged* survivors.  Nothing here changes a verdict about /repo."""
import ast
import copy
import hashlib
import json
import os
from concurrent.futures import ProcessPoolExecutor

from .core import Repo, AnalysisError

HERE = os.path.dirname(os.path.abspath(__file__))
TRIAGE = os.path.join(HERE, "catalogue", "survivors.json")

CMP_FLIP = {ast.Lt: ast.LtE, ast.LtE: ast.Lt, ast.Gt: ast.GtE, ast.GtE: ast.Gt, ast.Eq: ast.NotEq, ast.NotEq: ast.Eq,
            ast.Is: ast.IsNot, ast.IsNot: ast.Is, ast.In: ast.NotIn, ast.NotIn: ast.In}
CMP_REV = {ast.Lt: ast.Gt, ast.LtE: ast.GtE, ast.Gt: ast.Lt, ast.GtE: ast.LtE}
BIN_FLIP = {ast.Add: ast.Sub, ast.Sub: ast.Add, ast.Mult: ast.Div, ast.Div: ast.Mult}
NAME_SWAP = {"min": "max", "max": "min", "minimum": "maximum", "maximum": "minimum", "append": "appendleft", "popleft": "pop",
             "all": "any", "any": "all", "arrival": "departure", "departure": "arrival", "station_id": "session_id", "session_id": "station_id",
             "max_rates": "min_rates", "min_rates": "max_rates", "max_pilot": "min_pilot", "min_pilot": "max_pilot",
             "requested_energy": "energy_delivered", "energy_delivered": "requested_energy", "cos": "sin", "sin": "cos",
             "heappush": "heappop", "_max_rate": "_min_rate", "_min_rate": "_max_rate", "max_rate": "min_rate", "min_rate": "max_rate",
             "violation_tolerance": "relative_tolerance", "relative_tolerance": "violation_tolerance", "start": "end", "end": "start",
             "context_dict": "loaded_dict", "voltage": "pilot", "pilot": "voltage", "_voltages": "_phase_angles", "_phase_angles": "_voltages"}


MESSAGE_CALLS = {"warn", "_print", "print", "debug", "info", "warning"}


def _message_only(n):
    """sub-trees that only build a human-readable message (arguments of warnings.warn / print / an exception constructor,
    f-strings): mutants there are equivalent for every property and are not generated"""
    if isinstance(n, ast.JoinedStr):
        return True
    if isinstance(n, ast.Call):
        nm = n.func.attr if isinstance(n.func, ast.Attribute) else (n.func.id if isinstance(n.func, ast.Name) else None)
        if nm in MESSAGE_CALLS or (nm and (nm.endswith("Error") or nm.endswith("Exception") or nm.endswith("Warning"))):
            return True
    return False


def _walk_code(st):
    todo = [st]
    while todo:
        n = todo.pop()
        yield n
        for c in ast.iter_child_nodes(n):
            if _message_only(c):
                continue
            todo.append(c)


def _sites(fn):
    """[(kind, node, extra)] mutation sites inside a function (not nested defs' decorators/docstrings)."""
    out = []
    body = fn.body
    doc = body and isinstance(body[0], ast.Expr) and isinstance(body[0].value, ast.Constant) and isinstance(body[0].value.value, str)
    for st in (body[1:] if doc else body):
        for n in _walk_code(st):
            if isinstance(n, ast.Compare):
                for i, op in enumerate(n.ops):
                    if type(op) in CMP_FLIP:
                        out.append(("cmp-flip", n, i))
                    if type(op) in CMP_REV:
                        out.append(("cmp-rev", n, i))
            elif isinstance(n, ast.BinOp) and type(n.op) in BIN_FLIP:
                out.append(("binop", n, None))
            elif isinstance(n, ast.BoolOp):
                out.append(("boolop", n, None))
            elif isinstance(n, ast.UnaryOp) and isinstance(n.op, ast.Not):
                out.append(("drop-not", n, None))
            elif isinstance(n, ast.Constant) and isinstance(n.value, bool):
                out.append(("bool-const", n, None))
            elif isinstance(n, ast.Constant) and isinstance(n.value, int) and not isinstance(n.value, bool) and n.value in (0, 1, -1, 2):
                out.append(("int-const", n, None))
            elif isinstance(n, ast.Call):
                if len(n.args) >= 2 and not any(isinstance(a, ast.Starred) for a in n.args) and ast.dump(n.args[0]) != ast.dump(n.args[1]):
                    out.append(("swap-args", n, None))
                for k in n.keywords:
                    if isinstance(k.value, ast.Constant) and isinstance(k.value.value, bool):
                        pass  # covered by bool-const
            elif isinstance(n, ast.Attribute) and n.attr in NAME_SWAP:
                out.append(("attr-swap", n, None))
            elif isinstance(n, ast.Name) and n.id in NAME_SWAP and isinstance(n.ctx, ast.Load):
                out.append(("name-swap", n, None))
            elif isinstance(n, ast.If):
                out.append(("if-true", n, None))
        # statement deletion: simple statements anywhere in the function
        for n in ast.walk(st):
            for fld in ("body", "orelse", "finalbody"):
                blk = getattr(n, fld, None)
                if isinstance(blk, list):
                    for i, s in enumerate(blk):
                        if isinstance(s, (ast.Assign, ast.AugAssign, ast.Expr, ast.Raise, ast.Return, ast.Delete)) and not (
                                isinstance(s, ast.Expr) and (isinstance(s.value, ast.Constant) or _message_only(s.value))):
                            out.append(("del-stmt", n, (fld, i)))
    for i, s in enumerate(body):
        if i == 0 and doc:
            continue
        if isinstance(s, (ast.Assign, ast.AugAssign, ast.Expr, ast.Raise, ast.Return, ast.Delete)):
            out.append(("del-stmt", fn, ("body", i)))
    return out


def _apply(kind, node, extra):
    """mutate `node` in place; returns a description or None if not applicable"""
    if kind == "cmp-flip":
        old = node.ops[extra]
        node.ops[extra] = CMP_FLIP[type(old)]()
        return f"{type(old).__name__}->{type(node.ops[extra]).__name__}"
    if kind == "cmp-rev":
        old = node.ops[extra]
        node.ops[extra] = CMP_REV[type(old)]()
        return f"{type(old).__name__}->{type(node.ops[extra]).__name__}"
    if kind == "binop":
        old = node.op
        node.op = BIN_FLIP[type(old)]()
        return f"{type(old).__name__}->{type(node.op).__name__}"
    if kind == "boolop":
        node.op = ast.Or() if isinstance(node.op, ast.And) else ast.And()
        return "and<->or"
    if kind == "bool-const":
        node.value = not node.value
        return f"{not node.value}->{node.value}"
    if kind == "int-const":
        old = node.value
        node.value = old + 1
        return f"{old}->{old + 1}"
    if kind == "swap-args":
        node.args[0], node.args[1] = node.args[1], node.args[0]
        return "args 0<->1"
    if kind == "attr-swap":
        old = node.attr
        node.attr = NAME_SWAP[old]
        return f".{old}->.{node.attr}"
    if kind == "name-swap":
        old = node.id
        node.id = NAME_SWAP[old]
        return f"{old}->{node.id}"
    if kind == "if-true":
        node.test = ast.Constant(value=True)
        return "if True"
    if kind == "drop-not":
        return None   # handled by replacing in parent: done via del below
    if kind == "del-stmt":
        fld, i = extra
        blk = getattr(node, fld)
        old = blk[i]
        blk[i] = ast.copy_location(ast.Pass(), old)
        return "deleted"
    return None


def _before(site):
    kind, node, extra = site
    return ast.unparse(node)[:60] if kind != "del-stmt" else ast.unparse(getattr(node, extra[0])[extra[1]])[:60]


def generate(repo, funcs, cap_per_fn=400):
    """yield (mutant id, rel path, description, new module source) for every site in the given FuncInfos."""
    by_mod = {}
    for f in funcs:
        by_mod.setdefault(f.module, []).append(f)
    for rel, fs in sorted(by_mod.items()):
        tree0 = repo.trees[rel]
        for f in sorted(fs, key=lambda x: x.qual):
            # locate the function in a fresh copy by (qualname path) = position index in walk order
            idx = [i for i, n in enumerate(ast.walk(tree0)) if n is f.node]
            if not idx:
                continue
            n_sites = len(_sites(f.node))
            for k in range(min(n_sites, cap_per_fn)):
                tree = copy.deepcopy(tree0)
                fn = list(ast.walk(tree))[idx[0]]
                sites = _sites(fn)
                kind, node, extra = sites[k]
                before = _before(sites[k])
                if kind == "drop-not":
                    # replace `not X` by X: need the parent
                    done = False
                    for par in ast.walk(fn):
                        for fld, val in ast.iter_fields(par):
                            if val is node:
                                setattr(par, fld, node.operand)
                                done = True
                            elif isinstance(val, list):
                                for i, x in enumerate(val):
                                    if x is node:
                                        val[i] = node.operand
                                        done = True
                    desc = "not dropped" if done else None
                else:
                    desc = _apply(kind, node, extra)
                if desc is None:
                    continue
                ast.fix_missing_locations(tree)
                try:
                    text = ast.unparse(tree)
                    compile(text, rel, "exec")
                except Exception:
                    continue
                occ = sum(1 for kk in range(k) if sites[kk][0] == kind and _before(sites[kk]) == before)      # same edit text at an earlier site
                mid = hashlib.sha1(f"{f.qual}|{kind}|{before}|{desc}|{occ}".encode()).hexdigest()[:10]
                yield mid, rel, f"{f.qual}: {kind} `{' '.join(before.split())}` ({desc})" + (f" #{occ + 1}" if occ else ""), text


def _run(args):
    prop, rel, text, root = args
    from .driver import run_property
    try:
        repo = Repo(root, overlay={rel: text})
    except AnalysisError:
        return "unrecognised", []
    try:
        ck = run_property(prop, repo, "quick")
    except Exception as e:          # an internal error of a rule on unusual code: exit 2 for the user, worth a look for us
        return "crashed", [f"{type(e).__name__}: {e}"[:120]]
    if ck.violations:
        return "reported", sorted({v["rule"] for v in ck.violations})
    if ck.errors:
        return "unrecognised", []
    return "survived", []


def load_triage():
    """survivors.json: {"*" | "Cxx": [[regex over the mutant description, reason], ...]} - classes of surviving mutants that were read
    and found equivalent, outside the property's text, or numeric-only (a clause declared not decided)"""
    if os.path.exists(TRIAGE):
        return json.load(open(TRIAGE))
    return {}


def triage_reason(table, prop, desc):
    import re
    for key in (prop, "*"):
        for pat, why in table.get(key, []):
            if re.search(pat, desc):
                return why
    return None


def sweep(prop, repo, funcs, jobs=16, limit=1500):
    muts = list(generate(repo, funcs))
    if len(muts) > limit:
        step = len(muts) / limit
        muts = [muts[int(i * step)] for i in range(limit)]
    with ProcessPoolExecutor(max_workers=jobs) as ex:
        res = list(ex.map(_run, [(prop, rel, text, repo.root) for _, rel, _, text in muts], chunksize=4))
    triage_tab = load_triage()
    rep = sum(1 for r, _ in res if r == "reported")
    unr = sum(1 for r, _ in res if r == "unrecognised")
    crashed = [(m[0], m[2], info) for m, (r, info) in zip(muts, res) if r == "crashed"]
    for i, d, info in crashed:
        print(f"MUTANT-CRASH {prop} {i} {d}: {info}")
    res = [(r if r != "crashed" else "unrecognised", [] if r == "crashed" else x) for r, x in res]
    unr = sum(1 for r, _ in res if r == "unrecognised")
    surv = [(m[0], m[2]) for m, (r, _) in zip(muts, res) if r == "survived"]
    untriaged = [(i, d) for i, d in surv if triage_reason(triage_tab, prop, d) is None]
    by_rule = {}
    for _, rules in res:
        for r in rules:
            by_rule[r] = by_rule.get(r, 0) + 1
    return {"mutants": len(muts), "reported": rep, "unrecognised": unr, "survived": len(surv), "survivors_triaged": len(surv) - len(untriaged),
            "survivors_untriaged": [f"{i} {d}" for i, d in untriaged], "reports_by_rule": by_rule,
            "functions_mutated": sorted({f.qual for f in funcs}), "checker_crashes": len(crashed)}

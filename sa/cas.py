"""Computer-algebra layer: closed-form expressions taken from the syntax tree are compared with the law they are documented
to solve by symbolic differentiation and simplification (sympy, pure Python, imported from the offline wheelhouse when the
interpreter does not have it).

Nothing of /repo is executed and no path is explored: an arithmetic expression of the source (after def-use expansion with the
quantities of interest kept symbolic) is translated node by node into a sympy term; the rule then asks for an *identity* between
terms (`simplify(lhs - rhs) == 0`) or for the sign of a ratio of two terms under declared sign assumptions.  This is term
rewriting on source expressions - the same kind of step as constant folding - not model search.

Fail-closed: an expression outside the translated subset, an identity sympy cannot decide either way, or a missing sympy are
ANALYSIS-ERROR, never a pass."""
import ast
import glob
import os
import sys

from .core import AnalysisError, dotted, call_name

_sp = None
WHEELS = "/opt/veriftools/wheels"


def sp():
    global _sp
    if _sp is None:
        try:
            import sympy
        except ImportError:
            for pat in ("mpmath-*.whl", "sympy-*.whl"):
                hits = sorted(glob.glob(os.path.join(WHEELS, pat)))
                if hits and hits[-1] not in sys.path:
                    sys.path.insert(0, hits[-1])
            try:
                import sympy
            except ImportError as e:
                raise AnalysisError(f"computer-algebra layer: sympy is not importable ({e}); wheelhouse {WHEELS}")
        _sp = sympy
    return _sp


def canon(e):
    return " ".join(ast.unparse(e).split())


def to_sympy(e, env):
    """ast expression -> sympy term.  env: {canonical source string of a name / attribute path: sympy term}."""
    S = sp()
    if isinstance(e, (ast.BinOp, ast.Call, ast.Subscript)) and canon(e) in env:
        return env[canon(e)]              # a compound expression declared as one quantity (e.g. `requested_energy / battery_cap`)
    if isinstance(e, ast.Constant) and isinstance(e.value, (int, float)) and not isinstance(e.value, bool):
        return S.Integer(e.value) if isinstance(e.value, int) else S.Rational(str(e.value))
    if isinstance(e, (ast.Name, ast.Attribute)):
        k = canon(e)
        if k in env:
            return env[k]
        raise AnalysisError(f"computer-algebra layer: `{k}` has no declared role in this formula")
    if isinstance(e, ast.UnaryOp) and isinstance(e.op, (ast.USub, ast.UAdd)):
        v = to_sympy(e.operand, env)
        return -v if isinstance(e.op, ast.USub) else v
    if isinstance(e, ast.BinOp):
        l, r = to_sympy(e.left, env), to_sympy(e.right, env)
        if isinstance(e.op, ast.Add):
            return l + r
        if isinstance(e.op, ast.Sub):
            return l - r
        if isinstance(e.op, ast.Mult):
            return l * r
        if isinstance(e.op, ast.Div):
            return l / r
        if isinstance(e.op, ast.Pow):
            return l ** r
        raise AnalysisError(f"computer-algebra layer: operator {type(e.op).__name__} outside the subset in `{canon(e)[:60]}`")
    if isinstance(e, ast.Call):
        nm = call_name(e)
        if nm == "exp" and len(e.args) == 1 and not e.keywords:
            return S.exp(to_sympy(e.args[0], env))
        if nm == "log" and len(e.args) == 1 and not e.keywords:
            return S.log(to_sympy(e.args[0], env))
        if nm in ("float",) and len(e.args) == 1:
            return to_sympy(e.args[0], env)
        k = canon(e)
        if k in env:
            return env[k]
        raise AnalysisError(f"computer-algebra layer: call `{k[:60]}` outside the subset")
    k = canon(e)
    if k in env:
        return env[k]
    raise AnalysisError(f"computer-algebra layer: expression kind {type(e).__name__} outside the subset: `{k[:60]}`")


def is_zero(t):
    """True / False / None (undecided)"""
    S = sp()
    t = S.sympify(t)
    for f in (lambda x: x, S.expand, S.simplify, lambda x: S.simplify(S.expand(x)), lambda x: S.simplify(S.powsimp(S.expand(x), force=True))):
        try:
            v = f(t)
        except Exception:
            continue
        if v == 0:
            return True
        if v.is_number:
            return False
    # a single point where the term does not vanish refutes the identity (sound); probes are exact rationals for the free symbols
    syms = sorted(t.free_symbols, key=lambda x: x.name)
    probes = [S.Rational(3, 7), S.Rational(2, 5), S.Rational(5, 11), S.Rational(1, 3), S.Rational(7, 13), S.Rational(4, 9), S.Rational(3, 10), S.Rational(6, 17)]
    for shift in range(3):
        sub = {x: probes[(i + shift) % len(probes)] for i, x in enumerate(syms)}
        try:
            v = t.subs(sub).evalf(30)
        except Exception:
            continue
        if v.is_number and v.is_finite and abs(v) > S.Float("1e-12"):
            return False
    try:
        r = t.equals(0)
    except Exception:
        r = None
    return r


def ratio_sign(g, h):
    """sign of g/h when it is determined by the declared assumptions: +1, -1 or None"""
    S = sp()
    try:
        q = S.simplify(g / h)
    except Exception:
        return None
    for cand in (q, S.factor(q), S.simplify(S.expand(q))):
        if cand.is_positive:
            return 1
        if cand.is_negative:
            return -1
    return None


def compare_term(cmp_triple, env):
    """(lhs, op, rhs) from rules.cmp_norm (op in <, <=) -> the sympy term g with the fact reading g > 0 (or >= 0)"""
    l, op, r = cmp_triple
    if op not in ("<", "<="):
        return None
    return to_sympy(r, env) - to_sympy(l, env)

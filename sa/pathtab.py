"""Decision tables of small functions: every acyclic path of the statement CFG (loops entered at most once) as a row of
*facts* (the branch conditions taken, def-use expanded and put in a canonical orientation) and *effects* (calls, stores,
raise / return) in program order.  Rules quantify over rows: "on every row that carries fact F the effect E occurs exactly once",
"no row carries effect E under not-F".  Syntactic paths only: a row whose facts contradict each other (the same canonical atom
taken both ways with no intervening state change) is dropped as infeasible; nothing is solved or executed."""
import ast

from .core import AnalysisError, dotted, call_name, src, walk_local
from .flow import edge_facts
from .rules import canon, cmp_norm, store_targets, mutating_calls

SILENT_CALLS = {"warn", "_print", "print", "format", "isinstance", "len", "str", "repr", "KeyError", "ValueError", "TypeError"}


def atom_key(e, truth):
    """canonical (string, truth) of a boolean atom: comparisons oriented by cmp_norm, symmetric operators with sorted sides,
    negative operators folded into the truth value"""
    c = cmp_norm(e, True)
    if c:
        l, op, r = canon(c[0]), c[1], canon(c[2])
        if op == "!=":
            op, truth = "==", not truth
        elif op == "is not":
            op, truth = "is", not truth
        elif op == "not in":
            op, truth = "in", not truth
        if op == "==" and r < l:
            l, r = r, l
        return f"{l} {op} {r}", truth
    return canon(e), truth


def split_key(k):
    """(lhs, op, rhs) of a canonical comparison key produced by atom_key (op in ==, is, in, <, <=) or None"""
    for op in (" == ", " is ", " in ", " <= ", " < "):
        if op in k:
            l, r = k.split(op, 1)
            return l, op.strip(), r
    return None


class Row:
    __slots__ = ("nodes", "facts", "effects", "end", "value", "tests")

    def __init__(self):
        self.nodes, self.facts, self.effects, self.end, self.value = (), [], [], None, None
        self.tests = []          # [(test node, edge label)] in path order, for rules that re-expand a test under path-specific assumptions

    def fact(self, pred):
        """truth of the first fact whose (key, ast) satisfies pred, else None"""
        for k, t, a, n in self.facts:
            if pred(k, a):
                return t
        return None

    def fact_node(self, pred):
        for k, t, a, n in self.facts:
            if pred(k, a):
                return n
        return None

    def count(self, pred):
        return sum(1 for kind, k, a, n in self.effects if pred(kind, k, a))

    def describe(self, limit=150):
        fs = " & ".join(("" if t else "not ") + "(" + k + ")" for k, t, _, _ in self.facts)
        es = "; ".join(k for _, k, _, _ in self.effects if _ != "fact")
        return (f"[{fs}] -> {es} -> {self.end}")[:limit]


def _paths(cfg, limit):
    out = []
    stack = [(cfg.entry, (cfg.entry,))]
    while stack:
        n, path = stack.pop()
        if n is cfg.exit or n is cfg.raise_exit:
            out.append(path)
            if len(out) > limit:
                raise AnalysisError(f"path enumeration limit {limit} exceeded")
            continue
        for s in n.succ:
            if s.kind == "except":
                continue            # exceptional edges are not part of the decision table
            if path.count(s) >= 2:
                continue
            stack.append((s, path + (s,)))
    return out


def _changes_state(n):
    if n.kind != "stmt":
        return False
    s = n.stmt
    if store_targets(s):
        return True
    for c in [s] + list(walk_local(s)):
        if isinstance(c, ast.Call) and call_name(c) not in SILENT_CALLS:
            return True
    return False


def _pure_local(atom):
    """the atom reads only local names / parameters and constants (no attribute, subscript or call): nothing but a re-assignment can
    change it, and a re-assignment changes its expanded form"""
    return not any(isinstance(x, (ast.Attribute, ast.Subscript, ast.Call)) for x in ast.walk(atom))


def path_expand(fl, path, e, pos, depth=8):
    """def-use expansion of e evaluated at path[pos], *along this path*: a name with several reaching definitions takes the one the
    path actually passed last (the path-insensitive expansion would give a phi of all of them)"""
    import copy
    node = path[pos]

    class T(ast.NodeTransformer):
        def visit_Lambda(self, n):
            return n

        def visit_Name(self, n):
            if not isinstance(n.ctx, ast.Load) or depth <= 0:
                return n
            defs = fl.defs_at(node, n.id)
            if not defs:
                return n
            on = [(i, d) for i, d in enumerate(path[:pos]) if d in defs]
            if not on:
                return fl.expand(n, node) if len(defs) == 1 else n
            i, d = on[-1]
            how = fl.def_how(d, n.id)
            if how[0] == "assign":
                return path_expand(fl, path, how[1], i, depth - 1)
            if how[0] == "aug":
                prev = path_expand(fl, path, ast.Name(id=n.id, ctx=ast.Load()), i, depth - 1)
                return ast.BinOp(left=prev, op=how[1], right=path_expand(fl, path, how[2], i, depth - 1))
            if how[0] in ("param", "other"):
                return n
            if len(defs) == 1:
                return fl.expand(n, node)
            return n
    return T().visit(copy.deepcopy(e))


def table(fl, limit=4000, keep_infeasible=False):
    """[Row] for every feasible acyclic path of fl's function"""
    cfg = fl.cfg
    rows = []
    for path in _paths(cfg, limit):
        r = Row()
        r.nodes = path
        seen = {}          # atom key -> (truth, position)
        feasible = True
        for pos, n in enumerate(path):
            if n.kind == "edge":
                t = n.test
                if t.kind == "test":
                    r.tests.append((t, n.label))
                    tpos = max(i for i, x in enumerate(path[:pos]) if x is t)
                    for a, tr in edge_facts(path_expand(fl, path, t.expr, tpos), n.label):
                        k, tv = atom_key(a, tr)
                        if k in seen and seen[k][0] != tv and (_pure_local(a) or not any(_changes_state(x) for x in path[seen[k][1]:pos])):
                            feasible = False
                        seen.setdefault(k, (tv, pos))
                        r.facts.append((k, tv, a, t))
                elif t.kind == "for":
                    k = "iterates " + canon(fl.expand(t.expr, t))
                    r.facts.append((k, bool(n.label), t.expr, t))
                continue
            if n.kind in ("stmt", "return", "raise", "test", "for", "with"):
                for e in cfg.node_exprs(n):
                    for c in [e] + list(walk_local(e)):
                        if isinstance(c, ast.Call):
                            r.effects.append(("call", canon(path_expand(fl, path, c, pos)), c, n))
                if n.kind == "stmt":
                    for kind, p, tgt in store_targets(n.stmt):
                        val = getattr(n.stmt, "value", None)
                        r.effects.append(("store", canon(path_expand(fl, path, tgt, pos)) + (" = " + canon(path_expand(fl, path, val, pos)) if val is not None and kind != "del" else ""),
                                          n.stmt, n))
                    for p, m, c in mutating_calls(n.stmt):
                        r.effects.append(("mut", f"{p}.{m}", c, n))
            if n.kind == "return":
                r.end = "return"
                r.value = fl.expand(n.expr, n) if n.expr is not None else None
            elif n.kind == "raise":
                r.end = "raise"
                r.value = fl.expand(n.expr, n) if n.expr is not None else None
        if r.end is None:
            r.end = "raise" if path[-1] is cfg.raise_exit else "fall"
        if feasible or keep_infeasible:
            rows.append(r)
    return rows


# ----------------------------------------------------------------------------
# rule helpers over decision tables
# ----------------------------------------------------------------------------

def rows_where(rows, **conds):
    """rows on which every named fact predicate has the required truth value: conds = {label: (pred, truth)}"""
    out = []
    for r in rows:
        if all(r.fact(p) is t for p, t in conds.values()):
            out.append(r)
    return out


def must_on(ck, rid, f, rows, effect, exactly, what, sink, ok="", floor=1):
    """on every given row the effect occurs exactly `exactly` times; fewer than `floor` rows = the idiom was not recognised"""
    if len(rows) < floor:
        ck.error(rid, f"{f.qual}: no path carries the condition under which `{what}` is required (idiom not recognised)")
        return False
    good = True
    for r in rows:
        k = r.count(effect)
        if k != exactly:
            good = False
            ck.violation(rid, f, r.describe(200), f"{what}: required exactly {exactly} time(s) on this path, found {k}", sink=f"{sink}:{k}")
    if good:
        ck.holds(rid, f, what, ok or f"on all {len(rows)} path(s) carrying the condition")
    return good


def contradicted_membership(ck, rid, f, fl, rows, sink="contradicted-membership"):
    """a container is subscripted with key k on a path on which `k in container` was tested and found false (the lookup can only
    raise): the guard is inverted or the branches are swapped.  Generic contradiction rule (Engler et al.)."""
    n_checked = 0
    bad = set()
    for r in rows:
        neg = [(k, pos) for pos, (k, t, a, n) in enumerate(r.facts) if t is False and " in " in k and not k.startswith("iterates ")]
        for k, _ in neg:
            key, cont = k.split(" in ", 1)
            needle = f"{cont}[{key}]"
            n_checked += 1
            tn = r.fact_node(lambda kk, a, k=k: kk == k)
            after = False
            for n in r.nodes:
                if n is tn:
                    after = True
                    continue
                if not after or n.kind not in ("stmt", "return", "test", "for"):
                    continue
                for e in fl.cfg.node_exprs(n):
                    if needle in canon(fl.expand(e, n)) and (k, n.id) not in bad:
                        bad.add((k, n.id))
                        ck.violation(rid, f, e, f"`{needle}` is evaluated on the path where `{k}` is false: the membership guard is inverted", sink=sink)
    if not bad and n_checked:
        ck.holds(rid, f, "lookups guarded by membership tests", f"{n_checked} negative membership fact(s), none followed by the lookup")
    return not bad


# ----------------------------------------------------------------------------
# propositional consequences of a path condition
# ----------------------------------------------------------------------------

def _atoms_of(e, out):
    if isinstance(e, ast.UnaryOp) and isinstance(e.op, ast.Not):
        _atoms_of(e.operand, out)
    elif isinstance(e, ast.BoolOp):
        for v in e.values:
            _atoms_of(v, out)
    else:
        k, t = atom_key(e, True)
        out.setdefault(k, e)


def _eval(e, env):
    if isinstance(e, ast.UnaryOp) and isinstance(e.op, ast.Not):
        return not _eval(e.operand, env)
    if isinstance(e, ast.BoolOp):
        vals = [_eval(v, env) for v in e.values]
        return all(vals) if isinstance(e.op, ast.And) else any(vals)
    k, t = atom_key(e, True)
    return env[k] if t else (not env[k])


def implied(fl, row, pred, limit=10):
    """truth value that every assignment of the branch atoms consistent with the path's tests gives to the atom selected by
    pred(key, ast): True / False, or None when the path condition does not determine it (or the atom does not occur).  The path
    condition is the conjunction of (test == edge taken); compound tests are evaluated propositionally over their atoms
    (finite truth table, at most 2**limit rows), so `not (a and b)` together with `a` yields `not b`."""
    import itertools
    tests = []
    for t, lab in row.tests:
        tpos = [i for i, x in enumerate(row.nodes) if x is t]
        tests.append((path_expand(fl, row.nodes, t.expr, tpos[0]) if tpos else fl.expand(t.expr, t), lab))
    atoms = {}
    for e, _ in tests:
        _atoms_of(e, atoms)
    keys = sorted(atoms)
    target = [k for k in keys if pred(k, atoms[k])]
    if not target or len(keys) > limit:
        return None
    vals = set()
    for bits in itertools.product((False, True), repeat=len(keys)):
        env = dict(zip(keys, bits))
        if all(bool(_eval(e, env)) == bool(lab) for e, lab in tests):
            vals.add(env[target[0]])
    if len(vals) == 1:
        return vals.pop()
    return None


def satisfiable(fl, row, wanted, limit=10):
    """can the atoms selected by the predicates in `wanted` [(pred, value), ..] take those values together on this path (some assignment of
    the branch atoms satisfies every test of the path as taken *and* the wanted values)?  True / False; None when an atom does not occur
    on the path or the table would be too large.  Used for statements of the form "this path is only taken when not (A and B)"."""
    import itertools
    tests = []
    for t, lab in row.tests:
        tpos = [i for i, x in enumerate(row.nodes) if x is t]
        tests.append((path_expand(fl, row.nodes, t.expr, tpos[0]) if tpos else fl.expand(t.expr, t), lab))
    atoms = {}
    for e, _ in tests:
        _atoms_of(e, atoms)
    keys = sorted(atoms)
    targets = []
    for pred, val in wanted:
        hit = [k for k in keys if pred(k, atoms[k])]
        if not hit:
            return None
        targets.append((hit[0], val))
    if len(keys) > limit:
        return None
    for bits in itertools.product((False, True), repeat=len(keys)):
        env = dict(zip(keys, bits))
        if all(bool(_eval(e, env)) == bool(lab) for e, lab in tests) and all(env[k] == v for k, v in targets):
            return True
    return False

"""Symbolic array-shape inference over a small numpy subset (C06: 'for every constraint and every period').

A shape is a tuple of dimension symbols ('N' stations, 'T' periods, 'C' constraints, integers) or None (unknown).
() is a scalar.  Unknown never raises an alarm."""
import ast

from .core import dotted, call_name, src

ELEMENTWISE = {"abs", "cos", "sin", "exp", "deg2rad", "rad2deg", "real", "imag", "sqrt", "square", "array", "asarray", "astype", "conj",
               "absolute", "nan_to_num", "copy", "float", "complex"}


def broadcast(a, b):
    if a is None or b is None:
        return None
    if not a:
        return b
    if not b:
        return a
    out = []
    for x, y in zip(reversed(("1",) * (len(b) - len(a)) + tuple(a)), reversed(("1",) * (len(a) - len(b)) + tuple(b))):
        if x == y or y == "1" or y == 1:
            out.append(x)
        elif x == "1" or x == 1:
            out.append(y)
        else:
            return None
    return tuple(reversed(out))


def matmul(a, b):
    if a is None or b is None or not a or not b:
        return None
    if len(a) == 1 and len(b) == 1:
        return ()
    if len(a) == 1:
        return tuple(b[:-2]) + (b[-1],) if len(b) >= 2 else None
    if len(b) == 1:
        return tuple(a[:-1])
    return tuple(a[:-1]) + (b[-1],)


class Shapes:
    def __init__(self, env, calls=None):
        """env: {canonical source string: shape}; calls: {callee terminal name: shape of its result}"""
        self.env = dict(env)
        self.calls = dict(calls or {})

    def of(self, e):
        s = " ".join(ast.unparse(e).split())
        if s in self.env:
            return self.env[s]
        if isinstance(e, ast.Constant):
            return () if isinstance(e.value, (int, float, complex)) else None
        if isinstance(e, ast.UnaryOp):
            return self.of(e.operand)
        if isinstance(e, ast.BinOp):
            l, r = self.of(e.left), self.of(e.right)
            if isinstance(e.op, ast.MatMult):
                return matmul(l, r)
            return broadcast(l, r)
        if isinstance(e, ast.Compare) and len(e.ops) == 1:
            return broadcast(self.of(e.left), self.of(e.comparators[0]))
        if isinstance(e, ast.Attribute):
            if e.attr == "T":
                b = self.of(e.value)
                return tuple(reversed(b)) if b is not None else None
            return None
        if isinstance(e, ast.Subscript):
            b = self.of(e.value)
            if b is None:
                return None
            idx = list(e.slice.elts) if isinstance(e.slice, ast.Tuple) else [e.slice]
            out, i = [], 0
            for ix in idx:
                if (isinstance(ix, ast.Constant) and ix.value is None) or (dotted(ix) in ("np.newaxis", "numpy.newaxis", "newaxis")):
                    out.append("1")              # a new axis of length 1
                    continue
                if i >= len(b):
                    return None
                if isinstance(ix, ast.Slice):
                    out.append(b[i])
                else:
                    sh = self.of(ix)
                    if sh == ():
                        pass                     # integer index drops the axis
                    elif sh is not None and len(sh) == 1:
                        out.append(b[i])         # fancy index with a list keeps the axis (possibly shorter; same symbol)
                    elif isinstance(ix, (ast.Name, ast.Attribute, ast.Constant, ast.BinOp)) and sh is None:
                        # an index variable of unknown shape: assume a scalar index when it is a loop counter-like name
                        if isinstance(ix, ast.Constant) or (isinstance(ix, ast.Name) and len(ix.id) <= 2):
                            pass
                        else:
                            out.append(b[i])
                    else:
                        return None
                i += 1
            out += list(b[i:])
            return tuple(out)
        if isinstance(e, ast.Call):
            nm = call_name(e)
            if nm in self.calls:
                return self.calls[nm]
            if nm.startswith("__"):
                if nm in ("__elem__", "__val__") and e.args:
                    b = self.of(e.args[0])
                    return tuple(b[1:]) if b else None
                if nm == "__idx__":
                    return ()
                if nm == "__phi__":
                    shs = {self.of(a) for a in e.args}
                    return shs.pop() if len(shs) == 1 else None
                return None
            if nm in ELEMENTWISE:
                if isinstance(e.func, ast.Attribute) and dotted(e.func.value) not in ("np", "numpy", "math") and not e.args:
                    return self.of(e.func.value)
                if isinstance(e.func, ast.Attribute) and nm == "astype":
                    return self.of(e.func.value)
                return self.of(e.args[0]) if e.args else None
            if nm in ("maximum", "minimum", "add", "subtract", "multiply") and len(e.args) >= 2:
                return broadcast(self.of(e.args[0]), self.of(e.args[1]))
            if nm == "stack" and e.args and isinstance(e.args[0], (ast.List, ast.Tuple)):
                inner = {self.of(x) for x in e.args[0].elts}
                if len(inner) == 1 and None not in inner:
                    return (len(e.args[0].elts),) + tuple(inner.pop())
                return None
            if nm in ("norm", "sum", "max", "min", "mean", "all", "any", "amax", "amin"):
                arg = e.args[0] if e.args else (e.func.value if isinstance(e.func, ast.Attribute) else None)
                if isinstance(e.func, ast.Attribute) and dotted(e.func.value) not in ("np", "numpy", "np.linalg", "numpy.linalg") and not e.args:
                    arg = e.func.value
                b = self.of(arg) if arg is not None else None
                axis = next((k.value for k in e.keywords if k.arg == "axis"), e.args[1] if len(e.args) > 1 and nm != "norm" else None)
                if b is None:
                    return None
                if axis is None:
                    return ()
                if isinstance(axis, ast.Constant) and isinstance(axis.value, int) and -len(b) <= axis.value < len(b):
                    a = axis.value % len(b)
                    return tuple(b[:a]) + tuple(b[a + 1:])
                return None
            if nm == "tile" and len(e.args) == 2 and isinstance(e.args[1], ast.Tuple) and len(e.args[1].elts) == 2:
                b = self.of(e.args[0])
                reps = e.args[1].elts
                if b is not None and len(b) == 1 and isinstance(reps[1], ast.Constant) and reps[1].value == 1:
                    r0 = self.of(reps[0])
                    d0 = self.env.get("#" + " ".join(ast.unparse(reps[0]).split()))
                    return (d0 or "?",) + tuple(b)
                return None
            if nm in ("broadcast_to", "repeat") and e.args:
                # a column (C, 1) stretched along the period axis: broadcast_to(col, (C, T)) / repeat(col, T, axis=1)
                b = self.of(e.args[0])
                if b is not None and len(b) == 2 and b[1] in ("1", 1):
                    return (b[0], "T")
                return b if nm == "broadcast_to" else None
            if nm == "reshape":
                arg = e.func.value if isinstance(e.func, ast.Attribute) and dotted(e.func.value) not in ("np", "numpy") else (e.args[0] if e.args else None)
                dims = e.args if isinstance(e.func, ast.Attribute) and dotted(e.func.value) not in ("np", "numpy") else e.args[1:]
                if len(dims) == 1 and isinstance(dims[0], ast.Tuple):
                    dims = dims[0].elts
                b = self.of(arg) if arg is not None else None
                vals = []
                for d in dims:
                    try:
                        vals.append(ast.literal_eval(d))
                    except Exception:
                        vals.append(None)
                if b is not None and len(b) == 1 and vals == [-1, 1]:
                    return (b[0], "1")
                return None
            if nm in ("len",):
                return ()
            return None
        if isinstance(e, ast.IfExp):
            a, b = self.of(e.body), self.of(e.orelse)
            return a if a == b else None
        return None

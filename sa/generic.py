"""Generic well-formedness rules applied to every function a property's rules analysed (the property's own code base):

G1  no local variable is read where *no* definition of it can reach (a statement that used to define it was dropped or moved:
    the read raises UnboundLocalError / NameError on every execution that gets there);
G2  a function that hands back a value on some path hands one back on every normally ending path (a dropped `return`: the caller
    receives None where it expects the object, the accumulator, the rate ...).

Both are must-facts of the control-flow graph (no reaching definition at all; an exit edge that is not a return), so an infeasible
path can not raise them; named exceptions carry a reason."""
import ast
import builtins

from .core import walk_local
from .rules import flow_of

BUILTINS = set(dir(builtins)) | {"__file__", "__name__", "__doc__", "__package__", "__spec__", "__class__"}

# functions that return a value on some paths and fall off the end on others *by design* (confirmed by reading)
MIXED_RETURN_OK = {
    "BaseSimObj.to_json": "returns the JSON string only when no path / buffer is given, otherwise writes and returns None (documented)",
    "NpEncoder.default": "falls back to the base encoder's own return through super().default(obj) on the last line",
    "get_evse_by_type": "returns None for an unknown type string (C16.F1 checks that the site models only use known type strings)",
    "Interface.last_applied_pilot_signals": "",
}


def _has_star_import(repo, rel):
    return any(isinstance(n, ast.ImportFrom) and any(a.name == "*" for a in n.names) for n in ast.walk(repo.trees[rel]))


def _module_names(repo, rel):
    out = set()
    for n in repo.trees[rel].body:
        if isinstance(n, (ast.FunctionDef, ast.AsyncFunctionDef, ast.ClassDef)):
            out.add(n.name)
        elif isinstance(n, (ast.Import, ast.ImportFrom)):
            for a in n.names:
                out.add((a.asname or a.name).split(".")[0])
        elif isinstance(n, (ast.Assign, ast.AnnAssign, ast.AugAssign)):
            for t in (n.targets if isinstance(n, ast.Assign) else [n.target]):
                for x in ast.walk(t):
                    if isinstance(x, ast.Name):
                        out.add(x.id)
        elif isinstance(n, (ast.If, ast.Try)):
            for x in ast.walk(n):
                if isinstance(x, (ast.FunctionDef, ast.ClassDef)):
                    out.add(x.name)
                elif isinstance(x, ast.Name) and isinstance(x.ctx, ast.Store):
                    out.add(x.id)
                elif isinstance(x, (ast.Import, ast.ImportFrom)):
                    for a in x.names:
                        out.add((a.asname or a.name).split(".")[0])
    return out


def check_function(ck, prop, f):
    repo = ck.repo
    try:
        fl = flow_of(f)
    except Exception:
        return 0
    cfg = fl.cfg
    fn = f.node
    # names that are locals of this function: assigned somewhere in it (not in nested scopes)
    local_stores = {n.id for n in walk_local(fn) if isinstance(n, ast.Name) and isinstance(n.ctx, (ast.Store, ast.Del))}
    scoped = set()           # comprehension / lambda variables live in their own scope
    declared = set()
    for n in walk_local(fn):
        if isinstance(n, ast.comprehension):
            scoped |= {x.id for x in ast.walk(n.target) if isinstance(x, ast.Name)}
        elif isinstance(n, ast.Lambda):
            scoped |= {a.arg for a in n.args.args + n.args.kwonlyargs}
        elif isinstance(n, (ast.Global, ast.Nonlocal)):
            declared |= set(n.names)
    enclosing = set()
    p = f.parent
    while p is not None:
        enclosing |= {n.id for n in ast.walk(p.node) if isinstance(n, ast.Name) and isinstance(n.ctx, ast.Store)} | set(p.params)
        enclosing |= {n.name for n in ast.walk(p.node) if isinstance(n, (ast.FunctionDef, ast.ClassDef))}
        p = p.parent
    known_elsewhere = _module_names(repo, f.module) | BUILTINS | enclosing | declared
    star = _has_star_import(repo, f.module)
    nested_defs = {n.name for n in walk_local(fn) if isinstance(n, (ast.FunctionDef, ast.AsyncFunctionDef, ast.ClassDef))}
    nested_defs |= {a.asname or a.name.split(".")[0] for n in walk_local(fn) if isinstance(n, (ast.Import, ast.ImportFrom)) for a in n.names}
    nested_defs |= {h.name for n in walk_local(fn) if isinstance(n, ast.Try) for h in n.handlers if h.name}
    a_ = fn.args
    params = {x.arg for x in a_.posonlyargs + a_.args + a_.kwonlyargs} | ({a_.vararg.arg} if a_.vararg else set()) | ({a_.kwarg.arg} if a_.kwarg else set())
    n_reads = 0
    reported = set()
    for node in cfg.nodes:
        if not cfg.live(node):
            continue
        for e in cfg.node_exprs(node):
            for x in [e] + list(walk_local(e, into_lambda=False)):
                if not (isinstance(x, ast.Name) and isinstance(x.ctx, ast.Load)):
                    continue
                if x.id in scoped or x.id in params:
                    continue
                if x.id in nested_defs:
                    continue
                if x.id not in local_stores:
                    # not assigned anywhere in this function: it must be a name of the module, an enclosing function or a builtin
                    # (a module with `from x import *` can receive any name: not judged)
                    if not star and x.id not in known_elsewhere and x.id not in reported:
                        reported.add(x.id)
                        ck.violation(f"{prop}.G1", f, x, f"`{x.id}` is read here but is defined neither in this function nor in its module (the assignment "
                                     f"that introduced it is gone): NameError when this line runs", sink=f"undefined:{x.id}")
                    continue
                # the statement's own target does not count as a definition for its right-hand side: defs_at gives the definitions
                # reaching the *entry* of the node
                n_reads += 1
                if not fl.defs_at(node, x.id) and x.id not in reported:
                    reported.add(x.id)
                    ck.violation(f"{prop}.G1", f, x, f"`{x.id}` is read here but no assignment of it reaches this point on any path: the statement that "
                                 f"defined it is gone or comes later (UnboundLocalError when this line runs)", sink=f"undefined:{x.id}")
    # G2
    rets = [n for n in cfg.nodes if n.kind == "return"]
    valued = [r for r in rets if r.expr is not None and not (isinstance(r.expr, ast.Constant) and r.expr.value is None)]
    is_gen = any(isinstance(n, (ast.Yield, ast.YieldFrom)) for n in walk_local(fn))
    if valued and not is_gen and f.qual not in MIXED_RETURN_OK and f.name != "__init__":
        falls = [p_ for p_ in cfg.exit.pred if p_.kind != "return"]
        bare = [r for r in rets if r.expr is None]
        if falls or bare:
            where = falls[0].stmt if falls and falls[0].stmt is not None else (bare[0].stmt if bare else fn)
            ck.violation(f"{prop}.G2", f, where, f"{f.qual} returns a value on some paths but can also end without one (a `return` is missing after "
                         f"`{' '.join(ast.unparse(where).split())[:50]}`): the caller receives None", sink="falls-off")
        else:
            ck.holds(f"{prop}.G2", f, f.qual, "every normally ending path returns a value")
    if n_reads and not reported:
        ck.holds(f"{prop}.G1", f, f.qual, f"{n_reads} reads of local variables, each reached by a definition")
    return n_reads


def check_class(ck, prop, ci):
    """G3: every attribute of self that the class reads is a method / property / class-level name or is assigned by the constructor
    (own or inherited) on every normally ending path - otherwise the first read raises AttributeError"""
    repo = ck.repo
    mro = repo.mro(ci)
    if any(b not in repo.classes for c in mro for b in c.bases if b not in ("object", "ABC", "Exception", "Warning", "NamedTuple")):
        ext = True
    else:
        ext = False
    defined = set()
    for c in mro:
        defined |= set(c.methods) | set(c.setters) | set(c.assigns)
        for st in c.node.body:
            if isinstance(st, ast.AnnAssign) and isinstance(st.target, ast.Name) and st.value is not None:
                defined.add(st.target.id)          # a bare annotation (`period: int`) declares a type, it does not create the attribute
    always, sometimes = set(), set()
    for c in mro:
        m = c.methods.get("__init__")
        if m is None:
            continue
        try:
            fl = flow_of(m)
        except Exception:
            continue
        by_attr = {}
        for n in fl.cfg.nodes:
            if n.kind != "stmt":
                continue
            for x in ast.walk(n.stmt):
                if isinstance(x, ast.Attribute) and isinstance(x.ctx, ast.Store) and isinstance(x.value, ast.Name) and x.value.id == "self":
                    by_attr.setdefault(x.attr, set()).add(n)
        for a, nodes in by_attr.items():
            sometimes.add(a)
            if fl.cfg.exit not in fl.cfg.reach(fl.cfg.entry, avoid=nodes):
                always.add(a)
    reads = {}
    for m in list(ci.methods.values()) + list(ci.setters.values()):
        if m.name == "__init__":
            continue
        for x in walk_local(m.node):
            if isinstance(x, ast.Attribute) and isinstance(x.ctx, ast.Load) and isinstance(x.value, ast.Name) and x.value.id == "self" and not x.attr.startswith("__"):
                reads.setdefault(x.attr, (m, x))
    n = 0
    for a, (m, x) in sorted(reads.items()):
        if a in defined:
            continue
        n += 1
        if a in always:
            ck.holds(f"{prop}.G3", m, f"self.{a}", "initialised by the constructor on every path")
        elif ext and a not in sometimes:
            continue                      # may come from a base class outside the package
        else:
            ck.violation(f"{prop}.G3", m, x, f"{ci.name}.{a} is read here but " + ("is assigned only on some paths of the constructor" if a in sometimes else
                         "no constructor of the class (or of its bases) assigns it") + ": AttributeError on a fresh object", sink=f"{ci.name}.{a}:uninitialised")
    return n


ALLOCATORS = ("zeros", "ones", "empty", "full", "array", "zeros_like", "ones_like", "empty_like", "full_like", "arange", "list", "dict", "set", "deque",
              "defaultdict", "OrderedDict", "bytearray", "copy", "deepcopy", "DataFrame", "Series")


def _allocation(e):
    """expression that creates a fresh mutable object"""
    if isinstance(e, (ast.List, ast.Dict, ast.Set, ast.ListComp, ast.DictComp, ast.SetComp)):
        return True
    if isinstance(e, ast.Call):
        f = e.func
        nm = f.attr if isinstance(f, ast.Attribute) else (f.id if isinstance(f, ast.Name) else None)
        return nm in ALLOCATORS
    if isinstance(e, ast.BinOp) and isinstance(e.op, ast.Mult):
        return _allocation(e.left) or _allocation(e.right)
    return False


def check_distinct_state(ck, prop, ci):
    """G4: two attributes of one object never name one mutable allocation (`self.a = self.b = np.zeros(..)`, or one local holding a
    fresh array stored under two names): an in-place write through one of them silently changes what the other one reports"""
    from .rules import who_writes
    n = 0
    for m in ci.methods.values():
        try:
            fl = flow_of(m)
        except Exception:
            continue
        shared = {}
        for node in fl.cfg.nodes:
            if node.kind != "stmt" or not isinstance(node.stmt, ast.Assign):
                continue
            attrs = [t for t in node.stmt.targets if isinstance(t, ast.Attribute) and isinstance(t.value, ast.Name) and t.value.id == "self"]
            if not attrs:
                continue
            v = node.stmt.value
            key = None
            if _allocation(v):
                key = id(v)
            elif isinstance(v, ast.Name):
                ds = fl.defs_at(node, v.id)
                if len(ds) == 1:
                    d = next(iter(ds))
                    dv = getattr(getattr(d, "stmt", None), "value", None)
                    if dv is not None and isinstance(d.stmt, ast.Assign) and len(d.stmt.targets) == 1 and isinstance(d.stmt.targets[0], ast.Name) and _allocation(dv):
                        key = id(dv)
            if key is None:
                continue
            for t in attrs:
                n += 1
                shared.setdefault(key, []).append((t.attr, node))
        for key, lst in shared.items():
            names = sorted({a for a, _ in lst})
            if len(names) < 2:
                continue
            inplace = [a for a in names if any(k in ("subassign", "aug") or k.startswith("mut:") for _, k, _, _ in who_writes(ck.repo, a))]
            if inplace:
                ck.violation(f"{prop}.G4", m, lst[-1][1].stmt, f"{ci.name}.{' and '.join(names)} are bound to one and the same freshly created object; "
                             f"`{inplace[0]}` is written in place elsewhere, so every such write also changes `{[x for x in names if x != inplace[0]][0]}`",
                             sink=f"{ci.name}.{'+'.join(names)}:shared-allocation")
    return n


_KNOWN_ATTRS = None


def known_attrs():
    """{class name: attributes the class had on the pinned tree} (sa/known_attrs.json, frozen like known_funcs.json)"""
    global _KNOWN_ATTRS
    if _KNOWN_ATTRS is None:
        import json
        import os
        try:
            _KNOWN_ATTRS = {k: set(v) for k, v in json.load(open(os.path.join(os.path.dirname(os.path.abspath(__file__)), "known_attrs.json"))).items()}
        except OSError:
            _KNOWN_ATTRS = {}
    return _KNOWN_ATTRS


def check_derived_state(ck, prop, ci):
    """G5: an attribute that did not exist on the pinned tree and whose stored value is computed from *other* attributes of the same
    object is remembered, derived state (a cache, a precomputed deadline, a cursor).  Whatever changes one of the attributes it was
    computed from must bring it up to date on the same path - otherwise its readers see a value that belongs to an earlier state.  The
    rules of the property know nothing about such an attribute, so this coherence condition is what is checked about it."""
    from .rules import who_writes, state_writes
    from .flow import leaves
    repo = ck.repo
    ka = known_attrs()
    if ci.name not in ka:
        return 0
    known = set()
    for c in repo.mro(ci):
        known |= ka.get(c.name, set())
    stores = {}
    for m in ci.methods.values():
        try:
            fl = flow_of(m)
        except Exception:
            continue
        for node, kind, path, tgt in state_writes(fl):
            if kind == "assign" and path.startswith("self.") and path.count(".") == 1 and path[5:] not in known and getattr(node.stmt, "value", None) is not None:
                stores.setdefault(path[5:], []).append((m, fl, node))
        # restore functions write through `out_obj`
        for node in fl.cfg.nodes:
            if node.kind == "stmt" and isinstance(node.stmt, ast.Assign):
                for t in node.stmt.targets:
                    if isinstance(t, ast.Attribute) and isinstance(t.value, ast.Name) and t.value.id == "out_obj" and t.attr not in known:
                        stores.setdefault(t.attr, []).append((m, fl, node))
    n = 0
    for X, sts in sorted(stores.items()):
        deps = set()
        for m, fl, node in sts:
            for lf_ in leaves(fl.expand(node.stmt.value, node), calls=False):
                parts = lf_.split(".")
                if len(parts) >= 2 and parts[0] in ("self", "out_obj") and parts[1] != X:
                    deps.add(parts[1])
        deps = {d for d in deps if d in known and not (d in ci.methods or any(d in c.methods for c in repo.mro(ci)) and not any(d in ka.get(c.name, ()) and d not in c.methods for c in repo.mro(ci)))}
        # a counter that only ever moves by a constant step (the period counter) is not a source to be kept in step with: values derived
        # from it are absolute positions (deadlines, offsets) that stay valid while it advances
        def is_counter(d):
            ws = [(f, k, p_, t) for f, k, p_, t in who_writes(repo, d) if p_ in (f"self.{d}", f"out_obj.{d}") and f.name not in ("__init__", "_from_dict", "_from_dict_helper")]
            return bool(ws) and all(k == "aug" for f, k, p_, t in ws)
        deps = {d for d in deps if not is_counter(d)}
        if not deps:
            continue
        readers = [m for m in ci.methods.values() for x in walk_local(m.node)
                   if isinstance(x, ast.Attribute) and isinstance(x.ctx, ast.Load) and x.attr == X and isinstance(x.value, ast.Name) and x.value.id == "self"]
        if not readers:
            continue
        family = {c.name for c in repo.mro(ci)} | {c.name for c in repo.subclasses(ci.name)}
        for d in sorted(deps):
            for f, kind, path, t in who_writes(repo, d):
                if f.cls is None or f.cls.name not in family or "/tests/" in f.module or path not in (f"self.{d}", f"out_obj.{d}"):
                    continue
                if f.name == "__init__" and any(m is f for m, _, _ in sts):
                    continue                # constructed together
                n += 1
                try:
                    fl = flow_of(f)
                except Exception:
                    continue
                root = path.split(".")[0]
                wnodes = [nd for nd, k2, p2, t2 in state_writes(fl, roots=(root,)) if p2 == path and (t2 is t or k2 == kind)]
                xnodes = {nd for nd, k2, p2, t2 in state_writes(fl, roots=(root,)) if p2 == f"{root}.{X}"}
                stale = [w for w in wnodes if fl.cfg.exit in fl.cfg.reach(w, avoid=xnodes | {fl.cfg.raise_exit}) and w not in xnodes]
                if stale:
                    ck.violation(f"{prop}.G5", f, stale[0].stmt, f"{f.qual} changes `{d}`, which `{ci.name}.{X}` (new, derived state: set in "
                                 f"{', '.join(sorted({m.qual for m, _, _ in sts}))} from {sorted(deps)}) was computed from, and does not bring `{X}` up to date on that path: "
                                 f"{readers[0].qual} then reads a value that belongs to the earlier state", sink=f"{ci.name}.{X}:stale-after:{f.qual}:{d}")
                else:
                    ck.holds(f"{prop}.G5", f, t if isinstance(t, ast.AST) else f.qual, f"`{X}` is refreshed after `{d}` changes")
    return n


def run(ck, prop, analysed):
    """analysed: {qualified name: module} of the functions the property's rules built flow graphs for"""
    repo = ck.repo
    n = 0
    for q, mod in sorted(analysed.items()):
        for f in [x for x in repo.funcs.get(q, []) if x.module == mod][:1]:
            n += 1
            check_function(ck, prop, f)
    ck.count("functions under the generic well-formedness rules", n)
    classes = {}
    for q, mod in analysed.items():
        for f in [x for x in repo.funcs.get(q, []) if x.module == mod][:1]:
            if f.cls is not None and "/tests/" not in f.cls.module:
                classes[(f.cls.name, f.cls.module)] = f.cls
    m = 0
    k4 = k5 = 0
    for key in sorted(classes):
        m += check_class(ck, prop, classes[key])
        k4 += check_distinct_state(ck, prop, classes[key])
        k5 += check_derived_state(ck, prop, classes[key])
    ck.count("attribute stores of fresh allocations under the distinct-state rule", k4)
    ck.count("writers of the sources of new derived attributes under the coherence rule", k5)
    ck.count("attribute reads under the definite-initialisation rule", m)

"""Generic well-formedness rules applied to every function a property's rules analysed (the property's own code base):

G1  no local variable is read where *no* definition of it can reach (a statement that used to define it was dropped or moved:
    the read raises UnboundLocalError / NameError on every execution that gets there);
G2  a function that hands back a value on some path hands one back on every normally ending path (a dropped `return`: the caller
    receives None where it expects the object, the accumulator, the rate ...).

Both are must-facts of the control-flow graph (no reaching definition at all; an exit edge that is not a return), so an infeasible
path can not raise them; named exceptions carry a reason."""
import ast
import builtins

from .core import walk_local
from .rules import flow_of

BUILTINS = set(dir(builtins)) | {"__file__", "__name__", "__doc__", "__package__", "__spec__", "__class__"}

# functions that return a value on some paths and fall off the end on others *by design* (confirmed by reading)
MIXED_RETURN_OK = {
    "BaseSimObj.to_json": "returns the JSON string only when no path / buffer is given, otherwise writes and returns None (documented)",
    "NpEncoder.default": "falls back to the base encoder's own return through super().default(obj) on the last line",
    "get_evse_by_type": "returns None for an unknown type string (C16.F1 checks that the site models only use known type strings)",
    "Interface.last_applied_pilot_signals": "",
}


def _has_star_import(repo, rel):
    return any(isinstance(n, ast.ImportFrom) and any(a.name == "*" for a in n.names) for n in ast.walk(repo.trees[rel]))


def _module_names(repo, rel):
    out = set()
    for n in repo.trees[rel].body:
        if isinstance(n, (ast.FunctionDef, ast.AsyncFunctionDef, ast.ClassDef)):
            out.add(n.name)
        elif isinstance(n, (ast.Import, ast.ImportFrom)):
            for a in n.names:
                out.add((a.asname or a.name).split(".")[0])
        elif isinstance(n, (ast.Assign, ast.AnnAssign, ast.AugAssign)):
            for t in (n.targets if isinstance(n, ast.Assign) else [n.target]):
                for x in ast.walk(t):
                    if isinstance(x, ast.Name):
                        out.add(x.id)
        elif isinstance(n, (ast.If, ast.Try)):
            for x in ast.walk(n):
                if isinstance(x, (ast.FunctionDef, ast.ClassDef)):
                    out.add(x.name)
                elif isinstance(x, ast.Name) and isinstance(x.ctx, ast.Store):
                    out.add(x.id)
                elif isinstance(x, (ast.Import, ast.ImportFrom)):
                    for a in x.names:
                        out.add((a.asname or a.name).split(".")[0])
    return out


def check_function(ck, prop, f):
    repo = ck.repo
    try:
        fl = flow_of(f)
    except Exception:
        return 0
    cfg = fl.cfg
    fn = f.node
    # names that are locals of this function: assigned somewhere in it (not in nested scopes)
    local_stores = {n.id for n in walk_local(fn) if isinstance(n, ast.Name) and isinstance(n.ctx, (ast.Store, ast.Del))}
    scoped = set()           # comprehension / lambda variables live in their own scope
    declared = set()
    for n in walk_local(fn):
        if isinstance(n, ast.comprehension):
            scoped |= {x.id for x in ast.walk(n.target) if isinstance(x, ast.Name)}
        elif isinstance(n, ast.Lambda):
            scoped |= {a.arg for a in n.args.args + n.args.kwonlyargs}
        elif isinstance(n, (ast.Global, ast.Nonlocal)):
            declared |= set(n.names)
    enclosing = set()
    p = f.parent
    while p is not None:
        enclosing |= {n.id for n in ast.walk(p.node) if isinstance(n, ast.Name) and isinstance(n.ctx, ast.Store)} | set(p.params)
        enclosing |= {n.name for n in ast.walk(p.node) if isinstance(n, (ast.FunctionDef, ast.ClassDef))}
        p = p.parent
    known_elsewhere = _module_names(repo, f.module) | BUILTINS | enclosing | declared
    star = _has_star_import(repo, f.module)
    nested_defs = {n.name for n in walk_local(fn) if isinstance(n, (ast.FunctionDef, ast.AsyncFunctionDef, ast.ClassDef))}
    nested_defs |= {a.asname or a.name.split(".")[0] for n in walk_local(fn) if isinstance(n, (ast.Import, ast.ImportFrom)) for a in n.names}
    nested_defs |= {h.name for n in walk_local(fn) if isinstance(n, ast.Try) for h in n.handlers if h.name}
    a_ = fn.args
    params = {x.arg for x in a_.posonlyargs + a_.args + a_.kwonlyargs} | ({a_.vararg.arg} if a_.vararg else set()) | ({a_.kwarg.arg} if a_.kwarg else set())
    n_reads = 0
    reported = set()
    for node in cfg.nodes:
        if not cfg.live(node):
            continue
        for e in cfg.node_exprs(node):
            bound_here = {y.target.id for y in [e] + list(walk_local(e, into_lambda=False)) if isinstance(y, ast.NamedExpr) and isinstance(y.target, ast.Name)}
            for x in [e] + list(walk_local(e, into_lambda=False)):
                if not (isinstance(x, ast.Name) and isinstance(x.ctx, ast.Load)):
                    continue
                if x.id in scoped or x.id in params or x.id in bound_here:
                    continue
                if x.id in nested_defs:
                    continue
                if x.id not in local_stores:
                    # not assigned anywhere in this function: it must be a name of the module, an enclosing function or a builtin
                    # (a module with `from x import *` can receive any name: not judged)
                    if not star and x.id not in known_elsewhere and x.id not in reported:
                        reported.add(x.id)
                        ck.violation(f"{prop}.G1", f, x, f"`{x.id}` is read here but is defined neither in this function nor in its module (the assignment "
                                     f"that introduced it is gone): NameError when this line runs", sink=f"undefined:{x.id}")
                    continue
                # the statement's own target does not count as a definition for its right-hand side: defs_at gives the definitions
                # reaching the *entry* of the node
                n_reads += 1
                if not fl.defs_at(node, x.id) and x.id not in reported:
                    reported.add(x.id)
                    ck.violation(f"{prop}.G1", f, x, f"`{x.id}` is read here but no assignment of it reaches this point on any path: the statement that "
                                 f"defined it is gone or comes later (UnboundLocalError when this line runs)", sink=f"undefined:{x.id}")
    # G2
    rets = [n for n in cfg.nodes if n.kind == "return"]
    valued = [r for r in rets if r.expr is not None and not (isinstance(r.expr, ast.Constant) and r.expr.value is None)]
    is_gen = any(isinstance(n, (ast.Yield, ast.YieldFrom)) for n in walk_local(fn))
    if valued and not is_gen and f.qual not in MIXED_RETURN_OK and f.name != "__init__":
        falls = [p_ for p_ in cfg.exit.pred if p_.kind != "return"]
        bare = [r for r in rets if r.expr is None]
        if falls or bare:
            where = falls[0].stmt if falls and falls[0].stmt is not None else (bare[0].stmt if bare else fn)
            ck.violation(f"{prop}.G2", f, where, f"{f.qual} returns a value on some paths but can also end without one (a `return` is missing after "
                         f"`{' '.join(ast.unparse(where).split())[:50]}`): the caller receives None", sink="falls-off")
        else:
            ck.holds(f"{prop}.G2", f, f.qual, "every normally ending path returns a value")
    if n_reads and not reported:
        ck.holds(f"{prop}.G1", f, f.qual, f"{n_reads} reads of local variables, each reached by a definition")
    return n_reads


def check_class(ck, prop, ci):
    """G3: every attribute of self that the class reads is a method / property / class-level name or is assigned by the constructor
    (own or inherited) on every normally ending path - otherwise the first read raises AttributeError"""
    repo = ck.repo
    mro = repo.mro(ci)
    if any(b not in repo.classes for c in mro for b in c.bases if b not in ("object", "ABC", "Exception", "Warning", "NamedTuple")):
        ext = True
    else:
        ext = False
    defined = set()
    for c in mro:
        defined |= set(c.methods) | set(c.setters) | set(c.assigns)
        for st in c.node.body:
            if isinstance(st, ast.AnnAssign) and isinstance(st.target, ast.Name) and st.value is not None:
                defined.add(st.target.id)          # a bare annotation (`period: int`) declares a type, it does not create the attribute
    always, sometimes = set(), set()
    for c in mro:
        m = c.methods.get("__init__")
        if m is None:
            continue
        try:
            fl = flow_of(m)
        except Exception:
            continue
        by_attr = {}
        for n in fl.cfg.nodes:
            if n.kind != "stmt":
                continue
            for x in ast.walk(n.stmt):
                if isinstance(x, ast.Attribute) and isinstance(x.ctx, ast.Store) and isinstance(x.value, ast.Name) and x.value.id == "self":
                    by_attr.setdefault(x.attr, set()).add(n)
        for a, nodes in by_attr.items():
            sometimes.add(a)
            if fl.cfg.exit not in fl.cfg.reach(fl.cfg.entry, avoid=nodes):
                always.add(a)
    reads = {}
    for m in list(ci.methods.values()) + list(ci.setters.values()):
        if m.name == "__init__":
            continue
        for x in walk_local(m.node):
            if isinstance(x, ast.Attribute) and isinstance(x.ctx, ast.Load) and isinstance(x.value, ast.Name) and x.value.id == "self" and not x.attr.startswith("__") \
                    and not getattr(x, "_optional_read", False):        # getattr(self, "a", default): a read that tolerates absence
                reads.setdefault(x.attr, (m, x))
    n = 0
    for a, (m, x) in sorted(reads.items()):
        if a in defined:
            continue
        n += 1
        if a in always:
            ck.holds(f"{prop}.G3", m, f"self.{a}", "initialised by the constructor on every path")
        elif ext and a not in sometimes:
            continue                      # may come from a base class outside the package
        else:
            ck.violation(f"{prop}.G3", m, x, f"{ci.name}.{a} is read here but " + ("is assigned only on some paths of the constructor" if a in sometimes else
                         "no constructor of the class (or of its bases) assigns it") + ": AttributeError on a fresh object", sink=f"{ci.name}.{a}:uninitialised")
    return n


ALLOCATORS = ("zeros", "ones", "empty", "full", "array", "zeros_like", "ones_like", "empty_like", "full_like", "arange", "list", "dict", "set", "deque",
              "defaultdict", "OrderedDict", "bytearray", "copy", "deepcopy", "DataFrame", "Series")


def _allocation(e):
    """expression that creates a fresh mutable object"""
    if isinstance(e, (ast.List, ast.Dict, ast.Set, ast.ListComp, ast.DictComp, ast.SetComp)):
        return True
    if isinstance(e, ast.Call):
        f = e.func
        nm = f.attr if isinstance(f, ast.Attribute) else (f.id if isinstance(f, ast.Name) else None)
        return nm in ALLOCATORS
    if isinstance(e, ast.BinOp) and isinstance(e.op, ast.Mult):
        return _allocation(e.left) or _allocation(e.right)
    return False


def check_distinct_state(ck, prop, ci):
    """G4: two attributes of one object never name one mutable allocation (`self.a = self.b = np.zeros(..)`, or one local holding a
    fresh array stored under two names): an in-place write through one of them silently changes what the other one reports"""
    from .rules import who_writes
    n = 0
    for m in ci.methods.values():
        try:
            fl = flow_of(m)
        except Exception:
            continue
        shared = {}
        for node in fl.cfg.nodes:
            if node.kind != "stmt" or not isinstance(node.stmt, ast.Assign):
                continue
            attrs = [t for t in node.stmt.targets if isinstance(t, ast.Attribute) and isinstance(t.value, ast.Name) and t.value.id == "self"]
            if not attrs:
                continue
            v = node.stmt.value
            key = None
            if _allocation(v):
                key = id(v)
            elif isinstance(v, ast.Name):
                ds = fl.defs_at(node, v.id)
                if len(ds) == 1:
                    d = next(iter(ds))
                    dv = getattr(getattr(d, "stmt", None), "value", None)
                    if dv is not None and isinstance(d.stmt, ast.Assign) and len(d.stmt.targets) == 1 and isinstance(d.stmt.targets[0], ast.Name) and _allocation(dv):
                        key = id(dv)
            if key is None:
                continue
            for t in attrs:
                n += 1
                shared.setdefault(key, []).append((t.attr, node))
        for key, lst in shared.items():
            names = sorted({a for a, _ in lst})
            if len(names) < 2:
                continue
            inplace = [a for a in names if any(k in ("subassign", "aug") or k.startswith("mut:") for _, k, _, _ in who_writes(ck.repo, a))]
            if inplace:
                ck.violation(f"{prop}.G4", m, lst[-1][1].stmt, f"{ci.name}.{' and '.join(names)} are bound to one and the same freshly created object; "
                             f"`{inplace[0]}` is written in place elsewhere, so every such write also changes `{[x for x in names if x != inplace[0]][0]}`",
                             sink=f"{ci.name}.{'+'.join(names)}:shared-allocation")
    return n


_KNOWN_ATTRS = None


def known_attrs():
    """{class name: attributes the class had on the pinned tree} (sa/known_attrs.json, frozen like known_funcs.json)"""
    global _KNOWN_ATTRS
    if _KNOWN_ATTRS is None:
        import json
        import os
        try:
            _KNOWN_ATTRS = {k: set(v) for k, v in json.load(open(os.path.join(os.path.dirname(os.path.abspath(__file__)), "known_attrs.json"))).items()}
        except OSError:
            _KNOWN_ATTRS = {}
    return _KNOWN_ATTRS


def check_derived_state(ck, prop, ci):
    """G5: an attribute that did not exist on the pinned tree and whose stored value is computed from *other* attributes of the same
    object is remembered, derived state (a cache, a precomputed deadline, a cursor).  Whatever changes one of the attributes it was
    computed from must bring it up to date on the same path - otherwise its readers see a value that belongs to an earlier state.  The
    rules of the property know nothing about such an attribute, so this coherence condition is what is checked about it."""
    from .rules import who_writes, state_writes
    from .flow import leaves
    repo = ck.repo
    ka = known_attrs()
    if ci.name not in ka:
        return 0
    known = set()
    for c in repo.mro(ci):
        known |= ka.get(c.name, set())
    stores = {}
    for m in ci.methods.values():
        try:
            fl = flow_of(m)
        except Exception:
            continue
        for node, kind, path, tgt in state_writes(fl):
            if kind == "assign" and path.startswith("self.") and path.count(".") == 1 and path[5:] not in known and getattr(node.stmt, "value", None) is not None:
                stores.setdefault(path[5:], []).append((m, fl, node))
        # restore functions write through `out_obj`
        for node in fl.cfg.nodes:
            if node.kind == "stmt" and isinstance(node.stmt, ast.Assign):
                for t in node.stmt.targets:
                    if isinstance(t, ast.Attribute) and isinstance(t.value, ast.Name) and t.value.id == "out_obj" and t.attr not in known:
                        stores.setdefault(t.attr, []).append((m, fl, node))
    n = 0
    for X, sts in sorted(stores.items()):
        deps = set()
        for m, fl, node in sts:
            for lf_ in leaves(fl.expand(node.stmt.value, node), calls=False):
                parts = lf_.split(".")
                if len(parts) >= 2 and parts[0] in ("self", "out_obj") and parts[1] != X:
                    deps.add(parts[1])
        deps = {d for d in deps if d in known and not (d in ci.methods or any(d in c.methods for c in repo.mro(ci)) and not any(d in ka.get(c.name, ()) and d not in c.methods for c in repo.mro(ci)))}
        # a counter that only ever moves by a constant step (the period counter) is not a source to be kept in step with: values derived
        # from it are absolute positions (deadlines, offsets) that stay valid while it advances
        def is_counter(d):
            ws = [(f, k, p_, t) for f, k, p_, t in who_writes(repo, d) if p_ in (f"self.{d}", f"out_obj.{d}") and f.name not in ("__init__", "_from_dict", "_from_dict_helper")]
            return bool(ws) and all(k == "aug" for f, k, p_, t in ws)
        deps = {d for d in deps if not is_counter(d)}
        if not deps:
            continue
        readers = [m for m in ci.methods.values() for x in walk_local(m.node)
                   if isinstance(x, ast.Attribute) and isinstance(x.ctx, ast.Load) and x.attr == X and isinstance(x.value, ast.Name) and x.value.id == "self"]
        if not readers:
            continue
        family = {c.name for c in repo.mro(ci)} | {c.name for c in repo.subclasses(ci.name)}
        # a method of this class that brings X up to date does so for every object of the class; an override in a subclass must not
        # silently drop that: (a) where the overridden method refreshes X without itself changing what X is computed from (a hook
        # called at the moment the sources may have changed), the override has to refresh X on every normally ending path; (b) where the
        # refresh follows a change of the sources inside the method, the override has to refresh X after every such change it makes
        writers_x = {m.name for m, _, _ in sts if m.name not in ("__init__", "_from_dict", "_from_dict_helper", "_to_dict")}

        def source_mutations(fl_):
            """cfg nodes with a method call on an element of a source collection (self.d[k].m(..), or x.m(..) for x ranging over self.d)"""
            out = []
            for nd in fl_.cfg.nodes:
                for e in fl_.cfg.node_exprs(nd):
                    for c_ in [e] + list(walk_local(e)):
                        if not (isinstance(c_, ast.Call) and isinstance(c_.func, ast.Attribute)):
                            continue
                        recv = c_.func.value
                        if isinstance(recv, ast.Call) and isinstance(recv.func, ast.Name) and recv.func.id == "super":
                            continue
                        try:
                            rx = " ".join(ast.unparse(fl_.expand(recv, nd)).split())
                        except Exception:
                            continue
                        for d_ in deps:
                            if (rx.startswith(f"self.{d_}[") or rx.startswith(f"__elem__(self.{d_}") or rx.startswith(f"self.{d_}.get(")) and \
                                    c_.func.attr not in ("values", "keys", "items", "get", "copy", "index", "count"):
                                out.append(nd)
            return out

        def refresh_nodes(fl_, mname_, fam):
            out = {nd for nd, k2, p2, t2 in state_writes(fl_) if p2 == f"self.{X}"}
            for nd in fl_.cfg.nodes:
                for e in fl_.cfg.node_exprs(nd):
                    for c_ in [e] + list(walk_local(e)):
                        if isinstance(c_, ast.Call) and isinstance(c_.func, ast.Attribute):
                            v_ = c_.func.value
                            sup = isinstance(v_, ast.Call) and isinstance(v_.func, ast.Name) and v_.func.id == "super"
                            if c_.func.attr == mname_ and (sup or (isinstance(v_, ast.Name) and v_.id in fam)):
                                out.add(nd)
                            elif c_.func.attr in uncond and (sup or (isinstance(v_, ast.Name) and v_.id == "self")) and c_.func.attr != mname_:
                                out.add(nd)
            return out
        uncond = set()
        base_kind = {}
        for mname in sorted(writers_x):
            try:
                bfl = flow_of(ci.methods[mname])
            except Exception:
                continue
            rn = {nd for nd, k2, p2, t2 in state_writes(bfl) if p2 == f"self.{X}"}
            if bfl.cfg.exit not in bfl.cfg.reach(bfl.cfg.entry, avoid=rn | {bfl.cfg.raise_exit}):
                uncond.add(mname)
            base_kind[mname] = "mutation" if source_mutations(bfl) else "hook"
        for sub in repo.subclasses(ci.name):
            if "/tests/" in sub.module:
                continue
            for mname in sorted(writers_x):
                ov = sub.methods.get(mname)
                if ov is None or mname not in base_kind or ov.node is ci.methods[mname].node:
                    continue
                n += 1
                try:
                    ofl = flow_of(ov)
                except Exception:
                    continue
                refresh = refresh_nodes(ofl, mname, family)
                if base_kind[mname] == "hook" and mname in uncond:
                    bad_ = ofl.cfg.exit in ofl.cfg.reach(ofl.cfg.entry, avoid=refresh | {ofl.cfg.raise_exit})
                    what_ = "can finish without calling it and without writing"
                else:
                    muts = source_mutations(ofl)
                    bad_ = any(ofl.cfg.exit in ofl.cfg.reach(w, avoid=refresh | {ofl.cfg.raise_exit}) and w not in refresh for w in muts)
                    what_ = f"changes an element of {sorted(deps)} and can then finish without calling it and without writing"
                if bad_:
                    ck.violation(f"{prop}.G5", ov, ov.node.body[-1] if ov.node.body else ov.node,
                                 f"{ci.name}.{mname} brings `{X}` (new, derived state computed from {sorted(deps)}) up to date, but the override {ov.qual} {what_} `{X}`: "
                                 f"on {sub.name} objects `{X}` keeps a value that belongs to an earlier state (read by {readers[0].qual})",
                                 sink=f"{ci.name}.{X}:override-drops-refresh:{ov.qual}", positive=True)
                else:
                    ck.holds(f"{prop}.G5", ov, ov.qual, f"override keeps the refresh of `{X}`")
        for d in sorted(deps):
            for f, kind, path, t in who_writes(repo, d):
                if f.cls is None or f.cls.name not in family or "/tests/" in f.module or path not in (f"self.{d}", f"out_obj.{d}"):
                    continue
                if f.name == "__init__" and any(m is f for m, _, _ in sts):
                    continue                # constructed together
                n += 1
                try:
                    fl = flow_of(f)
                except Exception:
                    continue
                root = path.split(".")[0]
                wnodes = [nd for nd, k2, p2, t2 in state_writes(fl, roots=(root,)) if p2 == path and (t2 is t or k2 == kind)]
                xnodes = {nd for nd, k2, p2, t2 in state_writes(fl, roots=(root,)) if p2 == f"{root}.{X}"}
                stale = [w for w in wnodes if fl.cfg.exit in fl.cfg.reach(w, avoid=xnodes | {fl.cfg.raise_exit}) and w not in xnodes]
                if stale:
                    ck.violation(f"{prop}.G5", f, stale[0].stmt, f"{f.qual} changes `{d}`, which `{ci.name}.{X}` (new, derived state: set in "
                                 f"{', '.join(sorted({m.qual for m, _, _ in sts}))} from {sorted(deps)}) was computed from, and does not bring `{X}` up to date on that path: "
                                 f"{readers[0].qual} then reads a value that belongs to the earlier state", sink=f"{ci.name}.{X}:stale-after:{f.qual}:{d}")
                else:
                    ck.holds(f"{prop}.G5", f, t if isinstance(t, ast.AST) else f.qual, f"`{X}` is refreshed after `{d}` changes")
    return n


# ---------------------------------------------------------------------------------------------------------------------------------
# G6  truthiness discipline: a quantity for which 0 is a value is never tested by truthiness where "absent" (None) is meant
# ---------------------------------------------------------------------------------------------------------------------------------
_ARITH = (ast.Sub, ast.Mult, ast.Div, ast.FloorDiv, ast.Mod, ast.Pow)
_ORDER = (ast.Lt, ast.LtE, ast.Gt, ast.GtE)
_NUM_CALLS = {"abs", "float", "int", "round", "min", "max", "sum", "len", "floor", "ceil", "sqrt", "exp", "log", "maximum", "minimum", "clip"}
_BOOL_CALLS = {"isinstance", "bool", "any", "all", "isclose", "allclose", "empty", "is_feasible", "hasattr", "callable", "issubclass", "startswith", "endswith"}


def _is_num_const(e):
    return isinstance(e, ast.Constant) and isinstance(e.value, (int, float)) and not isinstance(e.value, bool) or \
        (isinstance(e, ast.UnaryOp) and isinstance(e.op, (ast.USub, ast.UAdd)) and _is_num_const(e.operand)) or \
        (isinstance(e, ast.Call) and isinstance(e.func, ast.Name) and e.func.id == "float" and len(e.args) == 1 and isinstance(e.args[0], ast.Constant))


def _attr_facts(repo):
    """package-wide facts about attribute names: {"num": stored a number / arithmetic or used as an arithmetic / ordering operand,
    "none": stored None (or from a parameter whose default is None), "bool": stored a truth value}"""
    cached = getattr(repo, "_attr_facts_cache", None)
    if cached is not None:
        return cached
    num, none, boo = set(), set(), set()
    for rel, tree in repo.trees.items():
        if "/tests/" in rel:
            continue
        for fn in [x for x in ast.walk(tree) if isinstance(x, (ast.FunctionDef, ast.AsyncFunctionDef))] + [tree]:
            none_params = set()
            if not isinstance(fn, ast.Module):
                a = fn.args
                pos = a.posonlyargs + a.args
                for p, d in list(zip(pos[len(pos) - len(a.defaults):], a.defaults)) + [(p, d) for p, d in zip(a.kwonlyargs, a.kw_defaults) if d is not None]:
                    if isinstance(d, ast.Constant) and d.value is None:
                        none_params.add(p.arg)
            for x in (walk_local(fn) if not isinstance(fn, ast.Module) else ast.walk(fn)):
                if isinstance(x, ast.Assign) and len(x.targets) >= 1:
                    for t in x.targets:
                        if isinstance(t, ast.Attribute):
                            v = x.value
                            if _is_num_const(v) or (isinstance(v, ast.BinOp) and isinstance(v.op, _ARITH)):
                                num.add(t.attr)
                            if isinstance(v, ast.Constant) and v.value is None:
                                none.add(t.attr)
                            if isinstance(v, ast.Name) and v.id in none_params:
                                none.add(t.attr)
                            if isinstance(v, ast.Constant) and isinstance(v.value, bool) or isinstance(v, ast.Compare) \
                                    or (isinstance(v, ast.UnaryOp) and isinstance(v.op, ast.Not)) \
                                    or (isinstance(v, ast.BoolOp) and all(isinstance(o, ast.Compare) or (isinstance(o, ast.UnaryOp) and isinstance(o.op, ast.Not)) for o in v.values)):
                                boo.add(t.attr)
                            num_params = {p.arg for p, d in (list(zip(pos[len(pos) - len(a.defaults):], a.defaults)) if not isinstance(fn, ast.Module) else []) if _is_num_const(d)}
                            if isinstance(v, ast.Name) and v.id in num_params:
                                num.add(t.attr)
                elif isinstance(x, ast.AugAssign) and isinstance(x.target, ast.Attribute) and isinstance(x.op, (ast.Add,) + _ARITH) and \
                        (_is_num_const(x.value) or isinstance(x.op, _ARITH)):
                    num.add(x.target.attr)
                elif isinstance(x, ast.BinOp) and isinstance(x.op, _ARITH):
                    for o in (x.left, x.right):
                        if isinstance(o, ast.Attribute):
                            num.add(o.attr)
                elif isinstance(x, ast.Compare) and any(isinstance(op, _ORDER) for op in x.ops):
                    for o in [x.left] + list(x.comparators):
                        if isinstance(o, ast.Attribute):
                            num.add(o.attr)
        for c in [x for x in ast.walk(tree) if isinstance(x, ast.ClassDef)]:
            for st in c.body:
                if isinstance(st, ast.Assign) and len(st.targets) == 1 and isinstance(st.targets[0], ast.Name):
                    if _is_num_const(st.value):
                        num.add(st.targets[0].id)
                    elif isinstance(st.value, ast.Constant) and st.value.value is None:
                        none.add(st.targets[0].id)
                    elif isinstance(st.value, ast.Constant) and isinstance(st.value.value, bool):
                        boo.add(st.targets[0].id)
    repo._attr_facts_cache = {"num": num, "none": none, "bool": boo}
    return repo._attr_facts_cache


def check_truthiness(ck, prop, f):
    """G6: `x or default`, `if not x`, `a if x else b` applied to a number that may also be None treats the value 0 as "not given".
    Reported only on positive evidence of both: the operand is a quantity (a numeric default, arithmetic / ordering use, a numeric
    attribute) and it can be None (a None default, `.get(key)`, an attribute some store sets to None) - or, for `x or d` in value
    position, the replacement `d` is a non-zero number.  Truth-valued operands (flags, comparisons) and everything without that evidence
    are not judged."""
    repo = ck.repo
    facts = _attr_facts(repo)
    fn = f.node
    a = fn.args
    pos = a.posonlyargs + a.args
    defaults = dict(list(zip([p.arg for p in pos[len(pos) - len(a.defaults):]], a.defaults)) + [(p.arg, d) for p, d in zip(a.kwonlyargs, a.kw_defaults) if d is not None])
    params = {x.arg for x in pos + a.kwonlyargs}
    parent = {}
    for p in walk_local(fn):
        for c in ast.iter_child_nodes(p):
            parent[c] = p
    for c in ast.iter_child_nodes(fn):
        parent[c] = fn
    stores = {}          # local name -> value expressions assigned to it
    for x in walk_local(fn):
        if isinstance(x, ast.Assign):
            for t in x.targets:
                if isinstance(t, ast.Name):
                    stores.setdefault(t.id, []).append(x.value)
        elif isinstance(x, ast.AugAssign) and isinstance(x.target, ast.Name):
            stores.setdefault(x.target.id, []).append(ast.BinOp(left=x.target, op=x.op, right=x.value))

    def key_of(e):
        return " ".join(ast.unparse(e).split())

    def num_use(e):
        k = key_of(e)
        for x in walk_local(fn):
            if isinstance(x, ast.BinOp) and (isinstance(x.op, _ARITH) or (isinstance(x.op, ast.Add) and (_is_num_const(x.left) or _is_num_const(x.right)))):
                if key_of(x.left) == k or key_of(x.right) == k:
                    return True
            elif isinstance(x, ast.Compare) and any(isinstance(op, _ORDER) for op in x.ops):
                if any(key_of(o) == k for o in [x.left] + list(x.comparators)):
                    return True
            elif isinstance(x, ast.UnaryOp) and isinstance(x.op, ast.USub) and key_of(x.operand) == k:
                return True
            elif isinstance(x, ast.Call) and (getattr(x.func, "id", None) or getattr(x.func, "attr", None)) in _NUM_CALLS and any(key_of(y) == k for y in x.args) \
                    and (getattr(x.func, "id", None) or getattr(x.func, "attr", None)) not in ("len", "sum", "min", "max"):
                return True
        return False

    def numeric(e, depth=2):
        if _is_num_const(e):
            return True
        if isinstance(e, ast.IfExp):
            return numeric(e.body, depth) or numeric(e.orelse, depth)
        if isinstance(e, ast.BinOp) and isinstance(e.op, _ARITH):
            return True
        if isinstance(e, ast.Name):
            d = defaults.get(e.id)
            if d is not None and _is_num_const(d):
                return True
            if num_use(e):
                return True
            if depth > 0 and any(numeric(v, depth - 1) for v in stores.get(e.id, []) if not (isinstance(v, ast.BoolOp) or isinstance(v, ast.IfExp))):
                return True
            if depth > 0 and any(isinstance(v, ast.BoolOp) and any(numeric(o, depth - 1) for o in v.values) for v in stores.get(e.id, [])):
                return False
            # stored into a numeric attribute: self._x = name
            for x in walk_local(fn):
                if isinstance(x, ast.Assign) and isinstance(x.value, ast.Name) and x.value.id == e.id and any(isinstance(t, ast.Attribute) and t.attr in facts["num"] for t in x.targets):
                    return True
            return False
        if isinstance(e, ast.Attribute):
            return (e.attr in facts["num"] and e.attr not in facts["bool"]) or num_use(e)
        if isinstance(e, ast.Call) and isinstance(e.func, ast.Attribute) and e.func.attr == "get" and e.args and isinstance(e.args[0], ast.Constant) \
                and isinstance(e.args[0].value, str):
            k = e.args[0].value
            return (k in facts["num"] or k.lstrip("_") in facts["num"] or "_" + k in facts["num"]) and k not in facts["bool"]
        if isinstance(e, ast.Subscript) and isinstance(e.slice, ast.Constant) and isinstance(e.slice.value, str):
            k = e.slice.value
            return (k in facts["num"] or "_" + k in facts["num"]) and k not in facts["bool"]
        return False

    def truth_valued(e, _depth=3):
        if isinstance(e, ast.Compare) or (isinstance(e, ast.UnaryOp) and isinstance(e.op, ast.Not)):
            return True
        if isinstance(e, ast.BoolOp):
            return _depth > 0 and all(truth_valued(o, _depth - 1) for o in e.values if not (isinstance(o, ast.Name) and False))
        if isinstance(e, ast.Constant) and isinstance(e.value, bool):
            return True
        if isinstance(e, ast.Call):
            nm = getattr(e.func, "id", None) or getattr(e.func, "attr", None)
            return nm in _BOOL_CALLS
        if isinstance(e, ast.Name):
            d = defaults.get(e.id)
            if d is not None and isinstance(d, ast.Constant) and isinstance(d.value, bool):
                return True
            vs = stores.get(e.id, [])
            return _depth > 0 and bool(vs) and all(truth_valued(v, _depth - 1) for v in vs)
        if isinstance(e, ast.Attribute):
            return e.attr in facts["bool"] and e.attr not in facts["num"]
        return False

    def noneable(e):
        if isinstance(e, ast.IfExp):
            return any((isinstance(b, ast.Constant) and b.value is None) or noneable(b) for b in (e.body, e.orelse))
        if isinstance(e, ast.Name):
            d = defaults.get(e.id)
            if d is not None and isinstance(d, ast.Constant) and d.value is None:
                return True
            return any((isinstance(v, ast.Constant) and v.value is None) or noneable(v) for v in stores.get(e.id, []) if not isinstance(v, ast.Name))
        if isinstance(e, ast.Attribute):
            return e.attr in facts["none"]
        if isinstance(e, ast.Call) and isinstance(e.func, ast.Attribute) and e.func.attr == "get" and (len(e.args) == 1 or (len(e.args) == 2 and isinstance(e.args[1], ast.Constant) and e.args[1].value is None)):
            return True
        return False

    def atoms(t):
        out, todo = [], [t]
        while todo:
            e = todo.pop()
            if isinstance(e, ast.BoolOp):
                todo += e.values
            elif isinstance(e, ast.UnaryOp) and isinstance(e.op, ast.Not):
                todo.append(e.operand)
            else:
                out.append(e)
        return out
    n = 0
    seen = set()
    for x in walk_local(fn):
        sites = []       # (atom, replacement or None, what)
        if isinstance(x, (ast.If, ast.While, ast.IfExp)):
            sites += [(at, None, "test") for at in atoms(x.test)]
        elif isinstance(x, ast.comprehension):
            sites += [(at, None, "filter") for c in x.ifs for at in atoms(c)]
        elif isinstance(x, ast.BoolOp):
            par = parent.get(x)
            in_test = isinstance(par, (ast.BoolOp,)) or (isinstance(par, ast.UnaryOp) and isinstance(par.op, ast.Not)) or \
                (isinstance(par, (ast.If, ast.While, ast.IfExp, ast.Assert)) and par.test is x) or (isinstance(par, ast.comprehension) and x in par.ifs)
            if not in_test and isinstance(x.op, ast.Or):
                for i, v in enumerate(x.values[:-1]):
                    sites += [(at, x.values[-1], "default") for at in atoms(v)]
        for at, repl, what in sites:
            if id(at) in seen or truth_valued(at):
                continue
            seen.add(id(at))
            if not isinstance(at, (ast.Name, ast.Attribute, ast.Call, ast.Subscript, ast.IfExp)):
                continue
            n += 1
            isnum = numeric(at) or (repl is not None and not truth_valued(repl) and numeric(repl))
            if not isnum:
                continue
            why = None
            if noneable(at):
                why = "it can be None (not given) and it can be 0 (a value): truthiness does not tell them apart"
            elif what == "default" and repl is not None and _is_num_const(repl) and not (isinstance(repl, ast.Constant) and repl.value == 0):
                why = f"the value 0 is silently replaced by {key_of(repl)}"
            if why:
                ck.violation(f"{prop}.G6", f, at, f"`{key_of(at)[:50]}` is a quantity tested by truthiness ({what}): {why}", sink=f"truthiness:{key_of(at)[:40]}", positive=True)
    return n


def run(ck, prop, analysed):
    """analysed: {qualified name: module} of the functions the property's rules built flow graphs for"""
    repo = ck.repo
    n = 0
    for q, mod in sorted(analysed.items()):
        for f in [x for x in repo.funcs.get(q, []) if x.module == mod][:1]:
            n += 1
            check_function(ck, prop, f)
    ck.count("functions under the generic well-formedness rules", n)
    # G6 looks at every method of the classes the rules touched as well (constructors, restore helpers: the collaborators a quantity
    # passes through before the anchored code reads it)
    scope6 = {}
    for q, mod in analysed.items():
        for f in [x for x in repo.funcs.get(q, []) if x.module == mod][:1]:
            scope6[(f.qual, f.module)] = f
            if f.cls is not None and "/tests/" not in f.cls.module:
                for c in repo.mro(f.cls):
                    for m_ in list(c.methods.values()) + list(c.setters.values()):
                        scope6[(m_.qual, m_.module)] = m_
    k6 = 0
    for key in sorted(scope6):
        k6 += check_truthiness(ck, prop, scope6[key])
    ck.count("truthiness tests on non-boolean operands under the quantity rule", k6)
    classes = {}
    for q, mod in analysed.items():
        for f in [x for x in repo.funcs.get(q, []) if x.module == mod][:1]:
            if f.cls is not None and "/tests/" not in f.cls.module:
                classes[(f.cls.name, f.cls.module)] = f.cls
    m = 0
    k4 = k5 = 0
    for key in sorted(classes):
        m += check_class(ck, prop, classes[key])
        k4 += check_distinct_state(ck, prop, classes[key])
        k5 += check_derived_state(ck, prop, classes[key])
    ck.count("attribute stores of fresh allocations under the distinct-state rule", k4)
    ck.count("writers of the sources of new derived attributes under the coherence rule", k5)
    ck.count("attribute reads under the definite-initialisation rule", m)

"""Index-domain typing: containers and index expressions are typed with a small set of domains
(STATION_POS, STATION_ID, SESSION_ID, CONSTRAINT_POS, CONSTRAINT_ID, LEVEL, TIME, QUEUE_POS); the rule is that the
domains match at every subscript, `.get`, `in` test and zip pairing.  Index expressions get their domain from
provenance (reaching definitions through Flow.expand)."""
import ast

from .core import dotted, call_name, src, walk_local, last_name
from .rules import flow_of, canon

SPOS, SID, SESS, CPOS, CID, LEVEL, TIME, QPOS, CONST = ("STATION_POS", "STATION_ID", "SESSION_ID", "CONSTRAINT_POS", "CONSTRAINT_ID",
                                                         "LEVEL", "TIME", "QUEUE_POS", "CONST")

# container terminal name -> tuple of axis domains (axis 0, axis 1, ...) ; dict containers have one axis (the key)
CONTAINERS = {
    "_voltages": (SPOS,), "_phase_angles": (SPOS,), "max_pilot_signals": (SPOS,), "min_pilot_signals": (SPOS,), "allowable_rates": (SPOS, LEVEL),
    "is_continuous": (SPOS,), "voltages": (SPOS,), "phases": (SPOS,), "max_pilot": (SPOS,), "min_pilot": (SPOS,), "allowable_pilots": (SPOS, LEVEL),
    "rate_idx": (SPOS,), "pilot_signals": (SPOS, TIME), "charging_rates": (SPOS, TIME), "array_schedule": (SPOS,), "_new_schedule": (SPOS,),
    "station_ids": (SPOS,), "ids": (SPOS,),
    "_EVSEs": (SID,), "_station_ids_dict": (SID,),
    "upper_bounds": (SESS,), "prev_pilot": (SESS,), "prev_rate": (SESS,), "ev_history": (SESS,), "waiting_queue": (SESS,),
    "last_applied_pilot_signals": (SESS,), "last_actual_charging_rate": (SESS,),
    "constraint_matrix": (CPOS, SPOS), "magnitudes": (CPOS,), "constraint_limits": (CPOS,), "constraint_index": (CPOS,), "constraint_ids": (CPOS,),
    "tol": (CPOS,),
    "max_rates": (TIME,), "min_rates": (TIME,), "schedule_history": (TIME,),
}
# (function terminal name, container name) -> axis domains (name collisions are real: see DESIGN 3.4b)
SCOPED = {
    ("discrete_max_feasible_rate", "allowable_pilots"): (LEVEL,),
    ("sorting_algorithm", "schedule"): (SPOS,), ("round_robin", "schedule"): (SPOS,), ("max_feasible_rate", "schedule"): (SPOS,),
    ("bisection", "schedule"): (SPOS,), ("discrete_max_feasible_rate", "schedule"): (SPOS,),
    ("max_feasible_rate", "new_schedule"): (SPOS,), ("discrete_max_feasible_rate", "new_schedule"): (SPOS,),
    ("apply_minimum_charging_rate", "rates"): (SPOS,),
    ("infrastructure_constraints_feasible", "rates"): (SPOS, TIME),
    ("_update_schedules", "new_schedule"): (SID,), ("is_feasible", "load_currents"): (SID,),
    ("format_array_schedule", "schedule"): (SID,), ("schedule", "schedule"): (SID,),
    ("update_pilots", "pilots"): (SPOS, TIME),
    ("sorting_algorithm", "allowable"): (LEVEL,),
    ("apply_upper_bound_estimate", "new_sessions"): (QPOS,), ("apply_minimum_charging_rate", "session_queue"): (QPOS,),
}
# element domains of containers (what iterating / indexing them yields)
ELEM = {"station_ids": SID, "ids": SID, "constraint_index": CID, "constraint_ids": CID, "_station_ids_dict": SPOS, "rate_idx": LEVEL}
# parameters with a declared domain: (function terminal name, parameter) -> domain
PARAMS = {("max_feasible_rate", "station_index"): SPOS, ("discrete_max_feasible_rate", "station_index"): SPOS, ("bisection", "_index"): SPOS,
          ("update_pilots", "i"): TIME, ("get_station_index", "station_id"): SID, ("index_of_evse", "station_id"): SID,
          ("max_pilot_signal", "station_id"): SID, ("min_pilot_signal", "station_id"): SID, ("evse_voltage", "station_id"): SID,
          ("evse_phase", "station_id"): SID, ("allowable_pilot_signals", "station_id"): SID, ("_convert_to_amp_periods", "station_id"): SID,
          ("unplug", "station_id"): SID, ("unplug", "session_id"): SESS, ("get_ev", "station_id"): SID, ("remove_constraint", "name"): CID,
          ("update_constraint", "name"): CID, ("add_constraint", "name"): CID}
POS_CALLS = {"get_station_index": (SPOS, SID), "index_of_evse": (SPOS, SID)}
SESSION_LISTS = {"active_sessions", "sessions", "queue", "session_queue", "new_sessions", "evs", "modified_sessions", "_active_evs", "active_evs"}


class IndexTyper:
    def __init__(self, repo, finfo):
        self.repo, self.f = repo, finfo
        self.fl = flow_of(finfo)
        self.fname = finfo.name
        self.results = []      # (node, container, axis, need, got, ast, verdict)
        self._env = {}

    # -- domain of an (expanded) index expression
    def dom(self, e):
        if isinstance(e, ast.Constant):
            return CONST if isinstance(e.value, int) and not isinstance(e.value, bool) else None
        if isinstance(e, ast.UnaryOp) and isinstance(e.op, ast.USub):
            return self.dom(e.operand)
        if isinstance(e, ast.Call):
            nm = call_name(e)
            if nm == "__phi__":
                ds = {self.dom(a) for a in e.args}
                if len(ds) > 1:
                    ds.discard(CONST)
                if len(ds) > 1:
                    ds.discard(None)          # loop-carried definition of the same variable
                return ds.pop() if len(ds) == 1 else ("MIXED:" + "/".join(sorted(str(d) for d in ds)))
            if nm in POS_CALLS:
                return POS_CALLS[nm][0]
            if nm == "index" and isinstance(e.func, ast.Attribute):
                base = last_name(e.func.value)
                if base in ("station_ids", "ids"):
                    return SPOS
                if base in ("constraint_index", "constraint_ids"):
                    return CPOS
            if nm == "__idx__" and e.args:
                return self.pos_of(e.args[0])
            if nm in ("__elem__", "__val__") and e.args:
                return self.elem_of(e.args[0])
            if nm == "__key__" and e.args:
                return self.key_of(e.args[0])
            if nm == "__item__" and len(e.args) == 2:
                return None
            if nm == "__loop__":
                return None
            if nm in ("int", "round") and e.args:
                return self.dom(e.args[0])
            if nm == "len":
                return None
            return None
        if isinstance(e, ast.Attribute):
            if e.attr == "station_id":
                return SID
            if e.attr == "session_id":
                return SESS
            if e.attr in ("_iteration", "iteration", "current_time", "arrival", "departure", "estimated_departure", "timestamp"):
                return TIME
            return None
        if isinstance(e, ast.Name):
            d = PARAMS.get((self.fname, e.id))
            if d:
                return d
            if e.id in ("station_id", "evse_id") and e.id in self.f.params:
                return SID
            if e.id == "session_id" and e.id in self.f.params:
                return SESS
            return None
        if isinstance(e, ast.BinOp) and isinstance(e.op, (ast.Add, ast.Sub)):
            l, r = self.dom(e.left), self.dom(e.right)
            if r in (CONST, None) and l not in (CONST, None) and isinstance(e.right, ast.Constant):
                return l
            if l == CONST and r not in (CONST, None) and isinstance(e.op, ast.Add):
                return r
            if l == CONST and r == CONST:
                return CONST
            # len(levels) - 1 -> LEVEL
            if isinstance(e.left, ast.Call) and call_name(e.left) == "len" and isinstance(e.right, ast.Constant) and e.left.args:
                ax = self.axes_of(e.left.args[0])
                return ax[0] if ax else None
            return None
        if isinstance(e, ast.Subscript):
            # value stored in a container of indices: rate_idx[i] is a LEVEL, _station_ids_dict[id] a STATION_POS, station_ids[pos] a STATION_ID
            nm = last_name(self._base(e))
            if nm in ELEM:
                return ELEM[nm]
            return None
        return None

    def _base(self, e):
        while isinstance(e, ast.Subscript):
            e = e.value
        if isinstance(e, ast.Call) and call_name(e) in ("copy", "array", "asarray", "list", "deque") and (e.args or isinstance(e.func, ast.Attribute)):
            return self._base(e.args[0] if e.args else e.func.value)
        return e

    def pos_of(self, cont):
        """domain of a position in `cont` (enumerate counter / range(len()))"""
        ax = self.axes_of(cont)
        if ax:
            # position in the EVSE mapping (insertion order) is the station position: station_ids is list(self._EVSEs.keys())
            return SPOS if (ax[0] == SID and last_name(self._base(cont)) == "_EVSEs") else ax[0]
        if isinstance(cont, ast.Call) and call_name(cont) in ("values", "keys", "items") and isinstance(cont.func, ast.Attribute) and not cont.args \
                and last_name(cont.func.value) == "_EVSEs":
            return SPOS
        nm = last_name(self._base(cont))
        if nm in SESSION_LISTS or (isinstance(cont, ast.Call) and call_name(cont) in ("sorted", "_sort_fn", "deque")):
            return QPOS
        return "POS_OF(" + canon(cont)[:40] + ")"

    def elem_of(self, cont):
        b = self._base(cont)
        nm = last_name(b)
        if nm in ELEM and not isinstance(cont, ast.Subscript):
            return ELEM[nm]
        if isinstance(b, ast.Call) and call_name(b) in ("keys",) and isinstance(b.func, ast.Attribute):
            return self.key_of(b.func.value)
        # iterating a dict yields its keys
        ax = self.axes_of(cont)
        if ax and ax[0] in (SID, SESS, CID):
            return ax[0]
        return None

    def key_of(self, cont):
        ax = self.axes_of(cont)
        return ax[0] if ax else None

    def axes_of(self, cont, depth=0):
        """axis domains of a container expression (after stripping copies), None if not a typed container"""
        b = cont
        sub = 0
        while isinstance(b, ast.Subscript):
            sl = b.slice
            n_idx = len(sl.elts) if isinstance(sl, ast.Tuple) else 1
            n_keep = sum(1 for x in (sl.elts if isinstance(sl, ast.Tuple) else [sl]) if isinstance(x, ast.Slice))
            # boolean-mask / slice indexing keeps the axis
            if not isinstance(sl, ast.Tuple) and (isinstance(sl, (ast.Slice, ast.Compare)) or (isinstance(sl, ast.Subscript))):
                n_idx, n_keep = 1, 1
            sub += n_idx - n_keep
            b = b.value
        if isinstance(b, ast.Call) and call_name(b) in ("copy", "array", "asarray", "list", "tuple", "deepcopy") and depth < 3:
            inner = b.args[0] if b.args else (b.func.value if isinstance(b.func, ast.Attribute) else None)
            if inner is not None:
                ax = self.axes_of(inner, depth + 1)
                return ax[sub:] if ax else None
        if isinstance(b, ast.Call) and call_name(b) == "__phi__":
            axs = {self.axes_of(a, depth + 1) for a in b.args}
            axs.discard(None)
            if len(axs) == 1:
                ax = axs.pop()
                return ax[sub:] if ax else None
            return None
        if isinstance(b, ast.Call) and call_name(b) in ("get_maximum_rates",):
            return (SESS,)[sub:]
        nm = last_name(b)
        if nm is None:
            return None
        ax = SCOPED.get((self.fname, nm)) or (SCOPED.get((self.f.parent.name, nm)) if self.f.parent is not None else None) or CONTAINERS.get(nm)
        if ax is None:
            return None
        return ax[sub:] if sub < len(ax) else None

    def comp_env(self, root, n):
        """{comprehension variable: expanded value} for the comprehensions inside `root` (evaluated at node n)"""
        env = {}
        for c in [root] + list(walk_local(root)):
            if isinstance(c, (ast.ListComp, ast.SetComp, ast.DictComp, ast.GeneratorExp)):
                for g in c.generators:
                    def bind(t, path):
                        if isinstance(t, ast.Name):
                            env[t.id] = self.fl._iter_value(g.iter, path, n, 8, ())
                        elif isinstance(t, (ast.Tuple, ast.List)):
                            for i, x in enumerate(t.elts):
                                bind(x, path + (i,))
                    bind(g.target, ())
        return env

    def ex(self, e, n):
        """expand e at n, with comprehension variables of the current statement bound; local names that are themselves
        typed containers are kept (as __local__.<name>) so that the tables still apply to them"""
        from .rules import _subst
        import copy
        fname, parent = self.fname, (self.f.parent.name if self.f.parent is not None else None)

        class Keep(ast.NodeTransformer):
            def visit_Name(self, nd):
                if isinstance(nd.ctx, ast.Load) and (nd.id in ELEM or (fname, nd.id) in SCOPED or (parent, nd.id) in SCOPED
                                                     or (nd.id in CONTAINERS and nd.id not in ("ids",))):
                    return ast.Attribute(value=ast.Name(id="__local__", ctx=ast.Load()), attr=nd.id, ctx=ast.Load())
                return nd
        x = self.fl.expand(Keep().visit(copy.deepcopy(e)), n)
        if self._env:
            x = _subst(copy.deepcopy(x), self._env)
        return x

    def cont_axes(self, e, n):
        """axes of a container expression: by its own (unexpanded) name first, then through its definition"""
        return self.axes_of(e) or self.axes_of(self.ex(e, n))

    # -- the rule
    def check(self):
        fl = self.fl
        for n in fl.cfg.nodes:
            exprs = list(fl.cfg.node_exprs(n))
            if n.kind == "stmt" and isinstance(n.stmt, (ast.Assign, ast.AugAssign)):
                exprs = [n.stmt]
            for e in exprs:
                self._env = self.comp_env(e, n)
                for c in [e] + list(walk_local(e)):
                    if isinstance(c, ast.Subscript):
                        self._subscript(c, n)
                    elif isinstance(c, ast.Call) and call_name(c) in ("get", "pop", "setdefault") and isinstance(c.func, ast.Attribute) and c.args:
                        ax = self.cont_axes(c.func.value, n)
                        if ax and ax[0] in (SID, SESS, CID):
                            self._record(n, c.func.value, 0, ax[0], self.dom(self.ex(c.args[0], n)), c)
                    elif isinstance(c, ast.Compare) and len(c.ops) == 1 and isinstance(c.ops[0], (ast.In, ast.NotIn)):
                        ax = self.cont_axes(c.comparators[0], n)
                        if ax and ax[0] in (SID, SESS, CID):
                            self._record(n, c.comparators[0], 0, ax[0], self.dom(self.ex(c.left, n)), c)
                        else:
                            # `x in station_ids` : membership of an element
                            el = self.elem_of(c.comparators[0]) or self.elem_of(self.ex(c.comparators[0], n))
                            if el in (SID, CID):
                                self._record(n, c.comparators[0], "elem", el, self.dom(self.ex(c.left, n)), c)
                    elif isinstance(c, ast.Call) and call_name(c) == "zip" and len(c.args) >= 2:
                        doms = []
                        for a in c.args:
                            d0 = self.pos_of(a)
                            doms.append(d0 if d0 and not d0.startswith('POS_OF') else self.pos_of(self.ex(a, n)))
                        known = [d for d in doms if d and not d.startswith("POS_OF")]
                        if len(known) >= 2:
                            ok = len(set(known)) == 1
                            self.results.append((n, "zip", 0, known[0], "/".join(known), c, "ok" if ok else "mismatch"))
                    elif isinstance(c, ast.Call) and call_name(c) in POS_CALLS and c.args:
                        self._record(n, c.func, "arg", POS_CALLS[call_name(c)][1], self.dom(self.ex(c.args[0], n)), c)
        return self.results

    # -- order provenance of positional containers built locally --------------------------------------------------------------
    REORDER = ("sorted", "reversed", "_sort_fn", "shuffle", "permutation", "sample", "argsort")
    KEEP_ORDER_CALLS = ("list", "tuple", "deque", "array", "asarray", "copy", "deepcopy", "expand_max_min_rates", "enumerate", "iter")
    ELEMENTWISE = ("minimum", "maximum", "abs", "clip", "where", "floor", "ceil", "round")

    def order_of(self, e, depth=0):
        """(base, reorderings) of the sequence / array expression e: the sequence whose element order e's positions follow and the
        tuple of re-ordering calls applied on the way; None when unknown.  `[f(x) for x in X]`, `np.minimum(A[L], c)`, `list(X)`,
        `A[L]` (fancy index by a list aligned with L) keep the order of X / L; sorted(X) / reversed(X) / the sort function start a new one."""
        if depth > 12 or e is None:
            return None
        if isinstance(e, (ast.ListComp, ast.GeneratorExp)) and len(e.generators) == 1 and not e.generators[0].ifs:
            return self.order_of(e.generators[0].iter, depth + 1)
        if isinstance(e, ast.Call):
            nm = call_name(e)
            if nm in self.REORDER and e.args:
                inner = self.order_of(e.args[0], depth + 1)
                if inner is None:
                    return None
                return (inner[0], inner[1] + (canon(e)[:160],))
            if nm in self.KEEP_ORDER_CALLS and (e.args or isinstance(e.func, ast.Attribute)):
                return self.order_of(e.args[0] if e.args else e.func.value, depth + 1)
            if nm in self.ELEMENTWISE and e.args:
                for a in e.args:
                    o = self.order_of(a, depth + 1)
                    if o is not None:
                        return o
                return None
            if nm == "__phi__":
                os_ = {self.order_of(a, depth + 1) for a in e.args}
                return os_.pop() if len(os_) == 1 else None
            return None
        if isinstance(e, ast.BinOp):
            for a in (e.left, e.right):
                o = self.order_of(a, depth + 1)
                if o is not None:
                    return o
            return None
        if isinstance(e, ast.Subscript):
            sl = e.slice
            if isinstance(sl, (ast.List, ast.ListComp, ast.Name, ast.Attribute)) or (isinstance(sl, ast.Call) and call_name(sl) in self.KEEP_ORDER_CALLS + self.REORDER):
                if isinstance(sl, (ast.Name, ast.Attribute)):
                    return None            # scalar index or unknown index array
                return self.order_of(sl, depth + 1)
            return None
        d = dotted(e)
        if d is not None and last_name(e) in SESSION_LISTS:
            return (d, ())
        return None

    def _order_check(self, c, n):
        """C[i] where C is a locally built positional container and i counts positions of a sequence S: both must follow the same
        order of the same underlying sequence (a vector computed in the order of the session list indexed by the position in the
        *sorted* queue pairs every session with another session's value whenever the two orders differ)"""
        if isinstance(c.slice, (ast.Tuple, ast.Slice)):
            return
        ixx = self.ex(c.slice, n)
        if not (isinstance(ixx, ast.Call) and call_name(ixx) == "__idx__" and ixx.args):
            return
        oc = self.order_of(self.ex(c.value, n))
        oi = self.order_of(ixx.args[0])
        if oc is None or oi is None or oc[0] != oi[0]:
            return
        if oc == oi:
            self.results.append((n, src(c.value, 40), 0, "POS(" + oi[0] + ")", "POS(" + oi[0] + ")", c, "ok"))
        else:
            def show(o):
                return o[1][-1] if o[1] else o[0]
            self.results.append((n, src(c.value, 40), 0, f"position in `{show(oc)[:60]}`", f"position in `{show(oi)[:60]}`", c, "mismatch"))

    def _subscript(self, c, n):
        fl = self.fl
        ax = self.cont_axes(c.value, n)
        if not ax:
            if isinstance(c.ctx, ast.Load):
                self._order_check(c, n)
            return
        idx = list(c.slice.elts) if isinstance(c.slice, ast.Tuple) else [c.slice]
        for k, ix in enumerate(idx):
            if k >= len(ax):
                break
            if isinstance(ix, ast.Slice):
                continue
            if isinstance(ix, (ast.Compare, ast.List, ast.ListComp)):
                continue          # boolean mask / fancy index list
            ixx = self.ex(ix, n)
            got = self.dom(ixx)
            if isinstance(ixx, ast.Call) and call_name(ixx) == "__idx__" and ixx.args and k == 0 and \
                    canon(ixx.args[0]) in (canon(self.ex(c.value, n)), canon(self.fl.expand(c.value, n))):
                got = ax[k]            # a position within the very container that is indexed
            self._record(n, c.value, k, ax[k], got, c)

    def _record(self, n, cont, axis, need, got, node):
        if got is None or (isinstance(got, str) and got.startswith("POS_OF")) and False:
            verdict = "untyped"
        elif got == CONST:
            verdict = "ok" if need in (TIME, LEVEL, CPOS, QPOS) else "const"
        elif got == need:
            verdict = "ok"
        else:
            verdict = "mismatch"
        self.results.append((n, src(cont, 40), axis, need, got, node, verdict))


def check_function(ck, rid, finfo, strict_untyped=False):
    """run the typer over one function; mismatches are violations; returns (typed, untyped) counts."""
    t = IndexTyper(ck.repo, finfo)
    typed = untyped = 0
    for n, cont, axis, need, got, node, verdict in t.check():
        if verdict == "ok":
            typed += 1
            ck.holds(rid, finfo, node, f"{cont}[axis {axis}] indexed by a {need}")
        elif verdict == "mismatch":
            typed += 1
            ck.violation(rid, finfo, node, f"`{cont}` is indexed/keyed by {need} on axis {axis} but the index `{src(node.slice, 40) if isinstance(node, ast.Subscript) else src(node, 50)}` "
                         f"is a {got}: values of the wrong station/session/constraint are read or written whenever the two orders differ",
                         sink=f"{cont}:{axis}:{need}<-{got}")
        elif verdict == "const":
            untyped += 1
            ck.note(f"{finfo.qual}: constant index into {cont} (axis {axis}, {need})")
        else:
            untyped += 1
    ck.count("index sites typed", typed)
    ck.count("index sites untyped", untyped)
    return typed, untyped

"""Partial evaluation of table-driven dispatch (normalisation, runs before helper inlining).

A refactoring that replaces an if/elif chain by a dispatch table -

    for kind, handler in self._HANDLERS:          name = self._HANDLERS.get(event.event_type)
        if event.event_type == kind:              if name is not None:
            handler(self, event); break               getattr(self, name)(event)

- keeps the behaviour and hides the branches from rules that read branch edges.  When the table is a literal (a class-level,
module-level or local constant tuple / list / dict) the dispatch is a finite case distinction over the table's keys: this pass
specialises the dispatching statements for each key (unrolling the loop over the constant table, folding comparisons with the
subject, `is None` tests on looked-up values, `getattr(obj, "literal")` and calls through looked-up function references) and puts
the specialised bodies back as the if/elif chain the table stands for.  Loops over constant tables without a dispatch subject
(`for name in _FIELDS: setattr(obj, name, d[name])`) are simply unrolled.

Nothing is executed: this is constant propagation over literals found in the source.  Whatever is outside the recognised subset
is left untouched (the rules then see the original code)."""
import ast
import copy

MAX_TABLE = 16
BUILTIN_CALLABLES = {"int", "float", "str", "bool", "len", "abs", "min", "max", "round", "sorted", "list", "tuple", "sum"}


class GiveUp(Exception):
    pass


class FRef:
    """a bare name in a table that refers to a function of the enclosing class / module"""
    def __init__(self, name):
        self.name = name

    def __repr__(self):
        return f"FRef({self.name})"


class Opaque:
    """an expression kept symbolic (bound method, lambda)"""
    def __init__(self, node):
        self.node = node


_UNKNOWN = object()


def _lit_ast(v):
    """literal AST of a table value made of constants (tuples, dicts); None if it holds function references"""
    if v is None or isinstance(v, (str, int, float, bool)):
        return ast.Constant(value=v)
    if isinstance(v, tuple):
        el = [_lit_ast(x) for x in v]
        return None if any(e is None for e in el) else ast.Tuple(elts=el, ctx=ast.Load())
    if isinstance(v, dict):
        ks, vs = [_lit_ast(k) for k in v], [_lit_ast(x) for x in v.values()]
        return None if any(e is None for e in ks + vs) else ast.Dict(keys=ks, values=vs)
    return None


def _u(e):
    return " ".join(ast.unparse(e).split())


def _walk_local(n):
    todo = list(ast.iter_child_nodes(n))
    while todo:
        x = todo.pop()
        yield x
        if isinstance(x, (ast.FunctionDef, ast.AsyncFunctionDef, ast.ClassDef, ast.Lambda)):
            continue
        todo.extend(ast.iter_child_nodes(x))


class Specialiser:
    def __init__(self, repo, fi):
        self.repo, self.fi = repo, fi
        self.changed = False
        self.unrolled = set()          # loop variables of unrolled table loops
        self._call_positions = set()
        self.aliases = set()           # local names that hold a copy of the subject of the current case assumption

    def _subj(self, e, assume):
        """e denotes the subject of the case assumption (the expression itself or a local that was assigned from it and not since)"""
        return assume is not None and (_u(e) == assume[0] or (isinstance(e, ast.Name) and e.id in self.aliases))

    # -- literals -----------------------------------------------------------
    def lit(self, e):
        """python value of a table literal (constants, tuples, lists, dicts; names of functions -> FRef; other leaves -> Opaque)"""
        if isinstance(e, ast.Constant):
            return e.value
        if isinstance(e, (ast.Tuple, ast.List)):
            return tuple(self.lit(x) for x in e.elts)
        if isinstance(e, ast.Dict):
            if any(k is None for k in e.keys):
                raise GiveUp()
            out = {}
            for k, v in zip(e.keys, e.values):
                kk = self.lit(k)
                if isinstance(kk, (FRef, Opaque, dict)):
                    raise GiveUp()
                out[kk] = self.lit(v)
            return out
        if isinstance(e, ast.Name):
            if self._is_function_name(e.id) or e.id in BUILTIN_CALLABLES:
                return FRef(e.id)
            # a parameter / single-assignment local captured in a table literal: its value at the point of use is its value at the
            # point the table was built (it is never re-bound in this function), so the name itself can stand for the table entry
            stores = sum(1 for n in _walk_local(self.fi.node) if isinstance(n, ast.Name) and n.id == e.id and isinstance(n.ctx, (ast.Store, ast.Del)))
            if stores == 0 and e.id in {a.arg for a in self.fi.node.args.posonlyargs + self.fi.node.args.args + self.fi.node.args.kwonlyargs}:
                return Opaque(e)
            raise GiveUp()
        if isinstance(e, (ast.Attribute, ast.Lambda)):
            return Opaque(e)
        if isinstance(e, ast.UnaryOp) and isinstance(e.op, ast.USub) and isinstance(e.operand, ast.Constant):
            return -e.operand.value
        raise GiveUp()

    def _is_function_name(self, name):
        fi = self.fi
        if fi.cls is not None:
            for c in self.repo.mro(fi.cls):
                if name in c.methods:
                    return True
        return any(x.module == fi.module and x.cls is None for x in self.repo.funcs.get(name, []))

    def table_of(self, e, env):
        """constant table denoted by expression e (or _UNKNOWN)"""
        if isinstance(e, ast.Name):
            if e.id in env:
                return env[e.id]
            consts = self.repo.module_consts(self.fi.module)
            if e.id in consts and not self._assigned_locally(e.id):
                try:
                    return self.lit(consts[e.id])
                except GiveUp:
                    return _UNKNOWN
            return _UNKNOWN
        if isinstance(e, ast.Attribute) and isinstance(e.value, ast.Name) and self.fi.cls is not None and \
                e.value.id in ("self", "cls", self.fi.cls.name):
            for c in self.repo.mro(self.fi.cls):
                if e.attr in c.assigns:
                    if self._instance_writes(e.attr):
                        return _UNKNOWN
                    try:
                        return self.lit(c.assigns[e.attr])
                    except GiveUp:
                        return _UNKNOWN
            return _UNKNOWN
        if isinstance(e, ast.Call) and isinstance(e.func, ast.Attribute) and e.func.attr == "items" and not e.args:
            t = self.table_of(e.func.value, env)
            if isinstance(t, dict):
                return tuple((k, v) for k, v in t.items())
            return _UNKNOWN
        if isinstance(e, (ast.Tuple, ast.List, ast.Dict)):
            try:
                return self.lit(e)
            except GiveUp:
                return _UNKNOWN
        return _UNKNOWN

    def _assigned_locally(self, name):
        return any(isinstance(n, ast.Name) and n.id == name and isinstance(n.ctx, ast.Store) for n in _walk_local(self.fi.node))

    def _instance_writes(self, attr):
        """is self.<attr> assigned anywhere in the class hierarchy (then the class-level literal is only a default)"""
        for c in self.repo.mro(self.fi.cls):
            for m in list(c.methods.values()) + list(c.setters.values()):
                for n in _walk_local(m.node):
                    if isinstance(n, ast.Attribute) and n.attr == attr and isinstance(n.ctx, (ast.Store, ast.Del)):
                        return True
        return False

    # -- expressions under an environment ----------------------------------
    def value(self, e, env, assume):
        """known python value of e or _UNKNOWN"""
        if isinstance(e, ast.Constant):
            return e.value
        if assume is not None and self._subj(e, assume) and assume[1] == "eq":
            return assume[2]
        if isinstance(e, ast.Name):
            if e.id in env:
                return env[e.id]
            return self.table_of(e, env)
        if isinstance(e, (ast.Tuple, ast.List)) and e.elts and all(isinstance(x, ast.Constant) for x in e.elts):
            return tuple(x.value for x in e.elts)
        if isinstance(e, (ast.Tuple, ast.List)) and e.elts and all(isinstance(x, (ast.Tuple, ast.List)) and x.elts and isinstance(x.elts[0], ast.Constant) for x in e.elts):
            # a table of (literal key, anything) rows written in place:  (("where", cond), ("sort", sort))
            try:
                return self.lit(e)
            except GiveUp:
                return _UNKNOWN
        t = self.table_of(e, env) if isinstance(e, (ast.Attribute,)) else _UNKNOWN
        if t is not _UNKNOWN:
            return t
        if isinstance(e, ast.Subscript):
            b = self.value(e.value, env, assume) if not isinstance(e.value, ast.Attribute) else self.table_of(e.value, env)
            k = self.value(e.slice, env, assume)
            if b is not _UNKNOWN and k is not _UNKNOWN:
                try:
                    return b[k]
                except Exception:
                    return _UNKNOWN
            return _UNKNOWN
        if isinstance(e, ast.Call) and isinstance(e.func, ast.Attribute) and e.func.attr == "get" and 1 <= len(e.args) <= 2 and not e.keywords:
            b = self.table_of(e.func.value, env)
            if isinstance(b, dict):
                k = self.value(e.args[0], env, assume)
                if k is _UNKNOWN and assume is not None and self._subj(e.args[0], assume) and assume[1] == "other" and set(b) <= set(assume[2]):
                    return self.value(e.args[1], env, assume) if len(e.args) == 2 else None
                if k is not _UNKNOWN:
                    try:
                        if k in b:
                            return b[k]
                    except TypeError:
                        return _UNKNOWN
                    return self.value(e.args[1], env, assume) if len(e.args) == 2 else None
            return _UNKNOWN
        if isinstance(e, ast.Call) and isinstance(e.func, ast.Name) and e.func.id == "bool" and len(e.args) == 1:
            if assume is not None and _u(e) == assume[0] and assume[1] == "eq":
                return assume[2]
            v = self.value(e.args[0], env, assume)
            return bool(v) if v is not _UNKNOWN and not isinstance(v, (FRef, Opaque)) else _UNKNOWN
        return _UNKNOWN

    def truth(self, test, env, assume):
        """True / False / None of a branch test"""
        if isinstance(test, ast.UnaryOp) and isinstance(test.op, ast.Not):
            t = self.truth(test.operand, env, assume)
            return None if t is None else (not t)
        if isinstance(test, ast.BoolOp):
            vals = [self.truth(v, env, assume) for v in test.values]
            if isinstance(test.op, ast.And):
                if any(v is False for v in vals):
                    return False
                return True if all(v is True for v in vals) else None
            if any(v is True for v in vals):
                return True
            return False if all(v is False for v in vals) else None
        if isinstance(test, ast.Compare) and len(test.ops) == 1:
            op, l, r = test.ops[0], test.left, test.comparators[0]
            lv, rv = self.value(l, env, assume), self.value(r, env, assume)
            if isinstance(op, (ast.Is, ast.IsNot)) and isinstance(r, ast.Constant) and r.value is None and lv is not _UNKNOWN and not isinstance(lv, Opaque):
                res = lv is None
                return res if isinstance(op, ast.Is) else (not res)
            if isinstance(op, (ast.In, ast.NotIn)):
                res = None
                cont = rv
                if cont is _UNKNOWN and isinstance(r, (ast.Tuple, ast.List, ast.Set)) and all(isinstance(x, ast.Constant) for x in r.elts):
                    cont = tuple(x.value for x in r.elts)
                if isinstance(cont, (tuple, list, set, frozenset, dict)) and not any(isinstance(x, (FRef, Opaque)) for x in cont):
                    if lv is not _UNKNOWN and not isinstance(lv, (FRef, Opaque)):
                        try:
                            res = lv in cont
                        except TypeError:
                            res = None
                    elif assume is not None and assume[1] == "other" and self._subj(l, assume):
                        try:
                            if all(x in assume[2] for x in cont):
                                res = False          # the subject is none of the listed keys
                        except TypeError:
                            res = None
                if res is not None:
                    return res if isinstance(op, ast.In) else (not res)
                return None
            if isinstance(op, (ast.Eq, ast.NotEq)):
                res = None
                if lv is not _UNKNOWN and rv is not _UNKNOWN and not isinstance(lv, (FRef, Opaque)) and not isinstance(rv, (FRef, Opaque)):
                    res = (lv == rv)
                elif assume is not None and assume[1] == "other":
                    for a, bv in ((l, rv), (r, lv)):
                        if self._subj(a, assume) and bv is not _UNKNOWN:
                            try:
                                if bv in assume[2]:
                                    res = False
                            except TypeError:
                                pass
                if res is not None:
                    return res if isinstance(op, ast.Eq) else (not res)
            return None
        v = self.value(test, env, assume)
        if v is not _UNKNOWN and not isinstance(v, (FRef, Opaque)):
            return bool(v)
        if isinstance(v, (FRef, Opaque)):
            return True
        return None

    def residual(self, e, env, assume):
        """copy of e in which calls through looked-up references and getattr with a literal name are made explicit"""
        sp = self

        class T(ast.NodeTransformer):
            def visit_Lambda(self, n):
                return n

            def visit_Name(self, n):
                # a loop variable of an unrolled table loop no longer exists in the residual program: its value is substituted
                if isinstance(n.ctx, ast.Load) and n.id in sp.unrolled and n.id in env:
                    v = env[n.id]
                    if v is None or isinstance(v, (str, int, float, bool)):
                        return ast.copy_location(ast.Constant(value=v), n)
                    if isinstance(v, (tuple, dict)):
                        lit_ = _lit_ast(v)
                        if lit_ is None:
                            raise GiveUp()
                        return ast.copy_location(lit_, n)
                    if isinstance(v, Opaque):
                        return copy.deepcopy(v.node)
                    if isinstance(v, FRef) and n.id not in sp._call_positions:
                        raise GiveUp()
                return n

            def visit_Call(self, n):
                if isinstance(n.func, ast.Name):
                    sp._call_positions.add(n.func.id)
                n = self.generic_visit(n)
                # f(*TABLE[key]) with a literal table row: the row's constants become the positional arguments
                if any(isinstance(a, ast.Starred) for a in n.args):
                    new_args, ok_ = [], True
                    for a in n.args:
                        if isinstance(a, ast.Starred):
                            v = sp.value(a.value, env, assume)
                            if isinstance(v, tuple) and all(x is None or isinstance(x, (str, int, float, bool)) for x in v):
                                new_args += [ast.Constant(value=x) for x in v]
                            else:
                                ok_ = False
                                break
                        else:
                            new_args.append(a)
                    if ok_:
                        sp.changed = True
                        n = ast.copy_location(ast.Call(func=n.func, args=new_args, keywords=n.keywords), n)
                # getattr(obj, <known str>) -> obj.<name>
                if isinstance(n.func, ast.Name) and n.func.id == "getattr" and len(n.args) == 2 and not n.keywords:
                    nm = sp.value(n.args[1], env, assume)
                    if isinstance(nm, str) and nm.isidentifier():
                        sp.changed = True
                        return ast.copy_location(ast.Attribute(value=n.args[0], attr=nm, ctx=ast.Load()), n)
                    return n
                fv = sp.value(n.func, env, assume) if isinstance(n.func, (ast.Name, ast.Subscript, ast.Call)) else _UNKNOWN
                if isinstance(fv, FRef):
                    sp.changed = True
                    is_method = sp.fi.cls is not None and any(fv.name in c.methods for c in sp.repo.mro(sp.fi.cls))
                    if is_method and n.args and isinstance(n.args[0], ast.Name) and n.args[0].id in ("self", "cls"):
                        return ast.copy_location(ast.Call(func=ast.Attribute(value=n.args[0], attr=fv.name, ctx=ast.Load()), args=n.args[1:], keywords=n.keywords), n)
                    if is_method:
                        m = [c.methods[fv.name] for c in sp.repo.mro(sp.fi.cls) if fv.name in c.methods][0]
                        if "staticmethod" in m.decorators():
                            return ast.copy_location(ast.Call(func=ast.Attribute(value=ast.Name(id=sp.fi.cls.name, ctx=ast.Load()), attr=fv.name, ctx=ast.Load()),
                                                              args=n.args, keywords=n.keywords), n)
                        raise GiveUp()
                    return ast.copy_location(ast.Call(func=ast.Name(id=fv.name, ctx=ast.Load()), args=n.args, keywords=n.keywords), n)
                if isinstance(fv, Opaque):
                    sp.changed = True
                    lam = fv.node
                    if isinstance(lam, ast.Lambda) and not n.keywords and not lam.args.defaults and not lam.args.vararg and not lam.args.kwarg \
                            and len(lam.args.args) == len(n.args) and not any(isinstance(a, ast.Starred) for a in n.args):
                        # beta reduction: (lambda x: body)(a)  ->  body[x := a]
                        m_ = {p.arg: a for p, a in zip(lam.args.args, n.args)}

                        class B(ast.NodeTransformer):
                            def visit_Name(self, x):
                                return copy.deepcopy(m_[x.id]) if isinstance(x.ctx, ast.Load) and x.id in m_ else x

                            def visit_Lambda(self, x):
                                return x
                        return ast.copy_location(B().visit(copy.deepcopy(lam.body)), n)
                    return ast.copy_location(ast.Call(func=copy.deepcopy(fv.node), args=n.args, keywords=n.keywords), n)
                return n
        return T().visit(copy.deepcopy(e))

    # -- statements ---------------------------------------------------------
    def block(self, stmts, env, assume):
        """-> (residual statements, flow) with flow in next / break / continue / return (definite)"""
        out = []
        for i, s in enumerate(stmts):
            r, flow = self.stmt(s, env, assume, stmts[i + 1:])
            out.extend(r)
            if flow == "consumed":          # a dispatch rewrote the rest of the block
                return out, "next"
            if flow != "next":
                return out, flow
        return out, "next"

    def _bind(self, target, val, env):
        if isinstance(target, ast.Name):
            env[target.id] = val
        elif isinstance(target, (ast.Tuple, ast.List)) and isinstance(val, tuple) and len(val) == len(target.elts):
            for t, v in zip(target.elts, val):
                self._bind(t, v, env)
        else:
            raise GiveUp()

    def _kill(self, stmts, env):
        for s in stmts:
            for n in [s] + list(_walk_local(s)):
                if isinstance(n, ast.Name) and isinstance(n.ctx, (ast.Store, ast.Del)):
                    env.pop(n.id, None)
                    self.aliases.discard(n.id)

    def stmt(self, s, env, assume, rest):
        if isinstance(s, ast.Assign) and len(s.targets) == 1:
            v = self.value(s.value, env, assume)
            s2 = copy.copy(s)
            s2.value = self.residual(s.value, env, assume)
            if isinstance(s.targets[0], (ast.Subscript, ast.Attribute)):
                t2 = copy.deepcopy(s.targets[0])
                if isinstance(t2, ast.Subscript):
                    t2.slice = self.residual(t2.slice, env, assume)
                    t2.value = self.residual(t2.value, env, assume)
                else:
                    t2.value = self.residual(t2.value, env, assume)
                s2.targets = [t2]
            self._kill([s], env)
            if assume is not None and isinstance(s.targets[0], ast.Name) and self._subj(s.value, assume) and _u(s.value) != s.targets[0].id:
                self.aliases.add(s.targets[0].id)
            if v is not _UNKNOWN and isinstance(s.targets[0], (ast.Name, ast.Tuple)):
                try:
                    self._bind(s.targets[0], v, env)
                except GiveUp:
                    pass
            return [s2], "next"
        if isinstance(s, ast.If):
            t = self.truth(s.test, env, assume)
            if t is True:
                self.changed = True
                return self.block(s.body, env, assume)
            if t is False:
                self.changed = True
                return self.block(s.orelse, env, assume)
            e1, e2 = dict(env), dict(env)
            b, f1 = self.block(s.body, e1, assume)
            o, f2 = self.block(s.orelse, e2, assume)
            if "break" in (f1, f2) or "continue" in (f1, f2):
                raise GiveUp()          # data-dependent loop exit inside an unrolled table loop
            s2 = copy.copy(s)
            s2.test = self.residual(s.test, env, assume)
            s2.body, s2.orelse = b or [ast.Pass()], o
            for k in list(env):
                if e1.get(k, _UNKNOWN) is not env[k] or e2.get(k, _UNKNOWN) is not env[k]:
                    if f1 == "next" and f2 == "next":
                        env.pop(k)
                    elif f1 == "next":
                        env[k] = e1.get(k, _UNKNOWN)
                    elif f2 == "next":
                        env[k] = e2.get(k, _UNKNOWN)
                    if env.get(k, None) is _UNKNOWN:
                        env.pop(k)
            if f1 == "next" and f2 != "next":
                env.update(e1)
            if f2 == "next" and f1 != "next":
                env.update(e2)
            return [s2], ("return" if f1 == f2 == "return" else "next")
        if isinstance(s, ast.For) and not s.orelse or isinstance(s, ast.For):
            tab = self.table_of(s.iter, env)
            if isinstance(tab, dict):
                tab = tuple(tab.keys())
            if isinstance(tab, tuple) and len(tab) <= MAX_TABLE:
                out = []
                broke = False
                self.unrolled |= {x.id for x in ast.walk(s.target) if isinstance(x, ast.Name)}
                for item in tab:
                    e1 = env
                    try:
                        self._bind(s.target, item, e1)
                    except GiveUp:
                        raise
                    b, f = self.block(s.body, e1, assume)
                    out.extend(b)
                    if f == "break":
                        broke = True
                        break
                    if f == "return":
                        self.changed = True
                        return out, "return"
                self.changed = True
                if not broke and s.orelse:
                    o, f = self.block(s.orelse, env, assume)
                    out.extend(o)
                    if f != "next":
                        return out, f
                return out, "next"
            # ordinary loop: body is residualised with the loop-assigned names unknown
            self._kill([s], env)
            s2 = copy.copy(s)
            e1 = dict(env)
            s2.iter = self.residual(s.iter, env, assume)
            s2.body = self._loop_body(s.body, e1, assume)
            s2.orelse = self._loop_body(s.orelse, dict(env), assume) if s.orelse else []
            return [s2], "next"
        if isinstance(s, ast.While):
            self._kill([s], env)
            s2 = copy.copy(s)
            s2.test = self.residual(s.test, env, assume)
            s2.body = self._loop_body(s.body, dict(env), assume)
            return [s2], "next"
        if isinstance(s, ast.Return):
            s2 = copy.copy(s)
            if s.value is not None:
                s2.value = self.residual(s.value, env, assume)
            return [s2], "return"
        if isinstance(s, ast.Raise):
            s2 = copy.copy(s)
            if s.exc is not None:
                s2.exc = self.residual(s.exc, env, assume)
            if s.cause is not None:
                s2.cause = self.residual(s.cause, env, assume)
            return [s2], "return"
        if isinstance(s, ast.Break):
            return [], "break"
        if isinstance(s, ast.Continue):
            return [], "continue"
        if isinstance(s, (ast.Expr, ast.AugAssign, ast.AnnAssign)):
            s2 = copy.copy(s)
            if getattr(s, "value", None) is not None:
                s2.value = self.residual(s.value, env, assume)
            if isinstance(s, (ast.AugAssign, ast.AnnAssign)) and isinstance(s.target, ast.Subscript):
                t2 = copy.deepcopy(s.target)
                t2.slice = self.residual(t2.slice, env, assume)
                t2.value = self.residual(t2.value, env, assume)
                s2.target = t2
            self._kill([s], env)
            return [s2], "next"
        if isinstance(s, (ast.With, ast.Try)):
            if self.unrolled and any(isinstance(x, ast.Name) and x.id in self.unrolled and x.id in env for x in ast.walk(s)):
                raise GiveUp()           # a loop variable of an unrolled loop inside a statement kind that is not residualised
            self._kill([s], env)
            return [s], "next"
        if self.unrolled and any(isinstance(x, ast.Name) and x.id in self.unrolled and x.id in env and isinstance(x.ctx, ast.Load) for x in ast.walk(s)):
            raise GiveUp()
        self._kill([s], env)
        return [s], "next"

    def _loop_body(self, stmts, env, assume):
        """residual of a (non-unrolled) loop body: break / continue keep their meaning"""
        out = []
        for s in stmts:
            if isinstance(s, (ast.Break, ast.Continue)):
                out.append(s)
                break
            if isinstance(s, ast.If):
                s2 = copy.copy(s)
                s2.test = self.residual(s.test, env, assume)
                s2.body = self._loop_body(s.body, dict(env), assume) or [ast.Pass()]
                s2.orelse = self._loop_body(s.orelse, dict(env), assume)
                self._kill([s], env)
                out.append(s2)
                continue
            r, f = self.stmt(s, env, assume, [])
            out.extend(r)
            if f == "return":
                break
        return out

    # -- dispatch discovery -------------------------------------------------
    def _subject_of_loop(self, s, env):
        """(subject expr, keys) if the loop over a constant table compares one of its loop variables with a non-constant subject"""
        tab = self.table_of(s.iter, env)
        if isinstance(tab, dict):
            tab = tuple(tab.keys())
        if not (isinstance(tab, tuple) and 0 < len(tab) <= MAX_TABLE):
            return None
        names = {n.id: None for n in ast.walk(s.target) if isinstance(n, ast.Name)}
        for c in [x for b in s.body for x in [b] + list(_walk_local(b))]:
            if isinstance(c, ast.Compare) and len(c.ops) == 1 and isinstance(c.ops[0], (ast.Eq, ast.NotEq)):
                for a, b in ((c.left, c.comparators[0]), (c.comparators[0], c.left)):
                    if isinstance(a, ast.Name) and a.id in names and not any(isinstance(x, ast.Name) and x.id in names for x in ast.walk(b)) \
                            and not isinstance(b, ast.Constant):
                        # position of the loop variable in the target
                        if isinstance(s.target, ast.Name):
                            keys = list(tab)
                        elif isinstance(s.target, (ast.Tuple, ast.List)):
                            pos = [i for i, t in enumerate(s.target.elts) if isinstance(t, ast.Name) and t.id == a.id]
                            if not pos or not all(isinstance(r, tuple) and len(r) == len(s.target.elts) for r in tab):
                                return None
                            keys = [r[pos[0]] for r in tab]
                        else:
                            return None
                        if any(isinstance(k, (FRef, Opaque, dict, tuple)) for k in keys):
                            return None
                        return b, keys
        return None

    def _subject_of_lookup(self, s, env):
        """(subject expr, keys) if the statement looks a non-constant key up in a constant dict"""
        for n in [s] + list(_walk_local(s)):
            tabx = key = None
            if isinstance(n, ast.Subscript) and isinstance(n.ctx, ast.Load):
                tabx, key = n.value, n.slice
            elif isinstance(n, ast.Call) and isinstance(n.func, ast.Attribute) and n.func.attr == "get" and 1 <= len(n.args) <= 2:
                tabx, key = n.func.value, n.args[0]
            if tabx is None or isinstance(key, (ast.Constant, ast.Slice)):
                continue
            t = self.table_of(tabx, env)
            if isinstance(t, dict) and 0 < len(t) <= MAX_TABLE and self.value(key, env, None) is _UNKNOWN:
                if all(self._handler_like(v) for v in t.values()):
                    return key, list(t.keys())
        return None

    def _handler_like(self, v):
        """a table value that selects code: a function of the class / module, the name of a method, a bound method or a lambda"""
        if isinstance(v, FRef):
            return True
        if isinstance(v, str):
            return v.isidentifier() and self.fi.cls is not None and any(v in c.methods for c in self.repo.mro(self.fi.cls))
        if isinstance(v, Opaque):
            n = v.node
            return isinstance(n, ast.Lambda) or (isinstance(n, ast.Attribute) and isinstance(n.value, ast.Name) and n.value.id in ("self", "cls"))
        return False

    def _key_test(self, subj, k, keys):
        if set(keys) == {True, False} and isinstance(subj, ast.Call) and isinstance(subj.func, ast.Name) and subj.func.id == "bool" and len(subj.args) == 1:
            x = copy.deepcopy(subj.args[0])
            return x if k is True else ast.UnaryOp(op=ast.Not(), operand=x)
        return ast.Compare(left=copy.deepcopy(subj), ops=[ast.Eq()], comparators=[ast.Constant(value=k)])

    def rewrite_block(self, stmts, env):
        """find dispatching statements in a block and replace them by if/elif chains; recurses into compound statements"""
        out = []
        env = dict(env)
        for i, s in enumerate(stmts):
            rest = stmts[i + 1:]
            if isinstance(s, ast.For):
                sub = self._subject_of_loop(s, env)
                if sub is not None:
                    try:
                        chain, definite = self._chain(sub[0], sub[1], [s], env)
                        out.extend(chain)
                        self.changed = True
                        continue
                    except GiveUp:
                        pass
                else:
                    # plain unrolling only for class-level / module-level constant tables (loops over local literal lists are an idiom
                    # the rules read directly)
                    tab = self.table_of(s.iter, {}) if not isinstance(s.iter, (ast.Tuple, ast.List, ast.Dict)) else _UNKNOWN
                    if isinstance(tab, (tuple, dict)) and len(tab) <= MAX_TABLE and not any(isinstance(x, (ast.Break, ast.Continue)) for b in s.body for x in [b] + list(_walk_local(b))):
                        try:
                            r, f = self.stmt(s, dict(env), None, rest)
                            out.extend(self.rewrite_block(r, env))
                            continue
                        except GiveUp:
                            pass
            elif isinstance(s, (ast.Assign, ast.Expr, ast.Return, ast.If)):
                probe = s if not isinstance(s, ast.If) else ast.Expr(value=s.test)
                sub = self._subject_of_lookup(probe, env)
                if sub is not None:
                    try:
                        chain, definite = self._chain(sub[0], sub[1], [s] + rest, env)
                        out.extend(chain)
                        self.changed = True
                        return out
                    except GiveUp:
                        pass
            # literal tables assigned to locals become known
            if isinstance(s, ast.Assign) and len(s.targets) == 1 and isinstance(s.targets[0], ast.Name) and isinstance(s.value, (ast.Tuple, ast.List, ast.Dict)):
                try:
                    env[s.targets[0].id] = self.lit(s.value)
                except GiveUp:
                    env.pop(s.targets[0].id, None)
            else:
                self._kill([s], env)
            s2 = s
            if isinstance(s, (ast.Expr, ast.Assign, ast.Return)) and getattr(s, "value", None) is not None and \
                    any(isinstance(x, ast.Starred) for x in ast.walk(s.value)):
                try:
                    s2 = copy.copy(s)
                    s2.value = self.residual(s.value, env, None)
                except GiveUp:
                    s2 = s
            for fld in ("body", "orelse", "finalbody"):
                blk = getattr(s, fld, None)
                if isinstance(blk, list) and blk and isinstance(blk[0], ast.stmt) and not isinstance(s, (ast.FunctionDef, ast.AsyncFunctionDef, ast.ClassDef)):
                    if s2 is s:
                        s2 = copy.copy(s)
                    setattr(s2, fld, self.rewrite_block(blk, env))
            out.append(s2)
        return out

    def _chain(self, subj, keys, stmts, env):
        arms = []
        sk = _u(subj)
        seen = []
        for k in keys:
            if k in seen:
                continue
            seen.append(k)
            self.aliases = set()
            r, f = self.block(copy.deepcopy(stmts), dict(env), (sk, "eq", k))
            arms.append((k, r, f))
        exhaustive = set(seen) == {True, False} and isinstance(subj, ast.Call) and isinstance(subj.func, ast.Name) and subj.func.id == "bool"
        if exhaustive:
            # a bool(...) subject has no third value: the last arm is the else branch
            (k1, r1, f1), (k2, r2, f2) = arms
            node = ast.If(test=self._key_test(subj, k1, seen), body=r1 or [ast.Pass()], orelse=r2 or [ast.Pass()])
            ast.fix_missing_locations(node)
            ast.copy_location(node, stmts[0])
            for x in ast.walk(node):
                if not hasattr(x, "lineno"):
                    x.lineno = getattr(stmts[0], "lineno", 0)
                    x.col_offset = 0
            return [node], f1 == f2 == "return"
        self.aliases = set()
        r_other, f_other = self.block(copy.deepcopy(stmts), dict(env), (sk, "other", tuple(seen)))
        self.aliases = set()
        node = None
        tail = r_other
        for k, r, f in reversed(arms):
            node = ast.If(test=self._key_test(subj, k, seen), body=r or [ast.Pass()], orelse=tail)
            tail = [node]
        ast.fix_missing_locations(node)
        for x in ast.walk(node):
            if not hasattr(x, "lineno"):
                x.lineno = getattr(stmts[0], "lineno", 0)
                x.col_offset = 0
        ast.copy_location(node, stmts[0])
        return [node], all(f == "return" for _, _, f in arms) and f_other == "return"


def _callable_ref(sp, e):
    """expression denotes a function of the repository: self.method / cls.method / Class.method / module function / lambda"""
    if isinstance(e, ast.Lambda):
        return True
    if isinstance(e, ast.Attribute) and isinstance(e.value, ast.Name) and sp.fi.cls is not None and e.value.id in ("self", "cls", sp.fi.cls.name):
        return any(e.attr in c.methods for c in sp.repo.mro(sp.fi.cls))
    if isinstance(e, ast.Name):
        return sp._is_function_name(e.id) and not sp._assigned_locally(e.id)
    return False


def devirtualise(sp, stmts):
    """`f = self.a if c else self.b` (normalised to an if/else assigning f) followed by a statement that calls f(...) becomes
    `if c: <statement calling self.a(...)> else: <statement calling self.b(...)>`: the call through a variable is resolved per branch.
    Applies when f is assigned nowhere else in the function and the test's names are not re-assigned in between."""
    out = []
    i = 0
    while i < len(stmts):
        s = stmts[i]
        # recurse into compound statements first
        if not isinstance(s, (ast.FunctionDef, ast.AsyncFunctionDef, ast.ClassDef)):
            for fld in ("body", "orelse", "finalbody"):
                blk = getattr(s, fld, None)
                if isinstance(blk, list) and blk and isinstance(blk[0], ast.stmt):
                    s = copy.copy(s)
                    setattr(s, fld, devirtualise(sp, blk))
        ok = isinstance(s, ast.If) and s.orelse and isinstance(s.body[-1], ast.Assign) and isinstance(s.orelse[-1], ast.Assign) \
            and len(s.body[-1].targets) == 1 and isinstance(s.body[-1].targets[0], ast.Name) and len(s.orelse[-1].targets) == 1 \
            and isinstance(s.orelse[-1].targets[0], ast.Name) and s.body[-1].targets[0].id == s.orelse[-1].targets[0].id \
            and _callable_ref(sp, s.body[-1].value) and _callable_ref(sp, s.orelse[-1].value)
        if ok:
            f = s.body[-1].targets[0].id
            stores = [n for n in _walk_local(sp.fi.node) if isinstance(n, ast.Name) and n.id == f and isinstance(n.ctx, ast.Store)]
            tnames = {n.id for n in ast.walk(s.test) if isinstance(n, ast.Name)}
            if len(stores) == 2:
                rest = list(stmts[i + 1:])
                new_rest, changed, blocked = [], False, False
                for r in rest:
                    uses = [n for n in ast.walk(r) if isinstance(n, ast.Name) and n.id == f and isinstance(n.ctx, ast.Load)]
                    calls = [n for n in ast.walk(r) if isinstance(n, ast.Call) and isinstance(n.func, ast.Name) and n.func.id == f]
                    if uses and not blocked and len(uses) == len(calls) and isinstance(r, (ast.Assign, ast.Return, ast.Expr, ast.AugAssign, ast.AnnAssign)):
                        def with_ref(ref):
                            class T(ast.NodeTransformer):
                                def visit_Call(self, n):
                                    self.generic_visit(n)
                                    if isinstance(n.func, ast.Name) and n.func.id == f:
                                        n.func = copy.deepcopy(ref)
                                    return n
                            return T().visit(copy.deepcopy(r))
                        new_rest.append(ast.copy_location(ast.If(test=copy.deepcopy(s.test), body=[with_ref(s.body[-1].value)], orelse=[with_ref(s.orelse[-1].value)]), r))
                        changed = True
                    else:
                        if uses:
                            blocked = True
                        new_rest.append(r)
                    if any(isinstance(n, ast.Name) and n.id in tnames and isinstance(n.ctx, ast.Store) for n in ast.walk(r)):
                        blocked = True
                if changed and not any(isinstance(n, ast.Name) and n.id == f and isinstance(n.ctx, ast.Load) for r in new_rest for n in ast.walk(r)
                                       if not (isinstance(r, ast.If))) :
                    sp.changed = True
                    out.append(s)
                    out.extend(new_rest)
                    return out
        out.append(s)
        i += 1
    return out


def specialise_function(repo, fi):
    """-> new FunctionDef with table-driven dispatch made explicit, or None if nothing applies"""
    sp = Specialiser(repo, fi)
    try:
        body = devirtualise(sp, list(fi.node.body))
        body = sp.rewrite_block(body, {})
    except (GiveUp, RecursionError):
        return None
    if not sp.changed:
        return None
    fn = copy.copy(fi.node)
    fn.body = body
    fn = copy.deepcopy(fn)
    ast.fix_missing_locations(fn)
    return fn


def case_split(repo, fi, subject, keys):
    """-> FunctionDef whose body is `if <subject> == k1: B1 elif ... else: B_other`, each Bi the body of fi specialised under the
    assumption (tests it decides folded away, locals that copy the subject known), or None when the specialiser gives up.  Whatever
    shape the function dispatches in (if/elif chain, guard clauses with a shared tail, a membership test up front), the rules then
    read one arm per key."""
    sp = Specialiser(repo, fi)
    body = list(fi.node.body)
    doc = []
    if body and isinstance(body[0], ast.Expr) and isinstance(body[0].value, ast.Constant) and isinstance(body[0].value.value, str):
        doc, body = body[:1], body[1:]
    try:
        chain, _ = sp._chain(subject, list(keys), body, {})
    except (GiveUp, RecursionError):
        return None
    fn = copy.copy(fi.node)
    fn.body = doc + chain
    fn = copy.deepcopy(fn)
    ast.fix_missing_locations(fn)
    return fn

"""C07 - sorting-based algorithms only emit safe schedules (structural part)."""
import ast

from ..core import AnalysisError, dotted, call_name, src, walk_local, const_value
from ..flow import edge_facts, linear, Lin
from ..rules import anchored_fn, flow_of, calls_in, bind_args, canon, facts_at, cmp_norm, alts_deep, state_writes, region, store_targets, flow_expand_atom
from ..indexdom import check_function as index_check
from ..units import check_units
from ..tables import UNITS

EXPLANATION = ("For SortedSchedulingAlgo and RoundRobin: schedule() returns run_postprocessing(alg(run_preprocessing(sessions, info), "
               "info), info) with info = interface.infrastructure_info(); run_preprocessing always applies remove_finished_sessions then "
               "enforce_pilot_limit, the estimator exactly when estimate_max_rate, the minimum rate exactly when uninterrupted_charging, "
               "threading the session list through; the greedy upper bound is a min covering the session's max rate and its remaining "
               "amp-periods, round robin's additionally the EVSE limit, lower bounds are max(0, min rate), candidate levels are filtered "
               "by lb <= a <= ub unconditionally (every EVSE type); preprocessing stores a minimum of the session bound with the EVSE "
               "limit resp. the estimator bound, the rampdown bound is clipped into [0, max pilot]; every store into the schedule array "
               "inside the allocation loops is a value returned by the feasible-rate search, the lower bound followed by the "
               "infeasibility raise, literal 0, or (round robin) a tentative level reverted on the infeasible edge; max_feasible_rate "
               "returns ub only on the feasible edge of a check of a schedule containing ub, the bisection returns its lower end and "
               "moves it only on the feasible edge; the discrete search leaves its loop only with a feasible candidate or literal 0; "
               "the bisection is used exactly for continuous EVSEs; estimator dictionaries keyed by session id are only read with "
               "session ids (index domains); format_array_schedule emits one entry per network station from an array that starts at "
               "zero; amp-period conversions are dimensionally consistent; the algorithm-side feasibility checker has no shortcut "
               "acceptance (shared with C06)."
               ' Added in round 3: row acceptance of the feasibility oracle (shared with C06), the output entry is the computed entry itself (no repetition over several periods). Allocation-loop rules follow the working variables schedule / queue / rate_idx by name and answer ANALYSIS-ERROR when those no longer exist.')
EXPLANATION += " Added in rounds 4-5: the description handed to the algorithms is the network's present one and the caller's own copy (stateless-view and escape rules); order provenance of locally built per-session vectors against the queue position that indexes them; the minimum-rate gate and the output mapping are decided on decision tables / the expanded mapping."
NOT_DECIDED = ("feasibility of the concrete numbers produced; 'never delivers more than requested' over a whole simulation; behaviour of "
               "user-supplied sort functions and estimators")

FEAS = "infrastructure_constraints_feasible"
_canon = canon


def xp(fl, node, text):
    """canonical form of the source text `text` expanded at `node` (reference patterns are expanded like the code they are compared with)"""
    return canon(fl.expand(ast.parse(text, mode="eval").body, node))


def _match(s, i):
    """index just past the parenthesis group opening at s[i] == '('"""
    d = 0
    for j in range(i, len(s)):
        if s[j] == "(":
            d += 1
        elif s[j] == ")":
            d -= 1
            if d == 0:
                return j + 1
    return len(s)


def canon(e):
    """canonical string in which the element of the iterated session list (the loop variable of the allocation loops,
    whatever the list is called or however it was sorted / dequeued) reads `session`."""
    s = _canon(e)
    out, i = "", 0
    while i < len(s):
        if s.startswith("__elem__(", i):
            j = _match(s, i + 8)
            inner = s[i + 9:j - 1]
            if not inner.endswith(("station_ids", "allowable_pilots", "constraint_matrix")) and "allowable_pilots[" not in inner:
                out += "session"
                i = j
                continue
        if s.startswith("deque(", i):
            j = _match(s, i + 5)
            if s.startswith(".popleft()", j):
                out += "session"
                i = j + len(".popleft()")
                continue
        out += s[i]
        i += 1
    return out


def is_feasible_call(e):
    return isinstance(e, ast.Call) and call_name(e) == FEAS


def base_array(fl, e, node):
    """name of the local array an expression denotes, looked up through result temporaries (`t = work; check(t)`): follows
    Name = Name definitions with a single reaching definition"""
    nd, steps = node, 0
    while isinstance(e, ast.Name) and steps < 6:
        ds = fl.defs_at(nd, e.id)
        if len(ds) != 1:
            break
        d = next(iter(ds))
        how = fl.def_how(d, e.id)
        if how[0] == "assign" and isinstance(how[1], ast.Name):
            e, nd, steps = how[1], d, steps + 1
        else:
            break
    return dotted(e)


def facts_through_temps(fl, node):
    """facts_at with boolean temporaries looked through: `ok = feasible(s, infra); if ok:` is the test `if feasible(s, infra):` (the
    call keeps the names of its arguments - only the temporaries holding the *result* are followed)"""
    out = []
    for a, t in facts_at(fl, node):
        e, nd, steps = a, node, 0
        while isinstance(e, ast.Name) and steps < 4:
            ds = fl.defs_at(nd, e.id)
            if len(ds) != 1:
                break
            d = next(iter(ds))
            how = fl.def_how(d, e.id)
            if how[0] != "assign" or how[1] is None:
                break
            e, nd, steps = how[1], d, steps + 1
        out.append((e, t))
    return out


def rule_pipeline(ck, rid="C07.R1"):
    repo = ck.repo
    for cname, alg in (("SortedSchedulingAlgo", "sorting_algorithm"), ("RoundRobin", "round_robin")):
        f = repo.fn(f"{cname}.schedule")
        fl = flow_of(f)
        sess = f.params[1]
        info = "self.interface.infrastructure_info()"
        want = f"self.run_postprocessing(self.{alg}(self.run_preprocessing({sess}, {info}), {info}), {info})"
        rets = [n for n in fl.cfg.nodes if n.kind == "return"]
        ck.require(len(rets) == 1, rid, f, "single return", bad=f"{len(rets)} returns in {cname}.schedule", sink=f"{cname}:returns")
        for r in rets:
            got = canon(fl.expand(r.expr, r))
            ck.require(got == want, rid, f, r.expr, ok="postprocess(algorithm(preprocess(sessions, info), info), info)",
                       bad=f"the returned schedule is `{got[:150]}`; it must pass through preprocessing, the allocation and postprocessing with one infrastructure description",
                       sink=f"{cname}:pipeline")
    pre = repo.fn("SortedSchedulingAlgo.run_preprocessing")
    fl = flow_of(pre)
    cfg = fl.cfg
    sess, infra = pre.params[1:3]
    rets = [n for n in cfg.nodes if n.kind == "return"]
    alts = []
    for r in rets:
        alts += alts_deep(fl.expand(r.expr, r), limit=16)
    ck.require(len(alts) == 4, rid, pre, "four option combinations", ok="one result per combination of the two options", bad=f"{len(alts)} distinct results of run_preprocessing (expected 4)",
               sink="pre:combinations")
    core = f"enforce_pilot_limit(remove_finished_sessions({sess}, {infra}, self.interface.period), {infra})"
    seen = set()
    for a in alts:
        s = canon(a)
        est = "apply_upper_bound_estimate(" in s
        mn = "apply_minimum_charging_rate(" in s
        exp = core
        if est:
            exp = f"apply_upper_bound_estimate(self.max_rate_estimator, {exp})"
        if mn:
            exp = f"apply_minimum_charging_rate({exp}, {infra}, self.interface.period)"
        seen.add((est, mn))
        ck.require(s == exp, rid, pre, a, ok="finished sessions removed, then pilot limit, then estimator, then minimum rate - each fed the previous result",
                   bad=f"preprocessing result `{s[:160]}` is not the required chain `{exp[:160]}`", sink=f"pre:chain:{int(est)}{int(mn)}")
    ck.require(seen == {(False, False), (True, False), (False, True), (True, True)}, rid, pre, "option combinations", bad=f"combinations found: {sorted(seen)}",
               sink="pre:combos-set")
    for nm, flag in (("apply_upper_bound_estimate", "self.estimate_max_rate"), ("apply_minimum_charging_rate", "self.uninterrupted_charging")):
        for n, c in calls_in(fl, nm):
            fs = [(canon(a), t) for a, t in facts_at(fl, n)]
            ck.require((flag, True) in fs, rid, pre, c, ok=f"applied exactly when {flag}", bad=f"{nm} is not guarded by {flag}", sink=f"pre:{nm}:guard")
        edges = [e for e in cfg.nodes if e.kind == "edge" and e.test.kind == "test" and e.label is True and canon(e.test.expr) == flag]
        ck.require(len(edges) == 1 and all(cfg.exit not in cfg.reach(e, avoid={n for n, c in calls_in(fl, nm)}) for e in edges), rid, pre, flag,
                   ok=f"every path with {flag} applies {nm}", bad=f"a path with {flag} set skips {nm}", sink=f"pre:{nm}:always")


def rule_pre_details(ck):
    repo = ck.repo
    # remove_finished_sessions: whatever way the list is built (loop + append, comprehension, through a local helper), the returned
    # value expands to one comprehension  [s for s in sessions if <threshold> < s.remaining_demand]
    rf = repo.fn("remove_finished_sessions")
    fl = flow_of(rf)
    rets = [n for n in fl.cfg.nodes if n.kind == "return"]
    if not rets:
        raise AnalysisError("remove_finished_sessions: no return")
    for r in rets:
        ex = fl.expand(r.expr, r) if r.expr is not None else None
        while isinstance(ex, ast.Call) and call_name(ex) in ("list", "tuple") and len(ex.args) == 1:
            ex = ex.args[0]
        if not (isinstance(ex, (ast.ListComp, ast.GeneratorExp)) and len(ex.generators) == 1 and isinstance(ex.generators[0].target, ast.Name)):
            raise AnalysisError(f"remove_finished_sessions: construction of the returned list not recognised: {src(ex, 80) if ex is not None else None}")
        g = ex.generators[0]
        v = g.target.id
        it = g.iter
        while isinstance(it, ast.Call) and call_name(it) in ("list", "tuple", "iter") and len(it.args) == 1:
            it = it.args[0]
        ck.require(dotted(it) == rf.params[0], "C07.R1", rf, g.iter, ok="ranges over the given sessions", bad=f"the kept sessions are drawn from `{src(g.iter, 50)}`, not from the given session list",
                   sink="rfs:source")
        conds = []
        for t in g.ifs:
            conds += t.values if isinstance(t, ast.BoolOp) and isinstance(t.op, ast.And) else [t]
        good = [c for t in conds if (c := cmp_norm(t, True)) and c[1] == "<" and dotted(c[2]) == f"{v}.remaining_demand"
                and "min_pilot" in _canon(c[0]) and "voltages" in _canon(c[0])]
        ck.require(len(good) == 1 and len(conds) == 1, "C07.R1", rf, g.ifs[0] if g.ifs else ex, ok="kept only while remaining demand exceeds one minimum-pilot period of energy",
                   bad="sessions are not kept exactly under the `remaining_demand > min_pilot energy of one period` test: finished sessions keep being charged "
                       "(or unfinished ones are dropped)", sink="rfs:threshold")
        ck.require(dotted(ex.elt) == v, "C07.R1", rf, ex.elt, ok="the session itself is kept", bad="something other than the session is kept", sink="rfs:elem")
    # apply_minimum_charging_rate as a decision table (every path through one iteration, path-sensitive def-use expansion): the gate may be
    # one compound test, nested tests, guard clauses or a staged boolean - the rows are the same
    from .. import pathtab
    am = anchored_fn(repo, "apply_minimum_charging_rate", ("rates",))
    al = flow_of(am)
    rows = [r for r in pathtab.table(al) if r.end != "raise" and any(k.startswith("iterates ") and t for k, t, a, n in r.facts)]

    def demand(k, a):
        return "remaining_amp_periods(" in k and (" <= " in k or " < " in k)

    def feasible(k, a):
        return k.startswith("infrastructure_constraints_feasible(")

    def stores(r, what):
        return [k for kind, k, a, n in r.effects if kind == "store" and what in k]

    def zeroes_rate(r):
        return any(n.kind == "stmt" and isinstance(n.stmt, ast.Assign) and isinstance(n.stmt.targets[0], ast.Subscript) and dotted(n.stmt.targets[0].value) == "rates"
                   and isinstance(n.stmt.value, ast.Constant) and n.stmt.value.value == 0 for n in r.nodes)
    keep = [r for r in rows if any("max(" in k.split(" = ", 1)[1] for k in stores(r, ".min_rates[0] = "))]
    drop = [r for r in rows if r not in keep]
    ck.require(bool(keep) and bool(drop), "C07.R2", am, "feasibility gate of the minimum rate", ok="sessions are either kept at the minimum rate or held at 0",
               bad=f"{len(keep)} keeping and {len(drop)} dropping paths through apply_minimum_charging_rate (need both)", sink="amcr:gate")
    for r in keep:
        ok = pathtab.implied(al, r, demand) is True and pathtab.implied(al, r, feasible) is True
        ck.require(ok, "C07.R2", am, r.describe(120), ok="the minimum rate is granted only when it fits the demand and the infrastructure",
                   bad="a session is kept at the minimum rate on a path on which `rate <= remaining demand` and the feasibility check have not both passed", sink="amcr:gate")
        vals = [k.split(" = ", 1)[1] for k in stores(r, ".min_rates[0] = ")]
        ck.require(all(v.startswith("max(") for v in vals), "C07.R2", am, vals[0] if vals else "session.min_rates[0]", ok="minimum rate raised to the EVSE minimum (never lowered)",
                   bad="the minimum rate is not max(EVSE minimum, existing minimum)", sink="amcr:raise")
    for r in drop:
        got = {w for w in (".min_rates[0] = 0", ".max_rates[0] = 0") if stores(r, w)} | ({"rates[i] = 0"} if zeroes_rate(r) else set())
        need = {".min_rates[0] = 0", ".max_rates[0] = 0", "rates[i] = 0"}
        ck.require(need <= got, "C07.R2", am, r.describe(120), ok="a session that cannot get its minimum is held at 0 (min and max rate zeroed)",
                   bad=f"on a path on which the minimum rate is refused only {sorted(got)} are zeroed; {sorted(need - got)} must be zeroed too, or the session is later granted a "
                       f"pilot below the EVSE minimum", sink="amcr:zero")
        both = pathtab.satisfiable(al, r, [(demand, True), (feasible, True)])
        if both is None and pathtab.implied(al, r, demand) is False:
            both = False              # the feasibility check is not even reached: the demand test already failed
        ck.require(both is False, "C07.R2", am, r.describe(120), ok="refused only when the demand or the infrastructure does not allow it",
                   bad="a session is refused its minimum rate although both the demand test and the feasibility check passed", sink="amcr:gate")


def min_args(e):
    if isinstance(e, ast.Call) and call_name(e) in ("min", "minimum") and e.args:
        a = e.args[0].elts if len(e.args) == 1 and isinstance(e.args[0], (ast.List, ast.Tuple)) else e.args
        return {canon(x) for x in a}
    return None


def rule_bounds(ck):
    repo = ck.repo
    sa = anchored_fn(repo, "SortedSchedulingAlgo.sorting_algorithm", ("schedule", "queue"), loops_over=("queue",))
    fl = flow_of(sa)
    # greedy ub / lb: take the definitions used at the search calls
    n_ub = 0
    for n, c in calls_in(fl, "max_feasible_rate") + calls_in(fl, "discrete_max_feasible_rate"):
        callee = repo.fn(f"SortedSchedulingAlgo.{call_name(c)}")
        b = bind_args(c, callee, method=False)
        if "ub" in b:
            n_ub += 1
            got = min_args(fl.expand(b["ub"], n))
            need = {"session.max_rates[0]", "self.interface.remaining_amp_periods(session)"}
            ck.require(got is not None and need <= got, "C07.R2", sa, b["ub"], ok="ub = min(session max rate, remaining amp-periods)",
                       bad=f"the greedy upper bound covers {sorted(got) if got else src(fl.expand(b['ub'], n), 60)}; it must be a min over {sorted(need)}", sink="greedy:ub")
            lbx = fl.expand(b.get("lb", ast.Constant(0)), n)
            ok = isinstance(lbx, ast.Call) and call_name(lbx) == "max" and {canon(a) for a in lbx.args} == {"0", "session.min_rates[0]"}
            ck.require(ok, "C07.R2", sa, b.get("lb", c), ok="lb = max(0, session min rate)", bad="the greedy lower bound is not max(0, session.min_rates[0])", sink="greedy:lb")
        if "allowable_pilots" in b:
            ex = fl.expand(b["allowable_pilots"], n)
            ok = False
            if isinstance(ex, ast.ListComp) and len(ex.generators) == 1:
                g = ex.generators[0]
                var = g.target.id if isinstance(g.target, ast.Name) else None
                src_ok = canon(g.iter) == "infrastructure.allowable_pilots[infrastructure.get_station_index(session.station_id)]"
                conds = set()
                tests_ = []
                for t in g.ifs:
                    tests_ += list(t.values) if isinstance(t, ast.BoolOp) and isinstance(t.op, ast.And) else [t]
                for t in tests_:
                    parts = []
                    if isinstance(t, ast.Compare):
                        l = t.left
                        for op, r in zip(t.ops, t.comparators):
                            parts.append((l, op, r))
                            l = r
                    for l, op, r in parts:
                        cn = cmp_norm(ast.Compare(left=l, ops=[op], comparators=[r]))
                        if cn:
                            conds.add((canon(fl.expand(cn[0], n)) if dotted(cn[0]) != var else var, cn[1], canon(fl.expand(cn[2], n)) if dotted(cn[2]) != var else var))
                lbs = "max(0, session.min_rates[0])"
                ubs = {c for c in conds if c[0] == var and c[1] == "<=" and "remaining_amp_periods" in c[2] and "max_rates[0]" in c[2]}
                lbc = {c for c in conds if c[2] == var and c[1] == "<=" and c[0] == lbs}
                ok = src_ok and dotted(ex.elt) == var and bool(ubs) and bool(lbc)
            ck.require(ok, "C07.R2", sa, b["allowable_pilots"], ok="candidate levels = the EVSE's levels with lb <= a <= ub", bad="the discrete candidates are not the EVSE's allowable levels filtered by lb <= a <= ub",
                       sink="greedy:candidates")
    ck.floor("C07.R2", n_ub, 1, "greedy searches with an upper bound")
    # round robin
    rr = anchored_fn(repo, "RoundRobin.round_robin", ("schedule", "queue", "rate_idx", "allowable_pilots"))
    rl = flow_of(rr)
    cfg = rl.cfg
    ubdefs = [n for n in cfg.nodes if n.kind == "stmt" and isinstance(n.stmt, ast.Assign) and any(dotted(t) == "ub" for t in n.stmt.targets)]
    ck.require(len(ubdefs) == 1, "C07.R2", rr, "ub = min(...)", bad=f"{len(ubdefs)} definitions of ub in round_robin", sink="rr:ub-defs")
    for n in ubdefs:
        got = min_args(rl.expand(n.stmt.value, n))
        need = {"session.max_rates[0]", "infrastructure.max_pilot[infrastructure.get_station_index(session.station_id)]", "self.interface.remaining_amp_periods(session)"}
        ck.require(got is not None and need <= got, "C07.R2", rr, n.stmt, ok="ub = min(session max, EVSE max pilot, remaining amp-periods)",
                   bad=f"round robin's upper bound covers {sorted(got) if got else None}; needs {sorted(need)}", sink="rr:ub")
    # the two level filters: boolean masks applied to the station's level list (lb <= levels, levels <= ub), unconditional in the set-up
    # loop, whether written as two re-assignments, one `&` mask, through a temporary, or with np.logical_and
    def mask_conjuncts(m):
        if isinstance(m, ast.BinOp) and isinstance(m.op, ast.BitAnd):
            return mask_conjuncts(m.left) + mask_conjuncts(m.right)
        if isinstance(m, ast.Call) and call_name(m) == "logical_and":
            return [x for a_ in m.args for x in mask_conjuncts(a_)]
        if isinstance(m, ast.Compare):
            out, l = [], m.left
            for op, r_ in zip(m.ops, m.comparators):
                out.append(ast.Compare(left=l, ops=[op], comparators=[r_]))
                l = r_
            return out
        return []
    filt = {"lb": [], "ub": []}
    setup = [n for n in cfg.nodes if n.kind == "for"]
    for n in cfg.nodes:
        if n.kind != "stmt" or not isinstance(n.stmt, (ast.Assign, ast.AnnAssign)) or getattr(n.stmt, "value", None) is None:
            continue
        for sub in [x for x in ast.walk(n.stmt.value) if isinstance(x, ast.Subscript)]:
            cj = mask_conjuncts(sub.slice) or (mask_conjuncts(flow_expand_atom(rl, sub.slice, n)) if isinstance(sub.slice, ast.Name) else [])
            if not cj or "allowable_pilots" not in canon(rl.expand(sub.value, n)):
                continue
            for cmp_ in cj:
                cn = cmp_norm(rl.expand(cmp_, n))
                if not cn or cn[1] != "<=":
                    continue
                l, r_ = canon(cn[0]), canon(cn[2])
                if l == "max(0, session.min_rates[0])" and "allowable_pilots" in r_:
                    filt["lb"].append(n)
                if "allowable_pilots" in l and r_.startswith("min(") and "remaining_amp_periods" in r_ and "max_rates[0]" in r_:
                    filt["ub"].append(n)
    for k, nodes in filt.items():
        ck.require(len(nodes) >= 1, "C07.R2", rr, f"levels filtered by {k}", ok=f"levels restricted by the {k}", bad=f"round robin does not restrict the level list by the session's {k}",
                   sink=f"rr:filter:{k}:exists")
        for n in nodes:
            conds = [t for t, lab in cfg.edges_dominating(n) if t.kind == "test"]
            ck.require(not conds, "C07.R2", rr, n.stmt, ok="applied to every EVSE type", bad=f"the {k} filter only runs under `{src(conds[0].expr, 50) if conds else ''}`: "
                       f"other EVSEs keep levels outside the session's bounds (over-delivery / invalid pilot)", sink=f"rr:filter:{k}:unconditional")
            # the filtered list is what the station keeps: it reaches a store into allowable_pilots[i]
            tgt = n.stmt.targets[0] if isinstance(n.stmt, ast.Assign) else n.stmt.target
            reaches = isinstance(tgt, ast.Subscript) and dotted(tgt.value) == "allowable_pilots"
            if not reaches and isinstance(tgt, ast.Name):
                for m in cfg.nodes:
                    if m.kind == "stmt" and isinstance(m.stmt, ast.Assign) and isinstance(m.stmt.targets[0], ast.Subscript) and dotted(m.stmt.targets[0].value) == "allowable_pilots" \
                            and any(d_ is n for _nm, d_ in rl.used_defs(m.stmt.value, m)):
                        reaches = True          # (through any chain of local re-definitions: `p = p[lb <= p]; p = p[p <= ub]; levels[i] = p`)
            ck.require(reaches, "C07.R2", rr, n.stmt, ok="the filtered levels are stored back for the station", bad="the filtered level list is never stored back into allowable_pilots", sink=f"rr:filter:{k}:stored")
    # continuous grid spans [min rate, max rate]
    grids = [(n, c) for n, c in calls_in(rl, "arange")]
    for gn, c in grids:
        old_keep = getattr(rl, "keep", set())
        rl.keep = set(old_keep) | {"session"}
        try:
            xa = [rl.expand(a, gn) for a in c.args]          # through temporaries (`grid_end = session_max + inc / 2`)
        finally:
            rl.keep = old_keep
        ok = len(xa) == 3 and canon(xa[0]) == "session.min_rates[0]" and canon(xa[2]) == "self.continuous_inc" and \
            linear(xa[1]) == linear(ast.parse("session.max_rates[0] + self.continuous_inc / 2", mode="eval").body)
        ck.require(ok, "C07.R2", rr, c, ok="continuous grid from the min rate in steps of continuous_inc up to the max rate", bad="the continuous level grid is not arange(min, max + inc/2, inc)",
                   sink="rr:grid")
    # preprocessing minima
    epl = repo.fn("enforce_pilot_limit")
    el = flow_of(epl)
    st = [n for n in el.cfg.nodes if n.kind == "stmt" and isinstance(n.stmt, ast.Assign) and any(dotted(t) == "session.max_rates" for t in n.stmt.targets)]
    ck.require(len(st) == 1, "C07.R2", epl, "session.max_rates = minimum(...)", bad=f"{len(st)} stores of max_rates in enforce_pilot_limit", sink="epl:stores")
    for n in st:
        got = min_args(el.expand(n.stmt.value, n))
        need = {"session.max_rates", "infrastructure.max_pilot[infrastructure.get_station_index(session.station_id)]"}
        ck.require(got == need, "C07.R2", epl, n.stmt, ok="max rate capped by the session's own EVSE limit", bad=f"enforce_pilot_limit stores min over {sorted(got) if got else None}; needs {sorted(need)}",
                   sink="epl:min")
        loops = [t for t, lab in el.cfg.edges_dominating(n) if t.kind == "for" and lab is True]
        ck.require(len(loops) == 1 and canon(loops[0].stmt.iter) == epl.params[0] and not [t for t, lab in el.cfg.edges_dominating(n) if t.kind == "test"], "C07.R2", epl, n.stmt,
                   ok="for every session", bad="the pilot limit is not enforced for every session", sink="epl:all")
    aub = anchored_fn(repo, "apply_upper_bound_estimate", ("new_sessions", "upper_bounds"))
    al = flow_of(aub)
    st = [n for n in al.cfg.nodes if n.kind == "stmt" and isinstance(n.stmt, ast.Assign) and any(dotted(t) == "session.max_rates" for t in n.stmt.targets)]
    ck.require(len(st) == 1, "C07.R2", aub, "session.max_rates = minimum(...)", bad=f"{len(st)} stores of max_rates in apply_upper_bound_estimate", sink="aub:stores")
    for n in st:
        ex = al.expand(n.stmt.value, n)
        got = min_args(ex)
        ok = got is not None and "session.max_rates" in got and any("get_maximum_rates" in g and ".get(session.session_id" in g for g in got)
        ck.require(ok, "C07.R2", aub, n.stmt, ok="max rate capped by the estimator's bound for this session", bad="apply_upper_bound_estimate does not store min(session max, estimator bound of the session)",
                   sink="aub:min")
    sr = repo.fn("SimpleRampdown.get_maximum_rates")
    sl = flow_of(sr)
    stores = [n for n in sl.cfg.nodes if n.kind == "stmt" and isinstance(n.stmt, ast.Assign) and isinstance(n.stmt.targets[0], ast.Subscript)
              and canon(n.stmt.targets[0].value) == "self.upper_bounds"]
    ck.floor("C07.R2", len(stores), 2, "stores into SimpleRampdown.upper_bounds")
    for n in stores:
        ex = sl.expand(n.stmt.value, n)
        s = canon(ex)
        init = s == "self.interface.max_pilot_signal(session.station_id)"
        clipped = False
        for a in alts_deep(ex, limit=8):
            x = a
            while isinstance(x, ast.Call) and call_name(x) in ("float",):
                x = x.args[0]
            if isinstance(x, ast.Call) and call_name(x) == "clip":
                kw = {k.arg: canon(k.value) for k in x.keywords}
                pos = [canon(p) for p in x.args[1:]]
                lo = kw.get("a_min", pos[0] if pos else None)
                hi = kw.get("a_max", pos[1] if len(pos) > 1 else None)
                clipped = lo == "0" and hi == "self.interface.max_pilot_signal(session.station_id)"
            else:
                clipped = False
                break
        ck.require(init or clipped, "C07.R2", sr, n.stmt, ok="bound is the EVSE maximum or clipped into [0, EVSE maximum]", bad=f"the rampdown bound `{s[:80]}` is stored without being clipped into [0, max_pilot_signal(station)]",
                   sink="rampdown:clip")


def bisection_roles(repo):
    """(FuncInfo, Flow, lo, hi, index-argument-position or None) of the nested bisection: roles are taken from its own structure -
    the stop test `hi - lo <= eps` - not from parameter positions, so unused parameters may come and go."""
    bi = repo.fn("SortedSchedulingAlgo.max_feasible_rate.bisection")
    bl = flow_of(bi)
    lo = hi = None
    for n in bl.cfg.nodes:
        if n.kind == "test":
            c = cmp_norm(n.expr)
            if c and c[1] in ("<=", "<"):
                d = linear(c[0], norm=canon) - linear(c[2], norm=canon)
                ps = {k: v for k, v in d.t.items() if k in bi.params}
                if len(ps) == 2 and sorted(ps.values()) == [-1, 1] and "eps" in d.t:
                    hi = [k for k, v in ps.items() if v == 1][0]
                    lo = [k for k, v in ps.items() if v == -1][0]
    if lo is None:
        raise AnalysisError("bisection: stop test `upper - lower <= eps` not found (cannot tell the two ends apart)")
    return bi, bl, lo, hi


def rule_tentative(ck):
    repo = ck.repo
    sa = anchored_fn(repo, "SortedSchedulingAlgo.sorting_algorithm", ("schedule", "queue"), loops_over=("queue",))
    fl = flow_of(sa)
    cfg = fl.cfg
    stores = [n for n in cfg.nodes if n.kind == "stmt" and isinstance(n.stmt, ast.Assign) and isinstance(n.stmt.targets[0], ast.Subscript) and dotted(n.stmt.targets[0].value) == "schedule"]
    ck.floor("C07.R3", len(stores), 2, "stores into the greedy schedule array")
    for n in stores:
        ok_all = True
        for a in alts_deep(fl.expand(n.stmt.value, n), limit=8):
            s = canon(a)
            kind = None
            if isinstance(a, ast.Call) and call_name(a) in ("max_feasible_rate", "discrete_max_feasible_rate"):
                kind = "search"
            elif isinstance(a, ast.Constant) and a.value == 0:
                kind = "zero"
            elif s == "max(0, session.min_rates[0])":
                # lower bound: must be followed by the infeasibility raise before any return
                rs = [r for r in cfg.nodes if r.kind == "raise" and any(is_feasible_call(x) and not t for x, t in facts_at(fl, r))]
                kind = "lb" if rs and cfg.exit not in cfg.reach(n, avoid={e for e in cfg.nodes if e.kind == "test" and any(is_feasible_call(x) for x in ast.walk(e.expr))}) else None
            ck.require(kind is not None, "C07.R3", sa, n.stmt, ok=f"stored value is {kind}", bad=f"`{s[:70]}` is written into the schedule without a feasibility search or check", sink="greedy:store")
    # the search is told about the schedule so far and the right station
    for nm in ("max_feasible_rate", "discrete_max_feasible_rate"):
        callee = repo.fn(f"SortedSchedulingAlgo.{nm}")
        for n, c in calls_in(fl, nm):
            b = bind_args(c, callee, method=False)
            ok = dotted(b.get("schedule")) == "schedule" and dotted(b.get("infrastructure")) == sa.params[2] and \
                canon(fl.expand(b.get("station_index", ast.Constant(None)), n)) == "infrastructure.get_station_index(session.station_id)"
            ck.require(ok, "C07.R3", sa, c, ok="search over the shared schedule at the session's own station", bad=f"{nm} is not called with (station index of the session, ..., schedule, infrastructure)",
                       sink=f"greedy:{nm}:args")
            st = [s_ for s_ in stores if s_ in cfg.reach(n)]
            ok = any(canon(fl.expand(s_.stmt.targets[0].slice, s_)) == "infrastructure.get_station_index(session.station_id)" for s_ in st)
            ck.require(ok, "C07.R3", sa, c, ok="result stored at the same station", bad="the search result is not stored at the session's station index", sink=f"greedy:{nm}:store-index")
    # dispatch R4
    for n, c in calls_in(fl, "max_feasible_rate"):
        fs = [(canon(fl.expand(a, n)), t) for a, t in facts_at(fl, n)]
        ck.require(("infrastructure.is_continuous[infrastructure.get_station_index(session.station_id)]", True) in fs, "C07.R4", sa, c, ok="bisection for continuous EVSEs",
                   bad="the bisection is not guarded by infrastructure.is_continuous[station_index]", sink="dispatch:continuous")
    for n, c in calls_in(fl, "discrete_max_feasible_rate"):
        fs = [(canon(fl.expand(a, n)), t) for a, t in facts_at(fl, n)]
        ck.require(("infrastructure.is_continuous[infrastructure.get_station_index(session.station_id)]", False) in fs, "C07.R4", sa, c, ok="level search for finite-rate EVSEs",
                   bad="the discrete search is not on the not-continuous edge", sink="dispatch:discrete")
    # max_feasible_rate
    mf = anchored_fn(repo, "SortedSchedulingAlgo.max_feasible_rate", (), nested=True)
    ml = flow_of(mf)
    # the working copy of the schedule the candidate rate is written into, whatever it is called
    if not [nm for nd in ml.cfg.nodes for nm, how in ml._defs.get(nd, {}).items() if how[0] == "assign" and how[1] is not None
            and canon(how[1]) in ("copy(schedule)", "schedule.copy()", "np.copy(schedule)", "np.array(schedule)", "deepcopy(schedule)")]:
        raise AnalysisError("SortedSchedulingAlgo.max_feasible_rate was restructured: no working copy of the schedule (copy(schedule)) the candidate rate is written into")
    for r in [n for n in ml.cfg.nodes if n.kind == "return"]:
        s = canon(r.expr)
        if s == "ub":
            fs = [(a, t) for a, t in facts_through_temps(ml, r) if is_feasible_call(a)]
            ok = False
            for a, t in fs:
                if t and a.args:
                    nm = base_array(ml, a.args[0], r) if a.args else None
                    sts = [n for n in ml.cfg.nodes if n.kind == "stmt" and isinstance(n.stmt, ast.Assign) and isinstance(n.stmt.targets[0], ast.Subscript)
                           and dotted(n.stmt.targets[0].value) == nm and canon(n.stmt.targets[0].slice) == "station_index" and canon(n.stmt.value) == "ub" and ml.cfg.dominates(n, r)]
                    cp = canon(ml.expand(ast.Name(id=nm, ctx=ast.Load()), r)) in ("copy(schedule)", "schedule.copy()", "np.copy(schedule)", "np.array(schedule)")
                    ok = ok or (bool(sts) and cp)
            ck.require(ok, "C07.R3", mf, r.stmt, ok="ub returned only after a schedule containing ub was found feasible", bad="`return ub` is not on the feasible edge of a check of a copy of the schedule with ub written at the station",
                       sink="mfr:ub")
        elif isinstance(r.expr, ast.Call) and call_name(r.expr) == "bisection":
            bi0, _bl0, lo0, hi0 = bisection_roles(repo)
            b0 = bind_args(r.expr, bi0, method=False)
            a = {k: canon(v) for k, v in b0.items()}
            ok = a.get(lo0) == "lb" and a.get(hi0) == "ub" and all(v in ("station_index", "schedule", "lb", "ub") for v in a.values())
            ck.require(ok, "C07.R3", mf, r.expr, ok="bisect [lb, ub] at the station", bad=f"bisection called with {a}", sink="mfr:bisect-args")
        else:
            # recognised and wrong: the value is built from the interval's ends / a constant as this function knows them (an unproved end, a
            # midpoint, lb itself).  A local the rule cannot trace to those (the running lower end of a search written as a loop, say) is a
            # search shape it does not read: no verdict
            ex_ = ml.expand(r.expr, r)
            names_ = {x.id for x in ast.walk(ex_) if isinstance(x, ast.Name)}
            opaque_ = any(isinstance(x, ast.Call) and call_name(x) in ("__phi__", "__loop__", "__unk__", "__gamma__") for x in ast.walk(ex_))
            if opaque_ or not names_ <= {"ub", "lb", "eps", "schedule", "station_index", "infrastructure", "np", "self"}:
                raise AnalysisError(f"max_feasible_rate: the search that produces the returned value `{s}` is not one the rule reads")
            ck.violation("C07.R3", mf, r.stmt, f"max_feasible_rate returns `{s}`: only ub (proved feasible) or the bisection's lower end may be returned", sink="mfr:return")
    pre = [n for n in ml.cfg.nodes if n.kind == "raise"]
    ck.require(any(any(is_feasible_call(a) and not t for a, t in facts_through_temps(ml, r)) for r in pre), "C07.R3", mf, "initial feasibility check", ok="refuses to search from an infeasible schedule",
               bad="max_feasible_rate no longer rejects an infeasible starting schedule", sink="mfr:initial")
    bi, bl, lo, hi = bisection_roles(repo)
    idx_ok = ("station_index",) + tuple(p for p in bi.params if p not in (lo, hi))
    mids = {f"({hi} + {lo}) / 2", f"({lo} + {hi}) / 2"}
    for r in [n for n in bl.cfg.nodes if n.kind == "return"]:
        e = r.expr
        if isinstance(e, ast.Call) and call_name(e) == "bisection":
            bb = bind_args(e, bi, method=False)
            al, ah = canon(bl.expand(bb[lo], r)) if lo in bb else None, canon(bl.expand(bb[hi], r)) if hi in bb else None
            a = [None, al, ah]
            feas = [t_ for a_, t_ in facts_through_temps(bl, r) if is_feasible_call(a_)]
            if feas and feas[-1]:
                ok = al in mids and ah == hi
                ck.require(ok, "C07.R3", bi, e, ok="feasible: the lower end moves up to mid", bad=f"on the feasible edge the bisection continues with ({a[1]}, {a[2]}): the lower end must move to mid and the upper stay",
                           sink="bisect:feasible-edge")
            elif feas:
                ok = al == lo and ah in mids
                ck.require(ok, "C07.R3", bi, e, ok="infeasible: the upper end moves down to mid", bad=f"on the infeasible edge the bisection continues with ({a[1]}, {a[2]}): the upper end must move to mid",
                           sink="bisect:infeasible-edge")
            else:
                ck.violation("C07.R3", bi, e, "recursive step not decided by a feasibility check", sink="bisect:unchecked")
        else:
            ck.require(canon(e) == lo, "C07.R3", bi, r.stmt, ok="returns its lower end (always feasible)", bad=f"the bisection returns `{canon(e)}`; only the lower end is known feasible", sink="bisect:return")
    chk = [(n, c) for n, c in calls_in(bl, FEAS)]
    for cn_, c in chk:
        nm = base_array(bl, c.args[0], cn_) if c.args else None
        sts = [n for n in bl.cfg.nodes if n.kind == "stmt" and isinstance(n.stmt, ast.Assign) and isinstance(n.stmt.targets[0], ast.Subscript) and dotted(n.stmt.targets[0].value) == nm]
        ok = bool(sts) and all(canon(n.stmt.targets[0].slice) in idx_ok and canon(bl.expand(n.stmt.value, n)) in mids for n in sts)
        ck.require(ok, "C07.R3", bi, c, ok="the checked schedule holds mid at the station", bad="the schedule checked by the bisection does not hold the midpoint at the station index", sink="bisect:checked-schedule")
    # discrete search: typestate over the working copy (value written at the station x what the feasibility check said about it)
    from .discrete import rule_discrete_search
    rule_discrete_search(ck, rid_safe="C07.R3", which=("safe",))
    # round robin tentative / revert (facts and expanded values: robust to temporaries, guard clauses and inverted tests)
    rr = anchored_fn(repo, "RoundRobin.round_robin", ("schedule", "queue", "rate_idx", "allowable_pilots"))
    rl = flow_of(rr)
    rcfg = rl.cfg
    wh = [n for n in rcfg.nodes if n.kind == "test" and isinstance(n.stmt, ast.While)]
    if len(wh) != 1:
        raise AnalysisError("round_robin: expected one while loop")
    body = rcfg.loop_region(wh[0])
    # every path through one iteration, interpreted over (level index, schedule slot, copies of the schedule, oracle answers): the slot ends
    # at the next level only after the oracle accepted exactly that schedule, and otherwise at the current level (sa/props/rrstate.py)
    from .rrstate import check_iteration
    sess_defs = [n for n in body if n.kind == "stmt" and isinstance(n.stmt, ast.Assign) and isinstance(n.stmt.value, ast.Call) and call_name(n.stmt.value) == "popleft"
                 and isinstance(n.stmt.targets[0], ast.Name)]
    ivars = [n for n in body if n.kind == "stmt" and isinstance(n.stmt, ast.Assign) and isinstance(n.stmt.targets[0], ast.Name)
             and isinstance(n.stmt.value, ast.Call) and call_name(n.stmt.value) == "get_station_index"]
    if len(sess_defs) != 1 or len(ivars) != 1:
        raise AnalysisError("round_robin: the dequeued session / its station index are not bound once in the loop body")
    names = {"out": "schedule", "idx": "rate_idx", "ladders": "allowable_pilots", "queue": "queue", "session": sess_defs[0].stmt.targets[0].id,
             "ivar": ivars[0].stmt.targets[0].id}
    n_paths = check_iteration(ck, "C07.R3", rr, rl, wh[0], names)
    ck.count("paths through one round-robin iteration interpreted", n_paths)

def rule_output(ck):
    repo = ck.repo
    f = repo.fn("format_array_schedule")
    fl = flow_of(f)
    arr, infra = f.params[:2]
    # the returned mapping, def-use expanded: a dict filled in a loop over the stations expands to the comprehension it computes, a
    # value chosen by if/else (or a local helper) to the conditional expression; the rule reads that one normal form
    from ..rules import gexpand, specialise, alts_deep
    rets = [n for n in fl.cfg.nodes if n.kind == "return" and n.expr is not None]
    ck.floor("C07.R6", len(rets), 1, "stores into the output mapping")
    for r in rets:
        e = gexpand(fl, r.expr, r)
        if not (isinstance(e, ast.DictComp) and len(e.generators) == 1):
            raise AnalysisError(f"format_array_schedule: construction of the returned mapping not recognised: {src(e, 80)}")
        g = e.generators[0]
        it = canon(g.iter)
        pos = sid = None
        if it == f"enumerate({infra}.station_ids)" and isinstance(g.target, ast.Tuple) and len(g.target.elts) == 2 and all(isinstance(x, ast.Name) for x in g.target.elts):
            pos, sid = g.target.elts[0].id, g.target.elts[1].id
            cell_forms = (f"{arr}[{pos}]",)
        elif it in (f"range(len({infra}.station_ids))", f"range({infra}.num_stations)") and isinstance(g.target, ast.Name):
            pos = g.target.id
            sid = f"{infra}.station_ids[{pos}]"
            cell_forms = (f"{arr}[{pos}]",)
        elif it in (f"zip({infra}.station_ids, {arr})",) and isinstance(g.target, ast.Tuple) and len(g.target.elts) == 2 and all(isinstance(x, ast.Name) for x in g.target.elts):
            sid, pos = g.target.elts[0].id, None
            cell_forms = (g.target.elts[1].id,)
        ck.require(sid is not None, "C07.R6", f, g.iter, ok="one iteration per network station",
                   bad="format_array_schedule does not enumerate every station of the infrastructure", sink="format:iter")
        if sid is None:
            continue
        ck.require(not g.ifs, "C07.R6", f, g.ifs[0] if g.ifs else "every station gets an entry", ok="no station skipped",
                   bad="some station can be left out of the schedule (conditional store)", sink="format:all")
        ok = canon(e.key) == sid and any(cf in canon(e.value) for cf in cell_forms)
        ck.require(ok, "C07.R6", f, e.key, ok="station id -> the array entry at the same position", bad="the output maps a station to an entry of another position", sink="format:pairing")
        # the entry is handed on unchanged: a scalar becomes the one-period list [x], a row its own list - never repeated, scaled or padded
        # (the bounds of R2 - remaining demand, estimator bound - are computed for exactly the periods the algorithm returned)
        vals = alts_deep(specialise(e.value, {}), limit=8) if ("__gamma__" in canon(e.value) or "__phi__" in canon(e.value)) else [e.value]
        flat = []
        for v in vals:
            stack = [v]
            while stack:
                x = stack.pop()
                if isinstance(x, ast.IfExp):
                    stack += [x.body, x.orelse]
                else:
                    flat.append(x)
        for v in flat:
            exact = any(canon(v) in (f"[{cell}]", f"{cell}.tolist()", f"list({cell})") for cell in cell_forms)
            ck.require(exact, "C07.R6", f, v, ok="the entry is passed on as computed (one period for a one-dimensional schedule)",
                       bad=f"the output entry `{src(v, 70)}` is not the computed entry itself: a one-period rate held for several periods exceeds the per-period bounds "
                           f"it was computed under", sink="format:exact")
    for q, alg in (("SortedSchedulingAlgo.sorting_algorithm", "sorting_algorithm"), ("RoundRobin.round_robin", "round_robin")):
        g = anchored_fn(repo, q, ("schedule",))
        gl = flow_of(g)
        init = [n for n in gl.cfg.nodes if n.kind == "stmt" and isinstance(n.stmt, (ast.Assign, ast.AnnAssign)) and
                any(dotted(t) == "schedule" for t in (n.stmt.targets if isinstance(n.stmt, ast.Assign) else [n.stmt.target]))]
        ok = len(init) == 1 and canon(gl.expand(init[0].stmt.value, init[0])) in ("np.zeros(infrastructure.num_stations)", "np.zeros(len(infrastructure.station_ids))")
        ck.require(ok, "C07.R6", g, init[0].stmt if init else "schedule = np.zeros(...)", ok="schedule starts at 0 for every station and is never re-created",
                   bad="the schedule array is not initialised once as zeros(num_stations): stations without a session may not get 0", sink=f"{alg}:zeros")
        for r in [n for n in gl.cfg.nodes if n.kind == "return"]:
            ck.require(dotted(r.expr) == "schedule", "C07.R6", g, r.stmt, ok="returns the array", bad=f"{alg} does not return the schedule array", sink=f"{alg}:return")


def rule_units(ck, rid="C07.R7"):
    repo = ck.repo
    for q in ("Interface._convert_to_amp_periods", "Interface.remaining_amp_periods", "remaining_amp_periods", "remove_finished_sessions",
              "apply_minimum_charging_rate"):
        check_units(ck, rid, repo.fn(q), UNITS[q])


def rule_index(ck):
    repo = ck.repo
    n = 0
    for f in repo.all_functions():
        if "/tests/" in f.module or "/algorithms/" not in f.module:
            continue
        t, u = index_check(ck, "C07.R5", f)
        n += t
    ck.floor("C07.R5", n, 50, "typed index sites in acnportal/algorithms")


def run(ck):
    ck.attempt(rule_pipeline)
    ck.attempt(rule_pre_details)
    ck.attempt(rule_bounds)
    ck.attempt(rule_tentative)
    ck.attempt(rule_output)
    ck.attempt(rule_units)
    ck.attempt(rule_index)
    from .c06 import rule_utils, rule_row_acceptance
    rule_utils(ck)       # the checker the algorithms rely on: no shortcut acceptance, every row, every period (rule ids C06.*)
    ck.attempt(rule_row_acceptance, rid="C07.R8")
    # "feasible for the network": the infrastructure description handed to the algorithms is computed from the network as it is now and
    # is the caller's own copy (shared with C05)
    from .c05 import rule_stateless_view, rule_escape
    ck.attempt(rule_stateless_view, rid="C07.R9")
    ck.attempt(rule_escape, rid="C07.R9")
    # "a pilot the EVSE accepts": the level ladders the algorithms pick from are the network's cache of each EVSE's own allowable pilots
    # (cache rule of C13)
    from .c13 import rule_cache
    ck.attempt(rule_cache, rid="C07.R10")
    # "feasible for the network": same default tolerances on both sides (sibling-defaults rule of C06; reports under its C06 ids)
    from .c06 import rule_defaults
    ck.attempt(rule_defaults)



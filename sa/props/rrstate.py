"""Path interpreter for one iteration of the round-robin loop (C07.R3 / C08.R4).

The protocol "raise the dequeued session by one level if that is feasible, otherwise leave it where it is and drop it from the queue"
can be written in many ways - tentative store and revert, a flag set under try/finally, a probe on a copy that is committed on success,
the next index kept in a temporary.  What all of them share is the *state at the end of an iteration* on every path through the loop
body; that is what is decided here.  Every acyclic path from the loop head back to it is executed over a small abstract store:

    index      rate_idx[i] as  k0 + d              (k0 = its value when the iteration starts)
    level      a value  L[k0 + c]  of the session's own level ladder L = allowable_pilots[i]
    arrays     `schedule` and copies of it, each with what its slot [i] holds (None = untouched, i.e. L[k0] by the loop invariant)
    checks     calls of the feasibility oracle, with the array they looked at and what its slot [i] held then
    gate       comparisons of the index with len(L), normalised to  `k0 + m < len(L)`

and the path is classified: *advance* (d = 1, schedule[i] = L[k0+1], the session re-queued once, the oracle said yes to exactly that
schedule), *blocked* (d = 0, schedule[i] = L[k0] or untouched, not re-queued, the oracle said no to the schedule with L[k0+1]), *top*
(d = 0, untouched, not re-queued, no next level: not k0 + 1 < len(L)).  A path that ends in any other state is recognised and wrong;
a statement the interpreter does not model makes the whole answer `not recognised` (AnalysisError).  Nothing is executed."""
import ast
import itertools

from ..core import AnalysisError, dotted, call_name, src

SILENT = {"warn", "debug", "info", "warning", "print", "_print", "format", "isinstance", "str", "repr"}


class V:
    __slots__ = ("k", "a", "b")

    def __init__(self, k, a=None, b=None):
        self.k, self.a, self.b = k, a, b

    def __repr__(self):
        return f"{self.k}({self.a}{'' if self.b is None else ', ' + str(self.b)})"

    def same(self, o):
        return isinstance(o, V) and (self.k, self.a, self.b) == (o.k, o.a, o.b)


OPQ = lambda t: V("opaque", t)


class Unmodelled(Exception):
    pass


class Infeasible(Exception):
    pass


class _State:
    def __init__(self, out_arr, ivar, idx_name, ladder, queue, session):
        self.out_arr, self.ivar, self.idx_name, self.ladder, self.queue, self.session = out_arr, ivar, idx_name, ladder, queue, session
        self.env = {}
        self.arrays = {out_arr: {"base": out_arr, "i": None}}
        self.d = 0
        self.appended = 0
        self.checks = {}             # id -> (array name, base, slot value, d)
        self.verdicts = {}           # id -> truth
        self.gates = []              # (m, truth)
        self.ids = itertools.count(1)
        self.trace = []

    # ---- expressions
    def is_i(self, e):
        return isinstance(e, ast.Name) and (e.id == self.ivar or (e.id in self.env and self.env[e.id].k == "ivar"))

    def ev(self, e):
        if isinstance(e, ast.Constant):
            return V("const", e.value)
        if isinstance(e, ast.Name):
            if e.id in self.env:
                return self.env[e.id]
            if e.id in self.arrays:
                return V("arr", e.id)
            if e.id == self.ivar:
                return V("ivar")
            if e.id == self.ladder:
                return V("ladders")
            if e.id == self.idx_name:
                return V("idxarr")
            if e.id == self.session:
                return V("session")
            return OPQ(e.id)
        if isinstance(e, ast.UnaryOp) and isinstance(e.op, ast.Not):
            v = self.ev(e.operand)
            if v.k == "const":
                return V("const", not v.a)
            return V("not", v)
        if isinstance(e, ast.UnaryOp) and isinstance(e.op, ast.USub):
            v = self.ev(e.operand)
            return V("const", -v.a) if v.k == "const" and isinstance(v.a, (int, float)) else OPQ(src(e))
        if isinstance(e, ast.Subscript):
            base = self.ev(e.value)
            if base.k == "idxarr" and self.is_i(e.slice):
                return V("lin", self.d)
            if base.k == "ladders" and self.is_i(e.slice):
                return V("L")
            if base.k == "L":
                ix = self.ev(e.slice)
                if ix.k == "lin":
                    return V("level", ix.a)
                if ix.k == "const" and isinstance(ix.a, int):
                    return V("abslevel", ix.a)
                return OPQ(src(e))
            if base.k == "arr" and self.is_i(e.slice):
                slot = self.arrays[base.a]["i"]
                return slot if slot is not None else V("level", 0) if base.a == self.out_arr or self.arrays[base.a]["base"] == self.out_arr else OPQ(src(e))
            return OPQ(src(e))
        if isinstance(e, ast.BinOp) and isinstance(e.op, (ast.Add, ast.Sub)):
            l, r = self.ev(e.left), self.ev(e.right)
            sg = 1 if isinstance(e.op, ast.Add) else -1
            if l.k in ("lin", "len") and r.k == "const" and isinstance(r.a, int) and not isinstance(r.a, bool):
                return V(l.k, l.a + sg * r.a)
            if l.k == "const" and isinstance(l.a, int) and r.k in ("lin", "len") and sg == 1:
                return V(r.k, r.a + l.a)
            if l.k == "const" and r.k == "const" and all(isinstance(x, (int, float)) for x in (l.a, r.a)):
                return V("const", l.a + sg * r.a)
            return OPQ(src(e))
        if isinstance(e, ast.Call):
            nm = call_name(e)
            if nm == "len" and len(e.args) == 1 and self.ev(e.args[0]).k == "L":
                return V("len", 0)
            if nm == "bool" and len(e.args) == 1:
                return self.ev(e.args[0])
            if nm == "infrastructure_constraints_feasible" and e.args:
                a = self.ev(e.args[0])
                if a.k != "arr":
                    raise Unmodelled(f"the feasibility oracle is asked about `{src(e.args[0])}`, which is not the schedule or a copy of it")
                cid = next(self.ids)
                st = self.arrays[a.a]
                self.checks[cid] = (a.a, st["base"], st["i"], self.d)
                return V("feas", cid)
            if (nm in ("copy", "deepcopy", "array") and len(e.args) == 1 and self.ev(e.args[0]).k == "arr") or \
                    (nm == "copy" and isinstance(e.func, ast.Attribute) and not e.args and self.ev(e.func.value).k == "arr"):
                srcarr = self.ev(e.args[0] if e.args else e.func.value)
                return V("copyof", srcarr.a)
            if nm == "get_station_index":
                return V("ivar")
            return OPQ(src(e))
        if isinstance(e, ast.Compare) and len(e.ops) == 1:
            l, r, op = self.ev(e.left), self.ev(e.comparators[0]), e.ops[0]
            if l.k == "lin" and r.k == "len" and isinstance(op, (ast.Lt, ast.LtE, ast.Gt, ast.GtE)):
                a, b = l.a, r.a
                if isinstance(op, ast.Lt):
                    return V("hasnext", a - b, False)
                if isinstance(op, ast.LtE):
                    return V("hasnext", a - b - 1, False)
                if isinstance(op, ast.GtE):
                    return V("hasnext", a - b, True)            # not (k0+a < len+b)
                return V("hasnext", a - b - 1, True)            # k0+a > len+b  <=>  not (k0+a <= len+b)
            if l.k == "len" and r.k == "lin" and isinstance(op, (ast.Lt, ast.LtE, ast.Gt, ast.GtE)):
                flip = {ast.Lt: ast.Gt, ast.LtE: ast.GtE, ast.Gt: ast.Lt, ast.GtE: ast.LtE}[type(op)]()
                return self.ev(ast.Compare(left=e.comparators[0], ops=[flip], comparators=[e.left]))
            if l.k == "len" and r.k == "const" and isinstance(r.a, int) and l.a == 0 and isinstance(op, (ast.Gt, ast.NotEq)) and r.a == 0:
                return OPQ("nonempty-ladder")
            if l.k == "const" and r.k == "const":
                try:
                    return V("const", {ast.Lt: l.a < r.a, ast.LtE: l.a <= r.a, ast.Gt: l.a > r.a, ast.GtE: l.a >= r.a, ast.Eq: l.a == r.a, ast.NotEq: l.a != r.a}[type(op)])
                except (KeyError, TypeError):
                    return OPQ(src(e))
            if isinstance(op, (ast.Is, ast.IsNot)) and r.k == "const" and r.a is None and l.k in ("feas",):
                return OPQ(src(e))
            return OPQ(src(e))
        return OPQ(src(e))

    # ---- statements
    def tracked_names(self):
        return set(self.arrays) | {self.idx_name, self.ladder, self.queue} | {k for k, v in self.env.items() if v.k in ("L", "arr")}

    def mentions_tracked(self, node):
        tn = self.tracked_names()
        return any(isinstance(x, ast.Name) and x.id in tn for x in ast.walk(node))

    def assign(self, t, value_node, stmt):
        if isinstance(t, ast.Name):
            v = self.ev(value_node)
            if v.k == "copyof":
                self.arrays[t.id] = {"base": self.arrays[v.a]["base"], "i": self.arrays[v.a]["i"]}
                self.env.pop(t.id, None)
                return
            if v.k == "arr":
                raise Unmodelled(f"`{src(stmt)[:60]}` makes a second name for the array `{v.a}`")
            if t.id in self.arrays and t.id != self.out_arr:
                del self.arrays[t.id]
            if t.id == self.out_arr:
                raise Unmodelled(f"`{src(stmt)[:60]}` rebinds the schedule array")
            self.env[t.id] = v
            return
        if isinstance(t, ast.Subscript):
            base = self.ev(t.value)
            if base.k == "arr" and self.is_i(t.slice):
                self.arrays[base.a]["i"] = self.ev(value_node)
                return
            if base.k == "idxarr" and self.is_i(t.slice):
                v = self.ev(value_node)
                if v.k != "lin":
                    raise Unmodelled(f"`{src(stmt)[:60]}`: the new level index is not the old one plus a constant")
                self.d = v.a
                return
            if base.k in ("arr", "idxarr", "ladders", "L"):
                raise Unmodelled(f"`{src(stmt)[:60]}` writes `{src(t.value)}` at another position than the dequeued session's station")
            if self.mentions_tracked(t):
                raise Unmodelled(f"store `{src(stmt)[:60]}` not modelled")
            return
        if isinstance(t, (ast.Tuple, ast.List)):
            raise Unmodelled(f"tuple store `{src(stmt)[:60]}` not modelled")
        if isinstance(t, ast.Attribute):
            return
        raise Unmodelled(f"store `{src(stmt)[:60]}` not modelled")

    def stmt(self, s):
        if isinstance(s, ast.Assign):
            for t in s.targets:
                self.assign(t, s.value, s)
        elif isinstance(s, ast.AugAssign):
            t = s.target
            if isinstance(t, ast.Subscript) and self.ev(t.value).k == "idxarr" and self.is_i(t.slice):
                v = self.ev(s.value)
                if not (isinstance(s.op, (ast.Add, ast.Sub)) and v.k == "const" and isinstance(v.a, int)):
                    raise Unmodelled(f"`{src(s)[:60]}`: step of the level index not a constant")
                self.d += v.a if isinstance(s.op, ast.Add) else -v.a
            elif isinstance(t, ast.Name) and t.id in self.env and self.env[t.id].k in ("lin", "len") and isinstance(s.op, (ast.Add, ast.Sub)):
                v = self.ev(s.value)
                if v.k != "const" or not isinstance(v.a, int):
                    raise Unmodelled(f"`{src(s)[:60]}` not modelled")
                self.env[t.id] = V(self.env[t.id].k, self.env[t.id].a + (v.a if isinstance(s.op, ast.Add) else -v.a))
            elif self.mentions_tracked(t):
                raise Unmodelled(f"`{src(s)[:60]}` not modelled")
        elif isinstance(s, ast.Expr):
            c = s.value
            if isinstance(c, ast.Call):
                nm = call_name(c)
                recv = dotted(c.func.value) if isinstance(c.func, ast.Attribute) else None
                if recv == self.queue:
                    if nm == "append" and len(c.args) == 1 and self.ev(c.args[0]).k == "session":
                        self.appended += 1
                        return
                    raise Unmodelled(f"queue operation `{src(c)[:50]}`")
                if nm in SILENT or not self.mentions_tracked(c):
                    return
                raise Unmodelled(f"call `{src(c)[:60]}` touches the working state")
            if isinstance(c, ast.Constant):
                return
            if self.mentions_tracked(c):
                raise Unmodelled(f"expression statement `{src(c)[:60]}`")
        elif isinstance(s, (ast.Pass, ast.Assert, ast.Import, ast.ImportFrom)):
            return
        else:
            raise Unmodelled(f"statement `{src(s)[:60]}` not modelled")

    def branch(self, test_expr, label):
        def go(e, want):
            if isinstance(e, ast.BoolOp):
                vals = e.values
                if (isinstance(e.op, ast.And) and want) or (isinstance(e.op, ast.Or) and not want):
                    for v in vals:
                        go(v, want)
                    return
                # a disjunction is known: decide it when all but one operand are constants
                rest = []
                for v in vals:
                    x = self.ev(v)
                    if x.k == "const":
                        if bool(x.a) == (not want) and isinstance(e.op, ast.And):
                            return          # this operand already makes the conjunction false
                        if bool(x.a) == (not want) and isinstance(e.op, ast.Or):
                            return
                        continue
                    rest.append(v)
                if len(rest) == 1:
                    go(rest[0], want)
                    return
                if any(self.mentions_tracked(v) or self.ev(v).k in ("feas", "hasnext") for v in rest):
                    raise Unmodelled(f"test `{src(e)[:60]}` combines several conditions on the working state")
                return
            v = self.ev(e)
            neg = False
            while v.k == "not":
                v, neg = v.a, not neg
            truth = want != neg
            if v.k == "const":
                if bool(v.a) != truth:
                    raise Infeasible()
                return
            if v.k == "feas":
                if v.a in self.verdicts and self.verdicts[v.a] != truth:
                    raise Infeasible()
                self.verdicts[v.a] = truth
                return
            if v.k == "hasnext":
                t = truth != bool(v.b)
                for m, t0 in self.gates:
                    if m == v.a and t0 != t:
                        raise Infeasible()
                self.gates.append((v.a, t))
                return
            if v.k == "opaque" and self.mentions_tracked(e) and v.a != "nonempty-ladder":
                raise Unmodelled(f"test `{src(e)[:60]}` on the working state is not one the interpreter reads")
        go(test_expr, label)


def iteration_paths(cfg, head):
    """acyclic paths from the loop head's body edge back to the head (normal iterations); paths leaving the loop are reported apart"""
    body_edge = [s for s in head.succ if s.kind == "edge" and s.label][0]
    back, leave = [], []
    stack = [(body_edge, (body_edge,))]
    while stack:
        n, path = stack.pop()
        for s in n.succ:
            if s is head:
                back.append(path)
            elif s is cfg.raise_exit or s.kind == "raise":
                continue
            elif s is cfg.exit or s.kind in ("return", "break"):
                leave.append(path + (s,))
            elif s.kind == "except":
                continue
            elif s in path:
                raise AnalysisError("round robin: inner loop in the loop body")
            else:
                stack.append((s, path + (s,)))
        if len(back) + len(stack) > 400:
            raise AnalysisError("round robin: too many paths through the loop body")
    return back, leave


def check_iteration(ck, rid, f, fl, head, names):
    """names: dict(out=.., ivar=.., idx=.., ladders=.., queue=.., session=..).  Emits the verdicts; returns the number of paths read."""
    cfg = fl.cfg
    back, leave = iteration_paths(cfg, head)
    kinds = {}
    n_read = 0
    for path in back:
        st = _State(names["out"], names["ivar"], names["idx"], names["ladders"], names["queue"], names["session"])
        try:
            for n in path:
                if n.kind == "edge":
                    if n.test is head:
                        continue
                    if n.test.kind == "test":
                        st.branch(n.test.expr, n.label)
                    elif n.test.kind == "for":
                        raise Unmodelled("a for loop inside the round-robin iteration")
                elif n.kind == "stmt":
                    s = n.stmt
                    if isinstance(s, ast.Expr) and isinstance(s.value, ast.Call) and call_name(s.value) == "popleft" and isinstance(s.value.func, ast.Attribute) \
                            and dotted(s.value.func.value) == names["queue"]:
                        continue
                    if isinstance(s, ast.Assign) and isinstance(s.value, ast.Call) and call_name(s.value) in ("popleft", "pop") and isinstance(s.value.func, ast.Attribute) \
                            and dotted(s.value.func.value) == names["queue"]:
                        continue            # the dequeue itself is judged by the caller
                    st.stmt(s)
                elif n.kind in ("test", "continue", "with", "def"):
                    continue
        except Infeasible:
            continue
        except Unmodelled as e:
            raise AnalysisError(f"{f.qual}: round-robin iteration not recognised: {e}")
        n_read += 1
        out = st.arrays[names["out"]]["i"]
        slot = "same" if out is None or (out.k == "level" and out.a == 0) else ("next" if out.k == "level" and out.a == 1 else repr(out))
        yes = [cid for cid, t in st.verdicts.items() if t]
        no = [cid for cid, t in st.verdicts.items() if not t]

        def probed_next(cid):
            arr, base, slot_v, d_at = st.checks[cid]
            return base == names["out"] and slot_v is not None and slot_v.k == "level" and slot_v.a == 1
        gate_next = [t for m, t in st.gates if m == 1]
        off = [m for m, t in st.gates if m != 1]
        where = next((n.stmt for n in reversed(path) if n.kind == "stmt"), head.stmt)
        if off:
            ck.violation(rid, f, where, f"the test for a next level compares the level index shifted by {off[0] - 1}: it must be exactly `index + 1 < number of levels`",
                         sink="rr:gate-offset", positive=True)
            continue
        desc = f"index {'+' + str(st.d) if st.d else 'unchanged'}, schedule slot {slot}, re-queued {st.appended}x, oracle yes={len(yes)} no={len(no)}, next level exists={gate_next or '?'}"
        if st.d == 1 and slot == "next" and st.appended == 1 and len(yes) >= 1 and not no and all(probed_next(c) for c in yes) and gate_next == [True]:
            kinds.setdefault("advance", []).append(path)
        elif st.d == 0 and slot == "same" and st.appended == 0 and len(no) >= 1 and not yes and all(probed_next(c) for c in no) and gate_next == [True]:
            kinds.setdefault("blocked", []).append(path)
        elif st.d == 0 and slot == "same" and st.appended == 0 and not st.verdicts and gate_next == [False]:
            kinds.setdefault("top", []).append(path)
        else:
            ck.violation(rid, f, where, f"an iteration of the round robin can end with: {desc} - that is none of `raised by one level after the oracle accepted exactly that "
                         f"schedule, and re-queued`, `left at its level after the oracle refused the next one, and dropped`, `at its last level, dropped`",
                         sink=f"rr:iteration:{'d' + str(st.d)}:{slot}:{st.appended}:{len(yes)}:{len(no)}", positive=True)
    for k, what in (("advance", "a path that raises the session by one level"), ("blocked", "a path for an infeasible next level"), ("top", "a path for a session at its last level")):
        if k in kinds:
            ck.holds(rid, f, head.stmt, f"{what}: state at the end of the iteration as required ({len(kinds[k])} path(s))")
        elif n_read:
            ck.violation(rid, f, head.stmt, f"the loop body has no {what.replace('a path', 'path')}", sink=f"rr:missing:{k}", positive=True)
    for path in leave:
        last = path[-1]
        ck.violation(rid, f, last.stmt if last.stmt is not None else head.stmt, "the round robin can be left from inside an iteration: when one session is blocked the others stop being raised",
                     sink="rr:loop-escape", positive=True)
    return n_read

"""C09 - interrupted, serialised and resumed runs equal the uninterrupted run (structural part)."""
import ast

from ..core import AnalysisError, dotted, call_name, src, walk_local, const_value
from ..flow import leaves
from ..rules import flow_of, inline_helpers, calls_in, bind_args, canon, state_writes, who_calls, facts_at, cmp_norm, mutating_calls
from ..serial import written_attrs, dump_table, restore_table, RESTORE_FUNCS

EXPLANATION = ("For every BaseSimObj subclass of the simulator core (Simulator, EventQueue, the event classes, ChargingNetwork, the EVSE "
               "classes, EV, the battery classes): the instance attributes written anywhere in the class hierarchy, the keys produced by "
               "_to_dict (following super()._to_dict) and the keys consumed by _from_dict/_from_dict_helper are the same set; each dumped "
               "value derives from the like-named attribute and each restored attribute / constructor argument is fed by the like-named "
               "key (no cross-wiring); every nested simulator object is dumped through _to_registry and loaded through _build_from_id; "
               "the registry memoises on id(self) before descending and records afterwards, the loader consults loaded_dict before "
               "constructing and records afterwards; every recursive call threads the accumulator (passes it and rebinds it from the "
               "result) and returns it; the pending-event heap is dumped and restored in array order without re-ordering; in run() no "
               "statement that consumes pending-work state (clearing the resolve flag, advancing the last-update period or the period "
               "counter, schedule history, pilot/rate matrices, network update) can execute in an iteration before the scheduler call, "
               "while the event pop and processing precede it; update_scheduler attaches a fresh Interface and copies max_recompute; the "
               "resumption-critical simulator attributes are all dumped and restored."
               " Added in round 3: JSON text keeps mapping insertion order (no sort_keys / object hooks), the whole attribute is dumped (no slice), the three protocol dictionaries are never passed in each other's place, constructors store every parameter under its own name and delegate to the parent constructor with like-named arguments.")
EXPLANATION += ' Added in rounds 4-5: the station mapping and per-station level lists are dumped and rebuilt by walking the original in its own order, unfiltered; the result of a restore helper that loads nested objects may not be dropped.'
NOT_DECIDED = ("equality of the resumed trajectory with the reference one; an interruption in the very last period (the queue is already "
               "empty, so the final iteration is not replayed); JSON-representability of user-supplied signals")

CORE = ("Simulator", "EventQueue", "Event", "EVEvent", "PluginEvent", "UnplugEvent", "RecomputeEvent", "ChargingNetwork",
        "BaseEVSE", "EVSE", "DeadbandEVSE", "FiniteRatesEVSE", "EV", "Battery", "Linear2StageBattery")
# named exception: contrib StochasticNetwork relies on the documented generic fallback of _to_registry/_from_registry
SKIP = {"StochasticNetwork": "contrib class, not anchored by C09; uses the generic attribute fallback"}

# attributes whose value is a simulator object (or a container of them): must go through the registry
NESTED = {
    "Simulator": {"network", "event_queue", "ev_history", "event_history"},
    "EventQueue": {"_queue"},
    "EVEvent": {"ev"}, "PluginEvent": {"ev"}, "UnplugEvent": {"ev"},
    "ChargingNetwork": {"_EVSEs"},
    "BaseEVSE": {"_ev"}, "EVSE": {"_ev"}, "DeadbandEVSE": {"_ev"}, "FiniteRatesEVSE": {"_ev"},
    "EV": {"_battery"},
}
RESUME_STATE = ("_iteration", "_resolve", "_last_schedule_update", "peak", "pilot_signals", "charging_rates", "ev_history",
                "event_history", "schedule_history", "event_queue", "network", "max_recompute", "period", "start")
# dumped-but-not-an-attribute / attribute-but-derived exceptions, one symbol each with the reason
DERIVED_OK = {
    ("Simulator", "scheduler"): "only the scheduler's class path is dumped (documented); the caller re-attaches it with update_scheduler",
}


def rule_agreement(ck, classes=None, rid="C09.R1", rid2="C09.R2"):
    repo = ck.repo
    n_cls = 0
    for cname in (classes or CORE):
        ci = repo.cls(cname)
        n_cls += 1
        attrs = written_attrs(repo, ci)
        dump = dump_table(repo, ci)
        # R1w the whole value is dumped: a slice / index of the attribute loses the rest of it
        for k, e in sorted(dump.items()):
            for ent in [e] + list(getattr(e, "alts", [])):
                v = ent.value
                part = [x for x in ast.walk(v) if isinstance(x, ast.Subscript) and isinstance(x.ctx, ast.Load) and (
                    (isinstance(x.value, ast.Call) and call_name(x.value) == "getattr" and x.value.args and dotted(x.value.args[0]) == "self") or
                    dotted(x.value) == f"self.{k}") and not (isinstance(x.slice, ast.Slice) and x.slice.lower is None and x.slice.upper is None and x.slice.step is None)]
                if part:
                    ck.violation(rid, ent.fn, ent.node.stmt if hasattr(ent.node, "stmt") else k,
                                 f"only a part of {cname}.{k} is dumped (`{src(part[0], 60)}`): whatever lies outside the slice - e.g. pilots already "
                                 f"scheduled for later periods - is lost on a round trip", sink=f"{cname}:{k}:partial-dump")
        try:
            rest, init_map = restore_table(repo, ci)
        except AnalysisError as e:
            ck.error(rid, f"{cname}: restore side not recognised: {e}")
            continue
        dkeys, akeys = set(dump), set(attrs)
        read_keys = {k for k, rs in rest.reads.items() if any(not legacy for _, _, legacy, _ in rs)}
        # R1a attributes = dumped keys
        for a in sorted(akeys - dkeys):
            f, node = attrs[a][0]
            ck.violation(rid, f, node, f"attribute {cname}.{a} is written but never dumped by _to_dict: a resumed/loaded object loses it "
                         f"(only a warning at dump time)", sink=f"{cname}:{a}:not-dumped")
        for k in sorted(dkeys - akeys):
            e = dump[k]
            ck.violation(rid, e.fn, e.node.stmt, f"_to_dict dumps key {k!r} which is not an instance attribute of {cname}", sink=f"{cname}:{k}:not-attr")
        for a in sorted(akeys & dkeys):
            ck.holds(rid, attrs[a][0][0], f"{cname}.{a}", "attribute is dumped")
        # R1b dumped keys are restored
        for k in sorted(dkeys - read_keys):
            e = dump[k]
            ck.violation(rid, e.fn, e.node.stmt, f"key {k!r} is dumped but {cname}._from_dict never reads it: the loaded object does not "
                         f"carry this state", sink=f"{cname}:{k}:not-restored")
        for k in sorted(read_keys - dkeys):
            f, node, legacy, guarded = [r for r in rest.reads[k] if not r[2]][0]
            if guarded:
                ck.note(f"{cname}._from_dict reads optional key {k!r} that _to_dict does not produce (guarded)")
                continue
            ck.violation(rid, f, node, f"_from_dict reads key {k!r} which {cname}._to_dict never produces (KeyError at load time)",
                         sink=f"{cname}:{k}:not-dumped-read")
        for k in sorted(dkeys & read_keys):
            ck.holds(rid, rest.reads[k][0][0], f"{cname}[{k!r}]", "dumped key is read back")
        # R1c same-name dump
        for k, e in sorted(dump.items()):
            if e.by_name:
                continue
            if (cname, k) in DERIVED_OK or (e.fn.cls.name, k) in DERIVED_OK:
                pass
            want = f"self.{k}"
            ok = want in e.roots
            ck.require(ok, rid, e.fn, e.node.stmt if hasattr(e.node, "stmt") else k, ok=f"dumped value of {k!r} derives from self.{k}",
                       bad=f"the value dumped under {k!r} derives from {sorted(e.roots) or 'no attribute'}, not from self.{k} (cross-wired field)",
                       sink=f"{e.fn.cls.name}:{k}:dump-source")
        for gf, gt, gk, gother in rest.wrong_guards:
            ck.violation(rid, gf, gt, f"the restore of {cname}[{gk!r}] is guarded by `{gk!r} in {gother}` - a different dictionary than the one the value is read "
                         f"from: the dumped value is never read back (the guard is never true for a dumped object)", sink=f"{cname}:{gk}:guard-other-dict", positive=True)
        # R1d same-name restore (keys only read on a legacy `except` compatibility path are not part of today's format)
        legacy_only = {k for k, rs in rest.reads.items() if all(r[2] for r in rs)}
        for kind, name, keys, build, f, node in rest.sinks:
            keys = keys - legacy_only
            if not keys:
                continue
            if kind in ("attr", "setattr"):
                ok = keys == {name}
                ck.require(ok, rid, f, node, ok=f"attribute {name} restored from key {name!r}",
                           bad=f"attribute {name} is restored from key(s) {sorted(keys)} (must be its own key {name!r})",
                           sink=f"{cname}:{name}:restore-source")
            else:
                accepted = set(init_map.get(name, ())) | {name, "_" + name}
                ok = keys <= accepted
                ck.require(ok, rid, f, node, ok=f"constructor argument {name} fed by key(s) {sorted(keys)}",
                           bad=f"constructor argument {name} (stored as {sorted(init_map.get(name, ()))}) is fed by key(s) {sorted(keys)}",
                           sink=f"{cname}:{name}:ctor-source")
        # every dumped key reaches the object: either a sink carries it or its attribute is set by the constructor from it
        sunk = set()
        for kind, name, keys, build, f, node in rest.sinks:
            sunk |= keys
        for k in sorted((dkeys & read_keys) - sunk):
            f, node, legacy, guarded = rest.reads[k][0]
            ck.violation(rid, f, node, f"key {k!r} is read but its value never reaches the restored {cname} object", sink=f"{cname}:{k}:read-dropped")
        # R2 nested objects through the registry
        for k in sorted(NESTED.get(cname, ())):
            if k not in dump:
                continue
            e = dump[k]
            ck.require(e.via_registry, rid2, e.fn, e.node.stmt if hasattr(e.node, "stmt") else k, ok=f"{k} is dumped through _to_registry (sharing preserved)",
                       bad=f"nested simulator object(s) under {k!r} are not dumped through _to_registry: object sharing is lost", sink=f"{cname}:{k}:dump-registry")
            sinks = [s for s in rest.sinks if k in s[2]]
            okb = bool(sinks) and all(s[3] for s in sinks)
            ck.require(okb, rid2, rest.funcs[0], sinks[0][5] if sinks else k, ok=f"{k} is loaded through _build_from_id (one shared object per id)",
                       bad=f"nested simulator object(s) under {k!r} are not loaded through _build_from_id", sink=f"{cname}:{k}:load-registry")
    if classes is not None:
        return
    ck.floor(rid, n_cls, 15, "core BaseSimObj classes analysed")
    # classes not in CORE
    for c in ck.repo.subclasses("BaseSimObj"):
        if c.name not in CORE and c.name not in SKIP and "/tests/" not in c.module:
            ck.error(rid, f"BaseSimObj subclass {c.name} ({c.module}) is not in the analysed table (re-anchor)")


def rule_ctor_identity(ck):
    """R2 (constructor side): a nested simulator object handed to a constructor is stored as-is (same object), so the object the
    loader obtained from the registry - shared with stations, histories and pending events - is the one the new object uses."""
    repo = ck.repo
    n = 0
    for cname, attrs in sorted(NESTED.items()):
        ci = repo.cls(cname)
        for c in repo.mro(ci):
            init = c.methods.get("__init__")
            if init is None:
                continue
            fl = flow_of(init)
            params = set(init.params[1:])
            for nd in fl.cfg.nodes:
                if nd.kind != "stmt" or not isinstance(nd.stmt, (ast.Assign, ast.AnnAssign)) or getattr(nd.stmt, "value", None) is None:
                    continue
                tg = nd.stmt.targets if isinstance(nd.stmt, ast.Assign) else [nd.stmt.target]
                for t in tg:
                    if isinstance(t, ast.Attribute) and dotted(t.value) == "self" and t.attr in attrs:
                        ex = fl.expand(nd.stmt.value, nd)
                        names = {x.id for x in ast.walk(ex) if isinstance(x, ast.Name)} & params
                        if not names:
                            continue         # initialised empty (histories, queues built inside)
                        n += 1
                        ck.require(isinstance(ex, ast.Name) and ex.id in params, "C09.R2", init, nd.stmt, ok=f"self.{t.attr} is the very object passed in",
                                   bad=f"`{src(nd.stmt, 70)}` stores a copy/transformation of the constructor argument: after a JSON load the object referenced from "
                                       f"{cname}.{t.attr} is no longer the one shared with the rest of the simulation", sink=f"{c.name}:{t.attr}:ctor-identity")
            break
    ck.floor("C09.R2", n, 4, "constructor stores of nested simulator objects")


def _acc_expr(fl, e, node, param, depth=6):
    """is `e` (at node) an accumulator value: the function's accumulator parameter, the accumulator element of an earlier registry
    call, the normalised parameter (_none_to_empty_dict), or a merge of such"""
    ex = fl.expand(e, node) if not isinstance(e, ast.Call) or not (call_name(e) or "").startswith("__") else e

    def ok(x, d):
        if d <= 0:
            return False
        if isinstance(x, ast.Name):
            return x.id == param
        if isinstance(x, ast.Subscript) and isinstance(x.slice, ast.Constant) and x.slice.value == 1 and isinstance(x.value, ast.Call) and \
                call_name(x.value) in ("_to_registry", "_build_from_id", "_from_registry", "_to_dict", "_from_dict", "_from_dict_helper"):
            return True          # result[1]: the accumulator element of a registry call's (object, accumulator) pair
        if isinstance(x, ast.Call):
            nm = call_name(x)
            if nm in ("__phi__", "__gamma__"):
                args = x.args[1:] if nm == "__gamma__" else x.args
                return all(ok(a, d - 1) for a in args)
            if nm == "__loop__":
                return True
            if nm == "__item__" and len(x.args) == 2 and isinstance(x.args[1], ast.Constant):
                inner = x.args[0]
                if isinstance(inner, ast.Call) and call_name(inner) in ("_to_registry", "_build_from_id", "_from_registry", "_to_dict", "_from_dict", "_from_dict_helper"):
                    return x.args[1].value == 1
                if isinstance(inner, ast.Call) and call_name(inner) == "_none_to_empty_dict":
                    return all(ok(a, d - 1) for a in inner.args[:1])
        return False
    return ok(ex, depth)


def rule_threading(ck):
    """R3: every recursive registry call receives the accumulator (the parameter or what an earlier call returned), the accumulator
    it returns is used afterwards (not dropped), and the function returns an accumulator."""
    repo = ck.repo
    n = 0
    for f in repo.all_functions():
        if f.name not in ("_to_dict",) + RESTORE_FUNCS or f.cls is None or "/tests/" in f.module:
            continue
        if f.cls.name == "BaseSimObj":
            continue
        fl = flow_of(f)
        acc = "context_dict" if f.name == "_to_dict" else "loaded_dict"
        if acc not in f.params:
            if f.name == "_from_dict_helper" and not any(call_name(c) in ("_build_from_id", "_from_registry") for _, c in calls_in(fl)):
                continue          # a helper that restores plain values only needs no accumulator
            raise AnalysisError(f"{f.qual}: accumulator parameter {acc} not found")
        for node, c in calls_in(fl):
            nm = call_name(c)
            if nm not in ("_to_registry", "_build_from_id", "_from_registry") and not (nm == "_to_dict" and isinstance(c.func.value, ast.Call)):
                continue
            n += 1
            if nm in ("_to_registry", "_to_dict"):
                arg = next((k.value for k in c.keywords if k.arg == "context_dict"), c.args[0] if c.args else None)
                want = "context_dict"
            else:
                arg = next((k.value for k in c.keywords if k.arg == "loaded_dict"), c.args[2] if len(c.args) > 2 else None)
                want = "loaded_dict"
            ck.require(arg is not None and want == acc and _acc_expr(fl, arg, node, acc), "C09.R3", f, c, ok=f"{want} passed down",
                       bad=f"the recursive call does not pass the {want} accumulator: the callee starts from an empty registry and sharing/termination is lost",
                       sink=f"{f.qual}:{nm}:pass")
            # the accumulator element of the result is bound to a name that is read afterwards
            st = node.stmt if node.kind == "stmt" else None
            used = False
            if isinstance(st, ast.Assign) and st.value is c and len(st.targets) == 1 and isinstance(st.targets[0], (ast.Tuple, ast.List)) \
                    and len(st.targets[0].elts) == 2 and isinstance(st.targets[0].elts[1], ast.Name):
                x = st.targets[0].elts[1].id
                for m in fl.cfg.nodes:
                    if m is node and not (node in fl.cfg.reach_from_succ(node)):
                        continue
                    for e in fl.cfg.node_exprs(m):
                        tgt_ids = set()
                        if m.kind == "stmt" and isinstance(m.stmt, ast.Assign):
                            tgt_ids = {id(q) for t in m.stmt.targets for q in ast.walk(t)}
                        for q in [e] + list(walk_local(e)):
                            if isinstance(q, ast.Name) and q.id == x and isinstance(q.ctx, ast.Load) and id(q) not in tgt_ids and node in fl.defs_at(m, x):
                                used = True
            if not used and isinstance(st, ast.Assign) and st.value is c and len(st.targets) == 1 and isinstance(st.targets[0], ast.Name):
                # pair kept in one variable: its accumulator element  x[1]  is read afterwards
                x = st.targets[0].id
                for m in fl.cfg.nodes:
                    for e in fl.cfg.node_exprs(m):
                        for q in [e] + list(walk_local(e)):
                            if isinstance(q, ast.Subscript) and isinstance(q.value, ast.Name) and q.value.id == x and isinstance(q.slice, ast.Constant) and q.slice.value == 1 \
                                    and isinstance(q.ctx, ast.Load) and node in fl.defs_at(m, x):
                                used = True
            if not used and isinstance(st, ast.Assign) and st.value is c and len(st.targets) == 1 and isinstance(st.targets[0], ast.Name):
                # pair kept in one variable and unpacked later:  res = f(..); obj, acc = res
                x = st.targets[0].id
                for m in fl.cfg.nodes:
                    if m.kind == "stmt" and isinstance(m.stmt, ast.Assign) and isinstance(m.stmt.value, ast.Name) and m.stmt.value.id == x and node in fl.defs_at(m, x) \
                            and len(m.stmt.targets) == 1 and isinstance(m.stmt.targets[0], (ast.Tuple, ast.List)) and len(m.stmt.targets[0].elts) == 2 \
                            and isinstance(m.stmt.targets[0].elts[1], ast.Name) and m.stmt.targets[0].elts[1].id == want:
                        used = True
            ck.require(used, "C09.R3", f, st if st is not None else c, ok=f"the returned {want} is carried on",
                       bad=f"the accumulator returned by the call is dropped: objects registered by the callee are forgotten", sink=f"{f.qual}:{nm}:rebind")
        # a restore helper that loads nested objects extends the accumulator: its result may not be thrown away
        for node, c in calls_in(fl):
            nm = call_name(c)
            if nm in RESTORE_FUNCS and nm != f.name and node.kind == "stmt" and isinstance(node.stmt, ast.Expr) and node.stmt.value is c:
                helper = repo.method(f.cls, nm, optional=True)
                extends = helper is not None and any(call_name(x) in ("_build_from_id", "_from_registry") for _, x in calls_in(flow_of(helper)))
                n += 1
                ck.require(not extends, "C09.R3", f, c, ok="the helper loads no nested object",
                           bad=f"the result of {nm}(...) is dropped although the helper loads nested objects through _build_from_id: the objects it registered in "
                               f"loaded_dict are forgotten by the caller, and an object referenced from two places is built twice (no longer shared)", sink=f"{f.qual}:{nm}:rebind")
        if f.name in ("_to_dict", "_from_dict"):
            rets = [x for x in fl.cfg.nodes if x.kind == "return"]
            ck.require(bool(rets) and all(p_.kind in ("return", "raise") for p_ in fl.cfg.exit.pred), "C09.R3", f, f.qual, ok="always returns", bad=f"{f.qual} can fall off the end without returning (object, accumulator)",
                       sink=f"{f.qual}:returns")
            for r in rets:
                e = r.expr
                good = False
                if isinstance(e, ast.Tuple) and len(e.elts) == 2:
                    good = _acc_expr(fl, e.elts[1], r, acc)
                elif isinstance(e, ast.Call) and call_name(e) in RESTORE_FUNCS:
                    good = any(_acc_expr(fl, a, r, acc) for a in e.args) or any(_acc_expr(fl, k.value, r, acc) for k in e.keywords)
                ck.require(good, "C09.R3", f, r.stmt, ok=f"returns the {acc} accumulator", bad=f"{f.qual} does not return the {acc} accumulator it received/extended",
                           sink=f"{f.qual}:return-acc")
    ck.floor("C09.R3", n, 20, "recursive registry call sites")


def rule_memo(ck):
    """R2 (registry side): memo consulted before descending, recorded afterwards, under the same key."""
    repo = ck.repo
    base = repo.cls("BaseSimObj")
    # _to_registry
    f = repo.method(base, "_to_registry")
    fl = flow_of(f)
    cfg = fl.cfg
    td = calls_in(fl, "_to_dict")
    ck.require(len(td) == 1, "C09.R2", f, td[0][1] if td else "self._to_dict(...)", bad=f"{len(td)} _to_dict call sites in _to_registry", sink="to_registry:_to_dict")
    if td:
        node, c = td[0]
        keyname = None
        guard_ok = False
        for r in [n for n in cfg.nodes if n.kind == "return"]:
            for a, t in facts_at(fl, r):
                cn = cmp_norm(a, t)
                if cn and cn[1] == "in" and dotted(cn[2]) == "context_dict" and isinstance(cn[0], ast.Name):
                    if node not in cfg.reach(cfg.entry, avoid={r}) or True:
                        keyname = cn[0].id
                        # the early return precedes the descent: _to_dict is only reachable on the 'not in' edge
                        guard_ok = any((cmp_norm(a2, t2) or (None, None, None))[1] == "not in" and dotted(cmp_norm(a2, t2)[0]) == keyname
                                       for a2, t2 in facts_at(fl, node)) or r not in cfg.reach(node)
        # simpler & robust: every path entry -> _to_dict passes the membership test on its false edge
        tests = [n for n in cfg.nodes if n.kind == "edge" and n.test.kind == "test" and any(
            (cn := cmp_norm(a, t)) and cn[1] == "not in" and dotted(cn[2]) == "context_dict" for a, t in
            __import__("sa.flow", fromlist=["edge_facts"]).edge_facts(n.test.expr, n.label))]
        dom = any(cfg.dominates(e, node) for e in tests)
        ck.require(dom, "C09.R2", f, c, ok="an object already in context_dict is not descended into again (cycles terminate, sharing kept)",
                   bad="_to_dict is reachable without the `obj_id in context_dict` early return: shared objects are dumped twice / cycles recurse",
                   sink="to_registry:memo-check")
        if tests:
            keyname = dotted(cmp_norm(*[(a, t) for a, t in __import__("sa.flow", fromlist=["edge_facts"]).edge_facts(tests[0].test.expr, tests[0].label)][0])[0])
        rec = [n for n in cfg.nodes if n.kind == "stmt" and isinstance(n.stmt, ast.Assign) and any(
            isinstance(t, ast.Subscript) and dotted(t.value) == "context_dict" and dotted(t.slice) == keyname for t in n.stmt.targets)]
        ck.require(bool(rec) and all(cfg.dominates(node, r) for r in rec), "C09.R2", f, rec[0].stmt if rec else "context_dict[obj_id] = obj_dict",
                   ok="recorded under the same id after _to_dict", bad="the object is not recorded in context_dict under the id the memo check uses",
                   sink="to_registry:memo-record")
        kd = fl.expand(ast.Name(id=keyname, ctx=ast.Load()), node) if keyname else None
        ck.require(kd is not None and "id(self)" in canon(kd), "C09.R2", f, kd if kd is not None else "obj_id", ok="memo key is id(self)",
                   bad=f"memo key must be derived from id(self); got {src(kd) if kd is not None else None}", sink="to_registry:memo-key")
    # _build_from_id and _from_registry
    for q, ctor in (("BaseSimObj._build_from_id", "_from_registry"), ("BaseSimObj._from_registry", "_from_dict")):
        g = repo.fn(q)
        gl = flow_of(g)
        cc = calls_in(gl, ctor)
        ck.require(len(cc) == 1, "C09.R2", g, cc[0][1] if cc else ctor, bad=f"{len(cc)} {ctor} call sites", sink=f"{q}:{ctor}")
        if not cc:
            continue
        node, c = cc[0]
        from ..flow import edge_facts
        tests = [n for n in gl.cfg.nodes if n.kind == "edge" and n.test.kind == "test" and any(
            (cn := cmp_norm(a, t)) and cn[1] == "not in" and dotted(cn[2]) == "loaded_dict" for a, t in edge_facts(n.test.expr, n.label))]
        ck.require(any(gl.cfg.dominates(e, node) for e in tests), "C09.R2", g, c,
                   ok="an id already in loaded_dict is returned, not constructed again (one shared object per id)",
                   bad=f"{ctor} is reachable without the `obj_id in loaded_dict` early return: a second copy of a shared object is built",
                   sink=f"{q}:memo-check")
        keyname = None
        if tests:
            a, t = edge_facts(tests[0].test.expr, tests[0].label)[0]
            keyname = dotted(cmp_norm(a, t)[0])
        # the early return returns the memoised object
        for e in [n for n in gl.cfg.nodes if n.kind == "edge" and n.test.kind == "test" and any(
                (cn := cmp_norm(a, t)) and cn[1] == "in" and dotted(cn[2]) == "loaded_dict" for a, t in edge_facts(n.test.expr, n.label))]:
            rets = [n for n in gl.cfg.nodes if n.kind == "return" and gl.cfg.dominates(e, n)]
            for r in rets:
                ex = r.expr
                good = isinstance(ex, ast.Tuple) and len(ex.elts) == 2 and isinstance(ex.elts[0], ast.Subscript) \
                    and dotted(ex.elts[0].value) == "loaded_dict" and dotted(ex.elts[0].slice) == keyname and dotted(ex.elts[1]) == "loaded_dict"
                ck.require(good, "C09.R2", g, r.stmt, ok="returns the memoised object", bad="the memo hit must return (loaded_dict[obj_id], loaded_dict)",
                           sink=f"{q}:memo-return")
        rec = [n for n in gl.cfg.nodes if n.kind == "stmt" and isinstance(n.stmt, ast.Assign) and any(
            isinstance(t, ast.Subscript) and dotted(t.value) == "loaded_dict" and dotted(t.slice) == keyname for t in n.stmt.targets)]
        ck.require(bool(rec) and all(gl.cfg.dominates(node, r) for r in rec), "C09.R2", g, rec[0].stmt if rec else "loaded_dict[obj_id] = obj",
                   ok="recorded under the same id after construction", bad="the loaded object is not recorded in loaded_dict under its id",
                   sink=f"{q}:memo-record")


def rule_queue_order(ck):
    """R4: the pending-event heap is dumped and restored in array order, no re-ordering (engine shared with C11.R6: the dumped / restored
    list is an order-preserving image of the source list, whatever loop or comprehension builds it)."""
    repo = ck.repo
    q = repo.cls("EventQueue")
    from .c11 import rule_restore
    rule_restore(ck, rid="C09.R4")
    for f in (repo.method(q, "_to_dict"), repo.method(q, "_from_dict")):
        fl2 = flow_of(f)
        bad = [c for n, c in calls_in(fl2) if call_name(c) in ("sorted", "sort", "reversed", "reverse", "heapify", "shuffle", "insert", "appendleft")]
        ck.require(not bad, "C09.R4", f, bad[0] if bad else f.qual, ok="no re-ordering call", bad=f"re-ordering call {src(bad[0]) if bad else ''} in the queue's (de)serialisation",
                   sink=f"queue:{f.name}:reorder")


def rule_resumable(ck):
    """R5: nothing that consumes pending-work state executes in an iteration before the scheduler call."""
    repo = ck.repo
    run = inline_helpers(repo, repo.fn("Simulator.run"))
    fl = flow_of(run)
    cfg = fl.cfg
    sched = [(n, c) for n, c in calls_in(fl, "run") if canon(c.func) == "self.scheduler.run"]
    ck.require(len(sched) == 1, "C09.R5", run, sched[0][1] if sched else "self.scheduler.run()", bad=f"{len(sched)} scheduler call sites in run()", sink="sched-call")
    if len(sched) != 1:
        return
    S, call = sched[0]
    heads = [t for t, lab in cfg.edges_dominating(S) if t.kind == "test" and lab is True and isinstance(t.stmt, ast.While)]
    if not heads:
        raise AnalysisError("Simulator.run: scheduler call is not inside a while loop")
    head = heads[0]
    body = cfg.loop_body_nodes(head)
    CONSUME_ATTRS = {"self._resolve", "self._last_schedule_update", "self._iteration", "self.schedule_history", "self.pilot_signals",
                     "self.charging_rates", "self.peak"}
    CONSUME_CALLS = {"_update_schedules", "update_pilots", "_store_actual_charging_rates", "post_charging_update"}
    consumers = []
    for n, kind, p, t in state_writes(fl):
        if n in body and p in CONSUME_ATTRS:
            consumers.append((n, f"store to {p}"))
    for n, c in calls_in(fl):
        if n in body and call_name(c) in CONSUME_CALLS:
            consumers.append((n, f"call {call_name(c)}()"))
    ck.floor("C09.R5", len(consumers), 8, "state-consuming statements in the run() loop body")
    for n, what in consumers:
        before = S in cfg.reach(n, avoid={head}) and n is not S
        ck.require(not before, "C09.R5", run, n.stmt if n.stmt is not None else what,
                   ok=f"{what}: cannot execute before the scheduler call of the same period",
                   bad=f"{what} can execute before self.scheduler.run() in the same iteration: if the scheduler raises, a second run() "
                       f"starts from a state that already consumed this period's work", sink=f"before-sched:{what}")
    # the pop and the processing precede the call
    pops = [n for n, c in calls_in(fl, "get_current_events") if n in body]
    procs = [n for n, c in calls_in(fl, "_process_event") if n in body]
    ck.require(bool(pops) and all(cfg.dominates(p, S) for p in pops), "C09.R5", run, "get_current_events before scheduler",
               ok="events are popped before the scheduler runs (never after an interruption point)",
               bad="the event pop does not dominate the scheduler call", sink="pop-before-sched")
    ck.require(bool(procs) and all(S not in cfg.reach(S, avoid={head}) or True for _ in procs) and all(p not in cfg.reach(S, avoid={head}) for p in procs),
               "C09.R5", run, "_process_event before scheduler", ok="no event is processed after the scheduler call within a period",
               bad="an event can be processed after the scheduler call of the same period", sink="process-before-sched")
    # resumption-critical state is serialised
    sim = repo.cls("Simulator")
    dump = dump_table(repo, sim)
    rest, _ = restore_table(repo, sim)
    for a in RESUME_STATE:
        ck.require(a in dump and a in rest.reads, "C09.R5", sim, f"Simulator.{a}", ok="dumped and restored",
                   bad=f"resumption-critical attribute {a} is not carried through a JSON round trip", sink=f"resume-state:{a}")


def rule_update_scheduler(ck):
    repo = ck.repo
    f = repo.fn("Simulator.update_scheduler")
    fl = flow_of(f)
    p = f.params[1]
    w = {pth: t for n, k, pth, t in state_writes(fl)}
    st = [n for n in fl.cfg.nodes if n.kind == "stmt" and isinstance(n.stmt, ast.Assign)]
    sch = [n for n in st if any(dotted(t) == "self.scheduler" for t in n.stmt.targets)]
    ck.require(bool(sch) and all(canon(fl.expand(n.stmt.value, n)) == p for n in sch), "C09.R6", f, sch[0].stmt if sch else "self.scheduler = new_scheduler",
               ok="scheduler replaced", bad="update_scheduler does not store the given scheduler", sink="update:scheduler")
    reg = calls_in(fl, "register_interface")
    ok = False
    for n, c in reg:
        a = c.args[0] if c.args else None
        recv = canon(fl.expand(c.func.value, n))
        if isinstance(a, ast.Call) and call_name(a) == "Interface" and a.args and dotted(a.args[0]) == "self" and recv in (p, "self.scheduler"):
            ok = True
    ck.require(ok, "C09.R6", f, reg[0][1] if reg else "register_interface(Interface(self))", ok="a fresh Interface(self) is registered with the new scheduler",
               bad="the new scheduler does not receive a fresh Interface bound to this simulator", sink="update:interface")
    mr = [n for n in st if any(dotted(t) == "self.max_recompute" for t in n.stmt.targets)]
    ck.require(bool(mr) and all(canon(fl.expand(n.stmt.value, n)) in (f"{p}.max_recompute", "self.scheduler.max_recompute") for n in mr), "C09.R6", f,
               mr[0].stmt if mr else "self.max_recompute = new_scheduler.max_recompute", ok="max_recompute copied from the scheduler",
               bad="max_recompute is not taken from the new scheduler", sink="update:max_recompute")
    # Simulator._from_dict registers an interface too
    fd = repo.fn("Simulator._from_dict")
    fl2 = flow_of(fd)
    reg2 = calls_in(fl2, "register_interface")
    ck.require(bool(reg2), "C09.R6", fd, reg2[0][1] if reg2 else "scheduler.register_interface(Interface(out_obj))",
               ok="the loaded simulator's scheduler gets an interface", bad="the loaded simulator's scheduler has no interface", sink="load:interface")


def rule_registry_binding(ck, rid="C09.R3"):
    """the three dictionaries of the (de)serialisation protocol - attribute_dict (one object's fields), context_dict (all dumped
    objects by id), loaded_dict (objects already rebuilt) - are never passed in each other's place: at every call of a protocol
    function an argument that *is* one of the three names is bound to the parameter of the same name"""
    repo = ck.repo
    trio = {"attribute_dict", "context_dict", "loaded_dict"}
    protocol = {"_from_dict", "_from_dict_helper", "_build_from_id", "_from_registry", "_to_registry", "_to_dict"}
    sig = {}
    for nm in protocol:
        cands = [f for f in repo.funcs.get(f"BaseSimObj.{nm}", [])]
        if cands:
            sig[nm] = cands[0]
    n = 0
    for f in repo.all_functions():
        if "/tests/" in f.module or f.cls is None or "BaseSimObj" not in [c.name for c in repo.mro(f.cls)]:
            continue
        for c in [x for x in walk_local(f.node) if isinstance(x, ast.Call) and call_name(x) in sig]:
            callee = sig[call_name(c)]
            try:
                b = bind_args(c, callee, method=True)
            except AnalysisError:
                continue
            for p_, a in b.items():
                if isinstance(a, ast.Name) and a.id in trio and p_ in trio:
                    n += 1
                    ck.require(a.id == p_, rid, f, c, ok=f"{a.id} -> {p_}", bad=f"`{a.id}` is passed as the `{p_}` of {call_name(c)}: the registry of dumped objects and the "
                               f"memo of rebuilt ones (or one object's fields) are confused", sink=f"{f.qual}:{call_name(c)}:{p_}<-{a.id}")
    ck.floor(rid, n, 30, "protocol dictionaries passed between (de)serialisation functions")


def rule_constructors(ck, rid="C09.R8", classes=None, floor=25):
    """restoring an object goes through its constructor (R1d maps dumped keys to constructor parameters): the constructor must put each
    parameter into the attribute of its own name (shared engine rules.same_name_constructor)"""
    from ..rules import same_name_constructor
    n = 0
    for cname in (classes or CORE):
        ci = ck.repo.cls(cname)
        n += same_name_constructor(ck, rid, ci, exceptions={("Battery", "_current_charge"), ("Battery", "_init_charge")})
    ck.floor(rid, n, floor, "parameter-to-attribute stores of the core simulator classes")


def rule_json_order(ck, rid="C09.R7"):
    """the station order of a network lives in the insertion order of its EVSE mapping while voltages, phase angles and constraint
    columns are positional: the JSON text must keep every mapping in insertion order, i.e. no dump re-orders keys (sort_keys) and no
    load installs an object hook that could"""
    repo = ck.repo
    n = 0
    for qual in ("BaseSimObj.to_json", "BaseSimObj.from_json"):
        f = repo.fn(qual)
        fl = flow_of(f)
        for node, c in calls_in(fl):
            nm = call_name(c)
            if nm in ("dump", "dumps") and dotted(c.func) in ("json.dump", "json.dumps"):
                n += 1
                kw = {k.arg: k.value for k in c.keywords if k.arg}
                sk = kw.get("sort_keys")
                ok = sk is None or (isinstance(sk, ast.Constant) and not sk.value)
                ck.require(ok and not any(k.arg is None for k in c.keywords), rid, f, c, ok="keys are written in insertion order",
                           bad="the dump re-orders mapping keys (sort_keys): a loaded network lists its stations in sorted order while its per-station "
                               "arrays stay in registration order", sink=f"{f.name}:sort_keys")
            if nm in ("load", "loads") and dotted(c.func) in ("json.load", "json.loads"):
                n += 1
                bad = [k.arg for k in c.keywords if k.arg in ("object_hook", "object_pairs_hook", "cls") or k.arg is None]
                ck.require(not bad, rid, f, c, ok="objects are loaded as plain insertion-ordered dicts",
                           bad=f"the load installs {bad}: mapping order of the loaded registry is no longer the dumped order", sink=f"{f.name}:hook")
    ck.floor(rid, n, 4, "json dump / load call sites in BaseSimObj.to_json / from_json")


REORDERING = ("sorted", "reversed", "set", "frozenset", "unique", "shuffle", "sample", "permutation")


def _reordering_in(itx):
    """name of a call / slice in the iteration expression that changes the order or the multiset of what is walked, else None"""
    for x in ast.walk(itx):
        if isinstance(x, ast.Call) and call_name(x) in REORDERING:
            return call_name(x)
        if isinstance(x, ast.Subscript) and isinstance(x.slice, ast.Slice):
            return "slice"
    return None


def rule_station_order_roundtrip(ck, rid="C09.R9"):
    """the station order of a network is the insertion order of its EVSE mapping; voltages, phase angles, constraint columns and the
    cached per-station limits are positional in that order.  The dump must therefore write, and the restore rebuild, the mapping (and
    the per-station list of allowable rates) by walking the original in its own order - a dump that walks it sorted / reversed /
    through a set gives a loaded network whose station list is permuted against its own arrays."""
    repo = ck.repo
    net = repo.cls("ChargingNetwork")
    n = 0
    for mname, pick, srcs in (("_to_dict", lambda t: t in ("attribute_dict['_EVSEs']", "attribute_dict['allowable_rates']"),
                               ("self._EVSEs", "self.allowable_rates")),
                              ("_from_dict", lambda t: t in ("out_obj._EVSEs", "out_obj.allowable_rates"),
                               ("attribute_dict['_EVSEs']", "attribute_dict['allowable_rates']", "allowable_rates_list"))):
        f = repo.method(net, mname)
        fl = flow_of(f)
        for node in fl.cfg.nodes:
            if node.kind != "stmt" or not isinstance(node.stmt, ast.Assign):
                continue
            t = " ".join(ast.unparse(node.stmt.targets[0]).replace('"', "'").split())
            if not pick(t):
                continue
            e = fl.expand(node.stmt.value, node)
            comps = [x for x in ast.walk(e) if isinstance(x, (ast.ListComp, ast.DictComp, ast.GeneratorExp))]
            if not comps:
                if mname == "_from_dict" and src(e).replace('"', "'") in srcs:
                    continue                                # the loaded list itself
                raise AnalysisError(f"ChargingNetwork.{mname}: construction of `{t}` not recognised: {src(e, 100)}")
            for c in comps:
                for g in c.generators:
                    n += 1
                    how = _reordering_in(g.iter)
                    walks = any(s in src(g.iter).replace('"', "'") for s in srcs)
                    if how is None and not walks:
                        continue
                    ck.require(how is None, rid, f, g.iter, ok=f"`{t}` is built by walking the original in its own order",
                               bad=f"`{t}` is built by walking the stations through `{how}`: the loaded network lists its stations in another "
                                   "order than the one its voltages, phase angles, constraint columns and cached limits are laid out in",
                               sink=f"{mname}:{t}:order")
                    ck.require(not g.ifs, rid, f, g.iter, ok="no station is filtered out of the dump / restore",
                               bad=f"`{t}` leaves out stations ({src(g.ifs[0], 60) if g.ifs else ''}): the positional arrays keep their columns",
                               sink=f"{mname}:{t}:filter")
    ck.floor(rid, n, 3, "station-ordered containers written by ChargingNetwork._to_dict / rebuilt by _from_dict")


def run(ck):
    ck.attempt(rule_json_order)
    ck.attempt(rule_station_order_roundtrip)
    ck.attempt(rule_registry_binding)
    ck.attempt(rule_constructors)
    ck.attempt(rule_agreement)
    ck.attempt(rule_ctor_identity)
    ck.attempt(rule_threading)
    ck.attempt(rule_memo)
    ck.attempt(rule_queue_order)
    ck.attempt(rule_resumable)
    ck.attempt(rule_update_scheduler)
    # "calling run() again continues it": every period of the loop, resumed or not, grows the result matrices to cover the current column
    # before it is written (loop rule of C01)
    from .c01 import rule_loop
    ck.attempt(rule_loop, rid="C09.R10")


"""C12 - constraint matrix, limits and names stay aligned under add/remove/update (structural part)."""
import ast

from ..core import AnalysisError, dotted, call_name, src, walk_local, const_value
from ..flow import edge_facts
from ..rules import (flow_of, calls_in, bind_args, canon, state_writes, facts_at, cmp_norm, alts_deep, who_writes, iter_base,
                     mutating_calls)

EXPLANATION = ("In ChargingNetwork: every method that writes one of the three parallel arrays (constraint_matrix, magnitudes, "
               "constraint_index) writes all three, remove_constraint deletes the matrix row and the limit at one shared index derived from "
               "the name it removes; the matrix stored by add_constraint is the constraint frame re-indexed on columns=self.station_ids "
               "(alignment by station name, not by position) built from the existing frame plus the new Current with missing stations "
               "zero-filled, and the name list is that same frame's index; the unknown-station rejection precedes every store "
               "(validate-before-write, including current.name); the name used is checked against the existing names on every path from "
               "each of its definitions (auto-generated names included); update_constraint removes then adds under the new name; every "
               "store of register_evse is guarded by `constraint_matrix is None` whose other edge raises; the Current algebra is closed: "
               "+, -, scalar * (and the reflected forms) are defined and every path returns Current(...) or raises, no exception is "
               "constructed and dropped, + and - zero-fill missing stations; constraint_current selects rows by iterating the network's "
               "own constraint list filtered by membership (network order) and columns by the requested time indices."
               ' Added in round 3: no operand of the Current algebra is turned into a positional array on the way into the result; the unknown-station rejection is recognised in loop, filtered-collection and generator form; the stored label was looked up in (or renamed because of) the existing names on every path (decision table).')
EXPLANATION += ' Added in rounds 4-5: on every path of __add__ / __sub__ the result is, as a linear form in (self, other), self +/- other (an operand tested empty counts as 0); station-order round trip.'
NOT_DECIDED = "numeric content of the matrix after a particular sequence; behaviour of pandas reindex/concat themselves (trusted as documented)"

TRIPLE = ("constraint_matrix", "magnitudes", "constraint_index")


def writes_of(repo, f, depth=2):
    """set of TRIPLE attributes a method writes, following self.<method>() calls in the same class"""
    out = set()
    for n in walk_local(f.node):
        if isinstance(n, ast.stmt):
            from ..rules import store_targets
            for kind, p, t in store_targets(n):
                for a in TRIPLE:
                    if p == f"self.{a}":
                        out.add(a)
        if isinstance(n, ast.Call):
            for p, m, c in mutating_calls(n):
                if c is n:
                    for a in TRIPLE:
                        if p == f"self.{a}":
                            out.add(a)
            if depth > 0 and isinstance(n.func, ast.Attribute) and dotted(n.func.value) == "self" and f.cls is not None:
                m = repo.method(f.cls, n.func.attr, optional=True)
                if m is not None and m.node is not f.node and not m.is_property():
                    out |= writes_of(repo, m, depth - 1)
    return out


def rule_comutation(ck):
    repo = ck.repo
    net = repo.cls("ChargingNetwork", module="charging_network.py")
    n = 0
    for name, m in sorted(net.methods.items()):
        if name in ("_from_dict", "_to_dict") or m.qual in repo.inlined_helpers:
            continue              # a helper introduced later is seen through the methods it was spliced into
        w = writes_of(repo, m)
        if not w:
            continue
        n += 1
        ck.require(w == set(TRIPLE), "C12.R1", m, f"{name} writes {sorted(w)}", ok="matrix, limits and names are updated together",
                   bad=f"{name} updates {sorted(w)} but not {sorted(set(TRIPLE) - w)}: the parallel arrays fall out of step", sink=f"{name}:co-mutation")
    ck.floor("C12.R1", n, 4, "methods writing the parallel constraint arrays")
    # package-wide writers
    allowed = {"ChargingNetwork.__init__", "ChargingNetwork.add_constraint", "ChargingNetwork.remove_constraint", "ChargingNetwork._from_dict"}
    for a in TRIPLE:
        for f, kind, p, t in who_writes(repo, a):
            if "/tests/" in f.module or not p.startswith(("self.", "out_obj.", "network.")):
                continue
            if p.startswith("self.") and (f.cls is None or "ChargingNetwork" not in [c.name for c in repo.mro(f.cls)]):
                continue        # a like-named attribute of another class (InfrastructureInfo)
            ck.require(f.qual in allowed, "C12.R1", f, t, ok=f"{a} written by the network's own constraint methods", bad=f"{a} is written in {f.qual}, outside add/remove",
                       sink=f"writer:{a}:{f.qual}")
    # remove_constraint: one shared index derived from the name
    rm = repo.method(net, "remove_constraint")
    fl = flow_of(rm)
    nm = rm.params[1]
    dels = [(nd, c) for nd, c in calls_in(fl, "delete")]
    idxs = set()
    for nd, c in dels:
        tgt = canon(fl.expand(c.args[0], nd)) if c.args else None
        ix = canon(fl.expand(c.args[1], nd)) if len(c.args) > 1 else None
        ax = next((k.value for k in c.keywords if k.arg == "axis"), c.args[2] if len(c.args) > 2 else None)
        ck.require(tgt in ("self.constraint_matrix", "self.magnitudes") and ix == f"self.constraint_index.index({nm})" and
                   isinstance(ax, ast.Constant) and ax.value == 0, "C12.R1", rm, c, ok="row deleted at the position of the removed name",
                   bad=f"np.delete({tgt}, {ix}, axis={src(ax) if ax is not None else None}) does not delete the row at constraint_index.index({nm})",
                   sink=f"remove:{tgt}")
        idxs.add(ix)
        # the index is computed before the name list is changed
        muts = [x for x, k, p, t in state_writes(fl) if p == "self.constraint_index"]
        ck.require(all(nd not in fl.cfg.reach(x) or x is nd for x in muts), "C12.R1", rm, c, ok="uses the position computed before the name is removed",
                   bad="the name list is modified before the row/limit are deleted at the name's position", sink=f"remove:{tgt}:order")
    ck.require(len(dels) == 2 and len(idxs) == 1, "C12.R1", rm, "np.delete x2 at one index", ok="matrix row and limit deleted at the same index",
               bad=f"{len(dels)} np.delete calls at indices {sorted(str(i) for i in idxs)}", sink="remove:shared-index")
    nm_rm = [c for nd, k, p, c in state_writes(fl) if p == "self.constraint_index"]
    ok = any(isinstance(c, ast.Call) and call_name(c) == "remove" and c.args and dotted(c.args[0]) == nm for c in nm_rm) or \
        any(isinstance(c, ast.Subscript) for c in nm_rm)
    ck.require(ok, "C12.R1", rm, nm_rm[0] if nm_rm else "constraint_index.remove(name)", ok="the name itself is removed", bad="the removed name is not deleted from constraint_index",
               sink="remove:name")
    # validate before write
    for r in [x for x in fl.cfg.nodes if x.kind == "raise"]:
        before = [x for x, k, p, t in state_writes(fl) if r in fl.cfg.reach(x)]
        ck.require(not before, "C12.R3", rm, r.stmt, ok="unknown name rejected before any change", bad="state is changed before the unknown-name rejection", sink="remove:validate-first")


def rule_add(ck):
    repo = ck.repo
    net = repo.cls("ChargingNetwork", module="charging_network.py")
    f = repo.method(net, "add_constraint")
    fl = flow_of(f)
    cfg = fl.cfg
    cur, lim, name = f.params[1:4]
    writes = state_writes(fl, roots=("self", cur))
    # R3 validation first
    raises = [n for n in cfg.nodes if n.kind == "raise"]
    ck.floor("C12.R3", len(raises), 1, "rejections in add_constraint")
    for r in raises:
        before = [n for n, k, p, t in writes if r in cfg.reach(n)]
        ck.require(not before, "C12.R3", f, r.stmt, ok="a rejected constraint has changed nothing",
                   bad=f"`{src(before[0].stmt, 60) if before else ''}` can execute before the unknown-station rejection", sink="add:write-before-raise")
        REG = ("self._EVSEs", "self.station_ids", "list(self._EVSEs.keys())", "self._EVSEs.keys()")
        SRC = (f"{cur}.index", f"{cur}.keys()", cur)

        def unregistered_of(e):
            """e is the collection of the Current's stations that are not registered: [s for s in cur.index if s not in REG]"""
            from ..flow import _strip_seq
            e = _strip_seq(e)
            if isinstance(e, (ast.ListComp, ast.GeneratorExp, ast.SetComp)) and len(e.generators) == 1:
                g = e.generators[0]
                if canon(_strip_seq(g.iter)) in SRC and isinstance(g.target, ast.Name) and dotted(e.elt) == g.target.id and len(g.ifs) == 1:
                    c = cmp_norm(g.ifs[0], True)
                    return bool(c) and c[1] == "not in" and dotted(c[0]) == g.target.id and canon(c[2]) in REG
            return False
        test_ok = all_ok = False
        # (1) a loop over the Current's stations with the membership test on the loop variable
        for a, t in facts_at(fl, r):
            c = cmp_norm(fl.expand(a, r), t)
            if c and c[1] == "not in" and canon(c[2]) in REG:
                test_ok = True
                all_ok = all_ok or canon(c[0]) in tuple(f"__elem__({s_})" for s_ in SRC)
        # (2) the collection of unregistered stations is built first and the rejection is taken when it is non-empty
        for a, t in facts_at(fl, r):
            e = fl.expand(a, r)
            base = e
            neg = False
            while isinstance(base, ast.UnaryOp) and isinstance(base.op, ast.Not):
                base, neg = base.operand, not neg
            if isinstance(base, ast.Call) and call_name(base) == "len" and base.args:
                base = base.args[0]
            c = cmp_norm(e, t)
            if c and isinstance(c[0], ast.Constant) and c[0].value == 0 and c[1] in ("<", "!=") and isinstance(c[2], ast.Call) and call_name(c[2]) == "len" and c[2].args:
                base, neg = c[2].args[0], False
                tt = True
            else:
                tt = (t != neg)
            if tt and unregistered_of(base):
                test_ok = all_ok = True
        # (3) iterating the collection of unregistered stations and raising on the first one
        for tn, lab in cfg.edges_dominating(r):
            if tn.kind == "for" and lab is True and unregistered_of(fl.expand(tn.stmt.iter, tn)):
                test_ok = all_ok = True
        ck.require(test_ok, "C12.R3", f, r.stmt, ok="rejects a station that is not registered", bad="the rejection does not test membership in the registered stations",
                   sink="add:reject-test")
        ck.require(all_ok, "C12.R3", f, r.stmt, ok="every station of the Current is checked",
                   bad="the rejection does not range over every station of the new Current", sink="add:reject-all")
    # R2 stores
    mstores = [n for n, k, p, t in writes if p == "self.constraint_matrix" and k == "assign"]
    istores = [n for n, k, p, t in writes if p == "self.constraint_index" and k == "assign"]
    lstores = [n for n, k, p, t in writes if p == "self.magnitudes"]
    ck.require(len(mstores) == 1 and len(istores) == 1 and len(lstores) == 1, "C12.R2", f, "one store each of matrix / names / limits",
               bad=f"stores: matrix {len(mstores)}, names {len(istores)}, limits {len(lstores)}", sink="add:stores")
    if not (mstores and istores and lstores):
        return
    m, i, l = mstores[0], istores[0], lstores[0]
    ok = canon(fl.expand(l.stmt.value, l)) == f"np.append(self.magnitudes, {lim})"
    ck.require(ok, "C12.R2", f, l.stmt, ok="limit appended at the end", bad="the new limit must be appended to magnitudes (np.append(self.magnitudes, limit))", sink="add:limit")
    def deref(e, node):
        """a local temporary with one reaching definition stands for the expression it was assigned (one step at a time, so the
        frame variable the index is taken from keeps its name)"""
        seen = 0
        while isinstance(e, ast.Name) and seen < 4:
            ds = fl.defs_at(node, e.id)
            if len(ds) != 1:
                break
            d = next(iter(ds))
            how = fl.def_how(d, e.id)
            if how[0] != "assign" or how[1] is None:
                break
            e, node, seen = how[1], d, seen + 1
        return e, node
    mv, mnode = deref(m.stmt.value, m)
    frame_expr = None
    good = False
    if isinstance(mv, ast.Call) and call_name(mv) in ("to_numpy",) or isinstance(mv, ast.Attribute) and mv.attr == "values":
        inner = mv.func.value if isinstance(mv, ast.Call) else mv.value
        inner, mnode = deref(inner, mnode)
        if isinstance(inner, ast.Call) and call_name(inner) == "reindex":
            cols = next((k.value for k in inner.keywords if k.arg == "columns"), None)
            if cols is not None and canon(fl.expand(cols, mnode)) in ("self.station_ids", "list(self._EVSEs.keys())"):
                good = True
                frame_expr = inner.func.value
    ck.require(good, "C12.R2", f, mv, ok="matrix = frame.reindex(columns=self.station_ids): columns aligned by station name in network order",
               bad=f"the stored matrix `{src(mv, 70)}` is not the frame re-indexed on columns=self.station_ids: coefficients are placed by position "
                   f"of appearance, not under their station", sink="add:reindex")
    iv, _ = deref(i.stmt.value, i)
    ok = frame_expr is not None and isinstance(iv, ast.Call) and call_name(iv) == "list" and iv.args and isinstance(iv.args[0], ast.Attribute) \
        and iv.args[0].attr == "index" and canon(iv.args[0].value) == canon(frame_expr)
    ck.require(ok, "C12.R2", f, iv, ok="names = the same frame's index (row order of the matrix)", bad="constraint_index is not list(<the stored frame>.index)",
               sink="add:index-from-frame")
    if frame_expr is not None:
        alts = alts_deep(fl.expand(frame_expr, m), limit=16)
        for a in alts:
            s = canon(a)
            has_cur = cur in {x.id for x in ast.walk(a) if isinstance(x, ast.Name)}
            has_old = "self.constraints_as_df()" in s
            ck.require(has_cur, "C12.R2", f, a, ok="the frame contains the new Current", bad="the new Current does not reach the stored frame on some path", sink="add:frame-has-current")
            if "concat" in s or ".append(" in s:
                ck.require(has_old and "fillna(0)" in s, "C12.R2", f, a, ok="existing rows kept, missing stations zero-filled",
                           bad="existing constraints or the zero fill of absent stations are lost when appending", sink="add:concat-fill")
        # first-constraint branch: explicit zero fill of the missing columns
        zfill = [n for n in cfg.nodes if n.kind == "stmt" and isinstance(n.stmt, ast.Assign) and isinstance(n.stmt.targets[0], ast.Subscript)
                 and isinstance(n.stmt.value, ast.Constant) and n.stmt.value.value == 0]
        first = [a for a in alts if "concat" not in canon(a) and ".append(" not in canon(a)]
        if first:
            ck.require(bool(zfill), "C12.R2", f, first[0], ok="first constraint: absent stations get explicit zero columns",
                       bad="on the first-constraint branch the stations absent from the Current are not zero-filled", sink="add:first-fill")
    # constraints_as_df binds columns / index by name
    cdf = repo.method(net, "constraints_as_df")
    dl = flow_of(cdf)
    for r in [n for n in dl.cfg.nodes if n.kind == "return"]:
        e = dl.expand(r.expr, r)
        from ..rules import uncopy
        ok = isinstance(e, ast.Call) and call_name(e) == "DataFrame" and e.args and canon(uncopy(e.args[0])) == "self.constraint_matrix" and \
            canon(uncopy(next((k.value for k in e.keywords if k.arg == "columns"), ast.Constant(None)))) == "self.station_ids" and \
            canon(uncopy(next((k.value for k in e.keywords if k.arg == "index"), ast.Constant(None)))) == "self.constraint_index" and \
            all(k.arg in ("columns", "index", "copy", "dtype") for k in e.keywords)
        ck.require(ok, "C12.R2", cdf, r.expr, ok="frame labelled by station ids and constraint names", bad="constraints_as_df does not label columns=station_ids, index=constraint_index",
                   sink="as_df:labels")
    # current.name = name, and uniqueness test on every path from each definition of `name`
    nstores = [n for n, k, p, t in writes if p == f"{cur}.name"]
    ck.require(len(nstores) == 1 and canon(nstores[0].stmt.value) == name, "C12.R2", f, nstores[0].stmt if nstores else f"{cur}.name = {name}",
               ok="the row is labelled with the constraint's name", bad="the Current is not labelled with the constraint name before it is appended", sink="add:label")
    # membership of the (possibly defaulted, possibly renamed through temporaries) name in the network's constraint list, either polarity
    tests = []
    from ..flow import edge_facts as _ef
    for n in cfg.nodes:
        if n.kind != "test":
            continue
        for a_, t_ in _ef(fl.expand(n.expr, n), True):
            c = cmp_norm(a_, True)
            if c and c[1] in ("in", "not in") and canon(c[2]) == "self.constraint_index":
                tests.append(n)
    ck.require(bool(tests), "C12.R2", f, "if name in self.constraint_index", ok="duplicate names detected", bad="no duplicate-name check", sink="add:dup-test")
    if nstores and tests:
        # on every path the label that is stored was itself looked up in the network's name list (and renamed on the branch where it was
        # found): decision table of add_constraint, values expanded along each path
        from .. import pathtab
        seen_bad = set()
        for r in pathtab.table(fl, limit=20000):
            lab = [(k, st, nd) for kind, k, st, nd in r.effects if kind == "store" and k.startswith(f"{cur}.name = ")]
            if not lab:
                continue
            val = lab[-1][0].split(" = ", 1)[1]
            subjects = []
            for k, t, a_, nd in r.facts:
                c = pathtab.split_key(k)
                if c and c[1] == "in" and c[2] == "self.constraint_index":
                    subjects.append((c[0], t))
            ok = any((not t and val == subj) or (t and subj in val and val != subj) for subj, t in subjects)
            if not ok and val not in seen_bad:
                seen_bad.add(val)
                ck.violation("C12.R2", f, lab[-1][1], f"the label `{val[:60]}` reaches the name list on a path that did not look it up there (or kept it although it was "
                             f"found): two rows may carry the same name and remove/update then act on the wrong one", sink="add:dup-path")
        if not seen_bad:
            ck.holds("C12.R2", f, "label uniqueness", "every stored label was checked against (or renamed because of) the existing names")
    # update_constraint = remove(name) then add(current, limit, name=new_name)
    up = repo.method(net, "update_constraint")
    ul = flow_of(up)
    rm = calls_in(ul, "remove_constraint")
    ad = calls_in(ul, "add_constraint")
    ck.require(len(rm) == 1 and len(ad) == 1 and ul.cfg.dominates(rm[0][0], ad[0][0]), "C12.R1", up, "remove then add", ok="old row removed, then the new one added",
               bad="update_constraint is not remove_constraint followed by add_constraint", sink="update:order")
    if rm and ad:
        b = bind_args(ad[0][1], f, method=True)
        un, uc, ulm, unew = up.params[1:5]
        from ..rules import specialise
        ul.gated = True
        try:
            nm_x = ul.expand(b.get(name, ast.Constant(None)), ad[0][0])
        finally:
            ul.gated = False
        given = {canon(a_) for a_ in alts_deep(specialise(nm_x, {f"{unew} is None": False, f"{unew} is not None": True}))}
        missing = {canon(a_) for a_ in alts_deep(specialise(nm_x, {f"{unew} is None": True, f"{unew} is not None": False}))}
        ok = dotted(rm[0][1].args[0] if rm[0][1].args else None) == un and dotted(b.get(cur)) == uc and dotted(b.get(lim)) == ulm and given == {unew} and missing == {un}
        ck.require(ok, "C12.R1", up, ad[0][1], ok="(current, limit, new name) forwarded by name", bad="update_constraint does not forward current/limit/new_name correctly",
                   sink="update:binding")


def rule_register(ck):
    repo = ck.repo
    f = repo.fn("ChargingNetwork.register_evse")
    fl = flow_of(f)
    cfg = fl.cfg
    writes = state_writes(fl)
    raises = [n for n in cfg.nodes if n.kind == "raise"]
    ok = any(any((c := cmp_norm(a, t)) and c[1] == "is not" and canon(c[0]) == "self.constraint_matrix" and isinstance(c[2], ast.Constant) and c[2].value is None
                 for a, t in facts_at(fl, r)) for r in raises)
    ck.require(ok, "C12.R4", f, raises[0].stmt if raises else "raise EVSERegistrationError", ok="registration refused once constraints exist (matrix is not None)",
               bad="register_evse does not raise exactly when a constraint matrix exists", sink="register:guard")
    for n, k, p, t in writes:
        guarded = any((c := cmp_norm(a, tr)) and c[1] == "is" and canon(c[0]) == "self.constraint_matrix" and isinstance(c[2], ast.Constant) and c[2].value is None
                      for a, tr in facts_at(fl, n)) or not any(n in cfg.reach(e) for e in cfg.nodes if e.kind == "edge" and e.test.kind == "test" and any(
                          (c := cmp_norm(a, tr)) and c[1] == "is not" and canon(c[0]) == "self.constraint_matrix" for a, tr in edge_facts(e.test.expr, e.label)))
        ck.require(guarded and ok, "C12.R4", f, t, ok="store only when no constraint matrix exists", bad=f"`{src(n.stmt, 60)}` can run although constraints exist: the matrix "
                   f"then has fewer columns than there are stations", sink=f"register:store:{p}")
    # a refused registration has changed nothing: no store lies on a path to the refusal
    for r in raises:
        before = [n for n, k, p, t in writes if r in cfg.reach(n)]
        ck.require(not before, "C12.R4", f, r.stmt, ok="the refusal leaves the network as it was",
                   bad=f"`{src(before[0].stmt, 60) if before else ''}` runs before the registration is refused: the station is added although constraints exist, and the matrix "
                       "then has fewer columns than there are stations", sink="register:store-before-refusal")
    # co-registration (C10-R2): the three per-station stores and the cache refresh
    paths = {p for n, k, p, t in writes}
    ck.require({"self._EVSEs", "self._voltages", "self._phase_angles"} <= paths, "C12.R4", f, "EVSE, voltage and angle registered together",
               ok="per-station arrays grow together", bad=f"register_evse updates only {sorted(paths)}", sink="register:together")
    ref = calls_in(fl, "_update_info_store")
    last_store = [n for n, k, p, t in writes]
    ck.require(bool(ref) and all(ref[-1][0] in cfg.reach(n) for n in last_store), "C12.R4", f, ref[-1][1] if ref else "_update_info_store()",
               ok="info cache refreshed after the registration", bad="the info cache is not refreshed after registering the EVSE", sink="register:refresh")
    for n, k, p, t in writes:
        if p == "self._voltages":
            ok2 = canon(n.stmt.value) == f"np.append(self._voltages, {f.params[2]})"
            ck.require(ok2, "C12.R4", f, n.stmt, ok="voltage appended (registration order)", bad="the voltage is not appended at the end", sink="register:voltage")
        if p == "self._phase_angles":
            ok2 = canon(n.stmt.value) == f"np.append(self._phase_angles, {f.params[3]})"
            ck.require(ok2, "C12.R4", f, n.stmt, ok="angle appended (registration order)", bad="the phase angle is not appended at the end", sink="register:angle")
        if p == "self._EVSEs" and k == "subassign":
            ok2 = canon(fl.expand(t.slice, n)) == f"{f.params[1]}.station_id" and canon(fl.expand(n.stmt.value, n)) == f.params[1]
            ck.require(ok2, "C12.R4", f, n.stmt, ok="EVSE stored under its own station id", bad="the EVSE is not stored under evse.station_id", sink="register:evse")


def rule_algebra(ck):
    repo = ck.repo
    cur = repo.cls("Current")
    need = {"__add__": True, "__radd__": True, "__sub__": True, "__mul__": True, "__rmul__": True}
    for op in need:
        m = cur.methods.get(op)
        alias = cur.assigns.get(op)
        ck.require(m is not None or (alias is not None and dotted(alias) in cur.methods), "C12.R5", cur, op, ok="operator defined on Current",
                   bad=f"Current does not define {op}: the result of that operation is a plain Series / NaN-filled, not a Current", sink=f"algebra:{op}:defined")
    for op in ("__add__", "__sub__", "__mul__", "__radd__", "__rmul__", "__neg__", "__truediv__"):
        m = cur.methods.get(op)
        if m is None:
            continue
        fl = flow_of(m)
        cfg = fl.cfg
        # every path returns Current(...) or raises
        for r in [n for n in cfg.nodes if n.kind == "return"]:
            e = fl.expand(r.expr, r) if r.expr is not None else None
            ok = e is not None and all(isinstance(a, ast.Call) and call_name(a) == "Current" for a in alts_deep(e))
            ck.require(ok, "C12.R5", m, r.stmt, ok="returns a Current", bad=f"{op} returns `{src(r.expr, 50) if r.expr is not None else None}`, not a Current", sink=f"algebra:{op}:return")
        falls = [p for p in cfg.exit.pred if p.kind not in ("return",)]
        ck.require(not falls, "C12.R5", m, falls[0].stmt if falls and falls[0].stmt is not None else op, ok="no path falls off the end",
                   bad=f"{op} can fall off the end and return None", sink=f"algebra:{op}:falls-off")
        for n in cfg.nodes:
            if n.kind == "stmt" and isinstance(n.stmt, ast.Expr) and isinstance(n.stmt.value, ast.Call) and (call_name(n.stmt.value) or "").endswith(("Error", "Exception")):
                ck.violation("C12.R5", m, n.stmt, f"`{src(n.stmt, 60)}` constructs an exception without raising it", sink=f"algebra:{op}:dropped-exception")
        if op in ("__add__", "__sub__", "__radd__") and len(m.params) == 2:
            # the value itself, as a linear form in (self, other), on every returning path: self + other resp. self - other, also on
            # shortcut paths taken when an operand is empty (there the empty operand counts as 0)
            me, ot = m.params[0], m.params[1]
            want = (1, 1) if op != "__sub__" else (1, -1)

            def lf(e):
                """(coefficient of self, coefficient of other) of a Current-valued expression, or None"""
                if isinstance(e, ast.Name):
                    return (1, 0) if e.id == me else ((0, 1) if e.id == ot else None)
                if isinstance(e, ast.Call):
                    nm = call_name(e)
                    if nm in ("Current", "Series", "copy", "deepcopy") and len(e.args) == 1 and not [k for k in e.keywords if k.arg not in ("dtype", "copy")]:
                        return lf(e.args[0])
                    if nm in ("add", "sub", "subtract") and isinstance(e.func, ast.Attribute) and len(e.args) == 1:
                        a, b = lf(e.func.value), lf(e.args[0])
                        if a is None or b is None:
                            return None
                        sgn = 1 if nm == "add" else -1
                        return (a[0] + sgn * b[0], a[1] + sgn * b[1])
                    if nm in ("mul", "multiply") and isinstance(e.func, ast.Attribute) and len(e.args) == 1:
                        a, k = lf(e.func.value), num(e.args[0])
                        return None if a is None or k is None else (a[0] * k, a[1] * k)
                    return None
                if isinstance(e, ast.UnaryOp) and isinstance(e.op, ast.USub):
                    a = lf(e.operand)
                    return None if a is None else (-a[0], -a[1])
                if isinstance(e, ast.BinOp) and isinstance(e.op, ast.Mult):
                    for x, y in ((e.left, e.right), (e.right, e.left)):
                        k, a = num(x), lf(y)
                        if k is not None and a is not None:
                            return (a[0] * k, a[1] * k)
                    return None
                if isinstance(e, ast.BinOp) and isinstance(e.op, (ast.Add, ast.Sub)):
                    a, b = lf(e.left), lf(e.right)
                    if a is None or b is None:
                        return None
                    sgn = 1 if isinstance(e.op, ast.Add) else -1
                    return (a[0] + sgn * b[0], a[1] + sgn * b[1])
                return None

            def num(e):
                try:
                    v = const_value(e)
                    return v if isinstance(v, (int, float)) and not isinstance(v, bool) else None
                except (ValueError, TypeError):
                    return None
            from .. import pathtab
            for row in [x for x in pathtab.table(fl) if x.end == "return"]:
                rn = [n for n in row.nodes if n.kind == "return"]
                if not rn or rn[-1].expr is None:
                    continue
                r = rn[-1]
                pos = [i for i, x in enumerate(row.nodes) if x is r][0]
                zero_self = any(t_ and k_ in (f"{me}.empty", f"len({me}) == 0") for k_, t_, a_, n_ in row.facts) or \
                    any((not t_) and k_ in (f"len({me})", me) for k_, t_, a_, n_ in row.facts)
                zero_other = any(t_ and k_ in (f"{ot}.empty", f"len({ot}) == 0") for k_, t_, a_, n_ in row.facts) or \
                    any((not t_) and k_ in (f"len({ot})", ot) for k_, t_, a_, n_ in row.facts)
                for e in alts_deep(pathtab.path_expand(fl, row.nodes, r.expr, pos)):
                    got = lf(e)
                    if got is None:
                        continue
                    ok_v = (zero_self or got[0] == want[0]) and (zero_other or got[1] == want[1])
                    ck.require(ok_v, "C12.R5", m, r.stmt, ok=f"value is self {'+' if want[1] > 0 else '-'} other on this path",
                               bad=f"{op} returns {got[0]}*self + ({got[1]})*other on this path" + (" (taken when self is empty)" if zero_self else "") +
                                   (" (taken when other is empty)" if zero_other else "") + f"; it must be self {'+' if want[1] > 0 else '-'} other: the sign / an operand is lost",
                               sink=f"algebra:{op}:value")
        if op in ("__add__", "__sub__"):
            adds = [c for n, c in calls_in(fl) if call_name(c) in ("add", "sub", "subtract")]
            ok = bool(adds) and all(any(k.arg == "fill_value" and isinstance(k.value, ast.Constant) and k.value.value == 0 for k in c.keywords) for c in adds)
            ck.require(ok, "C12.R5", m, adds[0] if adds else op, ok="stations missing on one side count as 0", bad=f"{op} does not zero-fill stations absent from one operand (NaN coefficients)",
                       sink=f"algebra:{op}:fill")
        # coefficients are combined by station *name*: no operand is turned into a positional array on the way into the result
        POSITIONAL = {"to_numpy", "tolist", "to_list"}
        for r in [n for n in cfg.nodes if n.kind == "return" and n.expr is not None]:
            for e in alts_deep(fl.expand(r.expr, r)):
                bad = [x for x in ast.walk(e) if (isinstance(x, ast.Call) and isinstance(x.func, ast.Attribute) and x.func.attr in POSITIONAL) or
                       (isinstance(x, ast.Attribute) and x.attr in ("values", "array", "iloc") and not isinstance(getattr(x, "ctx", None), ast.Store)
                        and dotted(x.value) in ("self", m.params[1] if len(m.params) > 1 else "other")) or
                       (isinstance(x, ast.Call) and call_name(x) in ("asarray", "array") and x.args and dotted(x.args[0]) in ("self", m.params[1] if len(m.params) > 1 else "other"))]
                ck.require(not bad, "C12.R5", m, r.stmt, ok="operands stay label-indexed up to the result",
                           bad=f"{op} combines coefficients positionally (`{src(bad[0], 50) if bad else ''}`): operands listing the same stations in a different order are "
                               f"added entry by entry, not station by station", sink=f"algebra:{op}:positional")
    # constructor: list of ids -> coefficient 1 each
    init = cur.methods.get("__init__")
    if init is None:
        raise AnalysisError("Current.__init__ not found")
    il = flow_of(init)
    starred = [c for n, c in calls_in(il, "__init__") if any(isinstance(a, ast.Starred) for a in c.args) or any(k.arg is None for k in c.keywords)]
    if starred and not [c for n, c in calls_in(il, "__init__") if c.args and isinstance(c.args[0], ast.DictComp)]:
        raise AnalysisError("Current.__init__: the Series is constructed through *args / **kwargs computed elsewhere (construction idiom not recognised)")
    ones = [c for n, c in calls_in(il, "__init__") if c.args and isinstance(c.args[0], ast.DictComp)]
    ok = any(isinstance(c.args[0].value, ast.Constant) and c.args[0].value.value == 1 for c in ones)
    if not ok:
        # dict.fromkeys(ids, 1), possibly through a temporary
        for n_, c in calls_in(il, "__init__"):
          if c.args:
            # one constructor call fed by a local that each branch fills: every alternative of the argument is looked at
            for a0 in alts_deep(il.expand(c.args[0], n_), limit=12):
                if isinstance(a0, ast.Call) and canon(a0.func) == "dict.fromkeys" and len(a0.args) == 2 and isinstance(a0.args[1], ast.Constant) and a0.args[1].value == 1 \
                        and canon(a0.args[0]) == init.params[1]:
                    ok = True
                    ones = [c]
                if isinstance(a0, ast.DictComp) and isinstance(a0.value, ast.Constant) and a0.value.value == 1:
                    ok = True
                    ones = [c]
    ck.require(ok, "C12.R5", init, ones[0] if ones else "Current(list of ids)", ok="a list of ids means coefficient 1 each", bad="Current(list) does not give each id coefficient 1",
               sink="algebra:init-list")


def rule_subset(ck):
    repo = ck.repo
    f = repo.fn("ChargingNetwork.constraint_current")
    fl = flow_of(f)
    sched, cons, times, linp = f.params[1:5]
    rets = [n for n in fl.cfg.nodes if n.kind == "return"]
    n_sel = 0
    for r in rets:
        for e in alts_deep(fl.expand(r.expr, r), limit=16):
            for s in ast.walk(e):
                if isinstance(s, ast.Subscript) and canon(s.value) == "self.constraint_matrix":
                    n_sel += 1
                    ix = s.slice
                    good = False
                    why = f"rows selected by `{src(ix, 70)}`"
                    if isinstance(ix, ast.Call) and call_name(ix) == "list" and ix.args and canon(ix.args[0]) == "range(len(self.constraint_index))":
                        good = True
                    elif isinstance(ix, ast.ListComp) and len(ix.generators) == 1:
                        g = ix.generators[0]
                        base = canon(iter_base(g.iter))
                        var = g.target.id if isinstance(g.target, ast.Name) else (g.target.elts[0].id if isinstance(g.target, ast.Tuple) else None)
                        pos_iter = canon(g.iter) in ("range(len(self.constraint_index))", "enumerate(self.constraint_index)")
                        if base == "self.constraint_index" and pos_iter and dotted(ix.elt) == var:
                            good = True
                        else:
                            why = (f"the row list is built by iterating `{src(g.iter, 40)}`: rows come back in the requested order (and repeated if a name repeats), "
                                   f"not in network order")
                    ck.require(good, "C12.R6", f, s, ok="rows in network order (iteration over the network's own constraint list)", bad=why, sink="subset:rows")
    ck.floor("C12.R6", n_sel, 2, "row selections in constraint_current")
    # time subset: columns of the schedule
    ts = [n for n in fl.cfg.nodes if n.kind == "stmt" and isinstance(n.stmt, ast.Assign) and isinstance(n.stmt.value, ast.Subscript)
          and isinstance(n.stmt.value.slice, ast.Tuple) and len(n.stmt.value.slice.elts) == 2 and dotted(n.stmt.value.slice.elts[1]) == times]
    ok = bool(ts) and all(isinstance(n.stmt.value.slice.elts[0], ast.Slice) and n.stmt.value.slice.elts[0].lower is None and n.stmt.value.slice.elts[0].upper is None
                          for n in ts) and all(any((c := cmp_norm(a, t)) and c[1] == "is not" and dotted(c[0]) == times for a, t in facts_at(fl, n)) for n in ts)
    ck.require(ok, "C12.R6", f, ts[0].stmt if ts else "schedule_matrix[:, time_indices]", ok="requested periods select columns, all stations kept",
               bad="the time subset is not schedule[:, time_indices] under `time_indices is not None`", sink="subset:cols")


def run(ck):
    ck.attempt(rule_comutation)
    ck.attempt(rule_add)
    ck.attempt(rule_register)
    ck.attempt(rule_algebra)
    ck.attempt(rule_subset)
    # names, rows and columns stay aligned through a JSON round trip only if the station mapping keeps its order
    from .c09 import rule_station_order_roundtrip
    ck.attempt(rule_station_order_roundtrip, rid="C12.R7")

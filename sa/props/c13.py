"""C13 - EVSEs accept exactly their allowable pilots and advertise truthful limits (structural part)."""
import ast

from ..core import AnalysisError, dotted, call_name, src, walk_local, const_value
from ..flow import edge_facts, leaves, linear, Lin
from ..rules import (flow_of, state_writes, facts_at, calls_in, bind_args, canon, cmp_norm, mutating_calls,
                     collect_list, resolve_prop, is_evse_at, visits_all_stations)
from ..nullflow import EVSE_EV, key_of

EXPLANATION = ("Static rules over models/evse.py and the info cache of charging_network.py: set_pilot stores the pilot and "
               "charges the EV only on the accepting edge of _valid_rate(pilot) and no store precedes the InvalidRateError; "
               "plugin sets the occupant only on the vacant edge and the refusal changes nothing; every concrete EVSE class "
               "overrides max_rate / allowable_pilot_signals / _valid_rate; per class the validity predicate has the "
               "specified shape (non-strict bounds each relaxed by atol in the accepting direction, isclose with rtol=0, "
               "default atol 1e-3) and its bounds are the same attributes the class advertises; the finite-rate list is "
               "stored as sorted(set(input) + {0}); every mutation of the EVSE table refreshes the advertised-limit cache, "
               "whose four fields are built in station order from the like-named EVSE properties."
               ' Added in round 3: decision table of set_pilot, writers of the occupant and callers of the EVSE-level unplug() are confined, nothing handed to a scheduler aliases the advertised-limit cache (escape analysis shared with C05), per-station accessor table.')
EXPLANATION += ' Added in rounds 4-5: every normally returning path of set_pilot has asked the validity predicate; guard-clause validity predicates are read as the boolean expression they compute; station-order round trip; nothing advertised comes from a memo on the interface.'
NOT_DECIDED = "floating-point acceptance at specific boundary values"

CONCRETE = ("EVSE", "DeadbandEVSE", "FiniteRatesEVSE")


def rule_occupant(ck, rid="C13.R2"):
    """plugin stores the EV only on the vacant edge; the other edge raises; unplug stores None."""
    repo = ck.repo
    base = repo.cls("BaseEVSE")
    pl = repo.method(base, "plugin")
    fl = flow_of(pl)
    stores = [(n, t) for n, k, p, t in state_writes(fl) if p == "self._ev"]
    ck.require(len(stores) >= 1, rid, pl, "self._ev = ev", bad="plugin never stores the EV", sink="plugin-store")
    for n, t in stores:
        vacant = False
        for a, tr in facts_at(fl, n):
            a = fl.expand(a, n)           # `occupant = self.ev; if occupant is not None: raise` tests the same thing
            if isinstance(a, ast.Compare) and len(a.ops) == 1 and isinstance(a.comparators[0], ast.Constant) and a.comparators[0].value is None:
                k = key_of(a.left, EVSE_EV.syn)
                isnone = isinstance(a.ops[0], (ast.Is, ast.Eq))
                if k == "self._ev" and ((isnone and tr) or (not isnone and not tr)):
                    vacant = True
        ck.require(vacant, rid, pl, n.stmt, ok="the occupant is only set on the vacant edge",
                   bad="BaseEVSE.plugin overwrites an occupant: the store to _ev is not guarded by `ev is None`", sink="plugin-overwrite")
        ck.require(canon(fl.expand(n.stmt.value, n)) == pl.params[1], rid, pl, n.stmt, ok="the plugged EV is the argument",
                   bad="plugin must store its argument", sink="plugin-value")
    raises = [n for n in fl.cfg.nodes if n.kind == "raise" and "StationOccupiedError" in src(n.stmt)]
    ck.require(len(raises) >= 1, rid, pl, "raise StationOccupiedError", bad="occupied station no longer refused", sink="plugin-raise")
    for r in raises:
        st = [s for s, _ in stores if r in fl.cfg.reach(s)]
        ck.require(not st, rid, pl, r.stmt, ok="refusal leaves the occupant in place", bad="a store to _ev precedes the refusal",
                   sink="plugin-raise-after-store")
    un = repo.method(base, "unplug")
    ufl = flow_of(un)
    us = [(n, t) for n, k, p, t in state_writes(ufl) if p == "self._ev"]
    ok = len(us) >= 1 and all(isinstance(n.stmt, ast.Assign) and isinstance(n.stmt.value, ast.Constant) and n.stmt.value.value is None for n, _ in us) \
        and ufl.cfg.exit not in ufl.cfg.reach(ufl.cfg.entry, avoid={n for n, _ in us})
    ck.require(ok, rid, un, us[0][0].stmt if us else "self._ev = None", ok="unplug vacates the station on every path",
               bad="BaseEVSE.unplug must set _ev to None on every path", sink="unplug-store")


def rule_occupant_writers(ck, rid="C13.R2"):
    """the occupant of a station changes only through BaseEVSE.plugin (refusing when occupied) and BaseEVSE.unplug, and the EVSE-level
    unplug is invoked only from the network's session-checked unplug: no other code path can evict or replace an occupant"""
    from ..rules import who_writes, who_calls
    repo = ck.repo
    allowed_w = {"BaseEVSE.__init__", "BaseEVSE.plugin", "BaseEVSE.unplug", "BaseEVSE._from_dict_helper", "BaseEVSE._from_dict"}
    n = 0
    for f, kind, p, t in who_writes(repo, "_ev"):
        if "/tests/" in f.module:
            continue
        n += 1
        ck.require(f.qual in allowed_w, rid, f, t, ok=f"occupant written by {f.qual}",
                   bad=f"{f.qual} writes the occupant of a station directly: the refusal / session check of plugin and unplug is bypassed", sink=f"ev-writer:{f.qual}", positive=True)
    ck.floor(rid, n, 3, "writers of BaseEVSE._ev")
    allowed_c = {"ChargingNetwork.unplug", "StochasticNetwork.unplug"}     # the contrib network overrides unplug (its guards are C19.R4/R9)
    m = 0
    for f, c in who_calls(repo, "unplug"):
        if f is None or "/tests/" in f.module or c.args or c.keywords:
            continue                      # the network-level unplug takes (station_id, session_id); the EVSE-level one takes nothing
        if isinstance(c.func, ast.Attribute) and isinstance(c.func.value, ast.Call) and call_name(c.func.value) == "super":
            continue
        m += 1
        ck.require(f.qual in allowed_c, rid, f, c, ok="EVSE.unplug() called from the session-checked network unplug",
                   bad=f"{f.qual} detaches an occupant by calling EVSE.unplug() itself: an EV can be removed without its own unplug event / session check "
                       f"(e.g. evicted by a newcomer instead of the newcomer being refused)", sink=f"evse-unplug-caller:{f.qual}", positive=True)
    ck.floor(rid, m, 1, "call sites of the EVSE-level unplug()")


ACCESSORS = {   # Interface accessor -> field(s) of the infrastructure description it reports for the given station, in order
    "max_pilot_signal": ("max_pilot",), "min_pilot_signal": ("min_pilot",), "evse_voltage": ("voltages",), "evse_phase": ("phases",),
    "allowable_pilot_signals": ("is_continuous", "allowable_pilots"),
}


def rule_accessors(ck, rid="C13.R8"):
    """what a scheduler is told about one station is that station's own entry of the like-named per-station array: the accessor returns
    <infrastructure description>.<field>[position of station_id] (position through get_station_index / index), on every path"""
    repo = ck.repo
    iface = repo.cls("Interface")
    n = 0
    for name, fields in ACCESSORS.items():
        m = repo.method(iface, name)
        fl = flow_of(m)
        sid = m.params[1]
        rets = [x for x in fl.cfg.nodes if x.kind == "return"]
        falls = [p_ for p_ in fl.cfg.exit.pred if p_.kind != "return"]
        ck.require(bool(rets) and not falls, rid, m, name, ok="always returns", bad=f"Interface.{name} can end without returning a value (None is reported to the scheduler)",
                   sink=f"{name}:returns")
        for r in rets:
            n += 1
            e = fl.expand(r.expr, r) if r.expr is not None else ast.Constant(value=None)
            parts = list(e.elts) if isinstance(e, ast.Tuple) and len(fields) > 1 else [e]
            ok = len(parts) == len(fields)
            why = ""
            for part, field in zip(parts, fields):
                x = part
                while isinstance(x, ast.Call) and isinstance(x.func, ast.Attribute) and x.func.attr in ("tolist", "item", "copy") and not x.args:
                    x = x.func.value
                while isinstance(x, ast.Call) and call_name(x) in ("float", "bool", "list", "deepcopy") and len(x.args) == 1:
                    x = x.args[0]
                good = isinstance(x, ast.Subscript) and isinstance(x.value, ast.Attribute) and x.value.attr == field and \
                    canon(x.value.value) in ("self._infrastructure_info()", "self.infrastructure_info()") and \
                    canon(x.slice) in (f"self._infrastructure_info().get_station_index({sid})", f"self.infrastructure_info().get_station_index({sid})",
                                       f"self._infrastructure_info().station_ids.index({sid})", f"self._simulator.network.get_station_index({sid})")
                if not good:
                    ok = False
                    why = f"`{src(part, 70)}` is not <infrastructure description>.{field}[position of {sid}]"
            ck.require(ok, rid, m, r.expr if r.expr is not None else name, ok=f"reports {' / '.join(fields)} of the given station",
                       bad=f"Interface.{name} must report {' / '.join(fields)} of the station it is asked about: {why}", sink=f"{name}:field")
    ck.floor(rid, n, 5, "returns of the per-station Interface accessors")


def rule_set_pilot_table(ck, rid="C13.R1"):
    """decision table of BaseEVSE.set_pilot: on every accepting path the pilot is latched exactly once (also on a vacant station) and
    a connected EV is charged exactly once with (pilot, voltage, period); a rejecting path ends in the raise with no effect."""
    from .. import pathtab
    repo = ck.repo
    sp = repo.method(repo.cls("BaseEVSE"), "set_pilot")
    fl = flow_of(sp)
    pilot, voltage, period = sp.params[1:4]
    rows = pathtab.table(fl)
    ck.count("decision-table rows (set_pilot)", len(rows))

    def valid(k, a):
        return isinstance(a, ast.Call) and call_name(a) == "_valid_rate" and a.args and canon(a.args[0]) == pilot

    def vacant(k, a):
        return k in ("self._ev is None", "self.ev is None")

    def latch(kind, k, a):
        return kind == "store" and k == f"self._current_pilot = {pilot}"

    def any_store(kind, k, a):
        return kind in ("store", "mut")

    def charge(kind, k, a):
        return kind == "call" and k in (f"self._ev.charge({pilot}, {voltage}, {period})", f"self.ev.charge({pilot}, {voltage}, {period})")

    def any_charge(kind, k, a):
        return kind == "call" and k.endswith(")") and ".charge(" in k
    acc = [r for r in rows if r.fact(valid) is True]
    rej = [r for r in rows if r.fact(valid) is False]
    pathtab.must_on(ck, rid, sp, acc, latch, 1, "the accepted pilot is recorded as the station's current pilot", "table:latch",
                    ok="every accepted pilot is latched, whether or not an EV is connected")
    pathtab.must_on(ck, rid, sp, [r for r in acc if r.fact(vacant) is False], charge, 1, "the connected EV is charged with (pilot, voltage, period)", "table:charge",
                    ok="a connected EV is charged exactly once per accepted pilot")
    pathtab.must_on(ck, rid, sp, [r for r in acc if r.fact(vacant) is True], any_charge, 0, "no charge call on a vacant station", "table:charge-vacant", floor=0)
    pathtab.must_on(ck, rid, sp, rej, any_store, 0, "a rejected pilot changes no state", "table:reject-store")
    pathtab.must_on(ck, rid, sp, rej, any_charge, 0, "a rejected pilot charges nobody", "table:reject-charge")
    bad_end = [r for r in rej if r.end != "raise"]
    ck.require(not bad_end, rid, sp, bad_end[0].describe(160) if bad_end else "rejecting paths", ok="every rejecting path raises",
               bad="a path on which _valid_rate(pilot) is false returns normally: the invalid pilot is silently dropped", sink="table:reject-raise")
    # "accepts a pilot exactly when it lies in the allowable set": a path that returns normally has asked the validity predicate
    unasked = [r for r in rows if r.fact(valid) is None and r.end != "raise"]
    ck.require(not unasked, rid, sp, unasked[0].describe(160) if unasked else "returning paths", ok="every returning path has validated the pilot",
               bad="a path returns normally without `_valid_rate(pilot)` having been asked: a pilot outside the allowable set is accepted silently "
                   "(the stored pilot it may be compared with is not itself a validated value at construction)", sink="table:unvalidated-return")
    # overrides in subclasses must go through the base implementation on every path
    for sub in repo.subclasses("BaseEVSE"):
        m = sub.methods.get("set_pilot")
        if m is None:
            continue
        sfl = flow_of(m)
        srows = [r for r in pathtab.table(sfl) if r.end != "raise"]
        def via_super(kind, k, a):
            return kind == "call" and k.startswith("super().set_pilot(")
        pathtab.must_on(ck, rid, m, srows, via_super, 1, f"{sub.name}.set_pilot delegates to BaseEVSE.set_pilot on every returning path", f"override:{sub.name}")


def rule_validate_before_mutate(ck, rid="C13.R1"):
    repo = ck.repo
    base = repo.cls("BaseEVSE")
    sp = repo.method(base, "set_pilot")
    fl = flow_of(sp)
    pilot = sp.params[1]

    def accepted(node):
        for a, t in facts_at(fl, node):
            if isinstance(a, ast.Call) and call_name(a) == "_valid_rate" and t and a.args and canon(fl.expand(a.args[0], node)) == pilot:
                return True
        return False
    writes = [(n, k, p, t) for n, k, p, t in state_writes(fl)]
    charges = [(n, c) for n, c in calls_in(fl, "charge")]
    ck.require(any(p == "self._current_pilot" for _, _, p, _ in writes), rid, sp, "self._current_pilot = pilot",
               bad="set_pilot no longer records the pilot", sink="pilot-store-exists")
    for n, k, p, t in writes:
        ck.require(accepted(n), rid, sp, n.stmt, ok="state is written only on the accepting edge of _valid_rate(pilot)",
                   bad=f"`{p}` is written before/without the pilot being validated", sink=f"store-unvalidated:{p}")
        if p == "self._current_pilot":
            ck.require(canon(fl.expand(n.stmt.value, n)) == pilot, rid, sp, n.stmt, ok="the recorded pilot is the validated argument",
                       bad="the stored pilot is not the validated argument", sink="pilot-store-value")
    ck.require(len(charges) == 1, rid, sp, charges[0][1] if charges else "self._ev.charge(...)", bad=f"{len(charges)} charge calls in set_pilot",
               sink="charge-count")
    ev = repo.cls("EV")
    for n, c in charges:
        ck.require(accepted(n), rid, sp, c, ok="the EV is charged only with a validated pilot", bad="ev.charge is reached with an unvalidated pilot",
                   sink="charge-unvalidated")
        b = bind_args(c, repo.method(ev, "charge"))
        good = all(b.get(x) is not None and canon(fl.expand(b[x], n)) == y for x, y in (("pilot", pilot), ("voltage", sp.params[2]), ("period", sp.params[3])))
        ck.require(good, rid, sp, c, ok="charge(pilot, voltage, period) bound by name", bad="ev.charge must receive (pilot, voltage, period) unchanged",
                   sink="charge-binding")
        from ..nullflow import check_optional_attr
    from ..nullflow import check_optional_attr
    check_optional_attr(ck, rid, sp, fl)
    raises = [n for n in fl.cfg.nodes if n.kind == "raise" and "InvalidRateError" in src(n.stmt)]
    ck.require(len(raises) >= 1, rid, sp, "raise InvalidRateError", bad="an invalid pilot is no longer rejected", sink="raise-exists")
    for r in raises:
        rejected = any(isinstance(a, ast.Call) and call_name(a) == "_valid_rate" and not t for a, t in facts_at(fl, r))
        ck.require(rejected, rid, sp, r.stmt, ok="raised exactly on the rejecting edge", bad="InvalidRateError not tied to _valid_rate being false",
                   sink="raise-edge")
        before = [n for n, _, _, _ in writes if r in fl.cfg.reach(n)] + [n for n, _ in charges if r in fl.cfg.reach(n)]
        ck.require(not before, rid, sp, r.stmt, ok="a rejected pilot leaves pilot, energy and battery untouched",
                   bad="a store or charge can precede the rejection", sink="raise-after-store")
    # every path: either accept-edge or raise
    edges = [n for n in fl.cfg.nodes if n.kind == "edge" and n.test.kind == "test"
             and any(isinstance(a, ast.Call) and call_name(a) == "_valid_rate" and not t for a, t in edge_facts(n.test.expr, n.label))]
    for e in edges:
        ck.require(fl.cfg.exit not in fl.cfg.reach(e), rid, sp, e.test.expr, ok="the rejecting edge always raises",
                   bad="the rejecting edge can return normally", sink="reject-returns")


def rule_exhaustive(ck, rid="C13.R3"):
    repo = ck.repo
    base = repo.cls("BaseEVSE")
    for name in ("max_rate", "allowable_pilot_signals", "_valid_rate"):
        bm = base.methods.get(name)
        if bm is None:
            raise AnalysisError(f"BaseEVSE.{name} not found")
        raises = any(isinstance(n, ast.Raise) for n in walk_local(bm.node))
        ck.require(raises, rid, bm, name, ok="abstract in the base class", bad=f"BaseEVSE.{name} no longer raises NotImplementedError", sink=f"base-{name}")
    subs = [c for c in repo.subclasses("BaseEVSE") if c.module.endswith("models/evse.py")]
    ck.floor(rid, len(subs), 3, "concrete EVSE classes")
    for c in subs:
        for name in ("max_rate", "allowable_pilot_signals", "_valid_rate"):
            m = repo.method(c, name)
            ck.require(m.cls.name != "BaseEVSE", rid, c, f"{c.name}.{name}", ok=f"overridden in {m.cls.name}",
                       bad=f"{c.name} does not override {name} (the base version raises)", sink=f"{c.name}.{name}")


def describe(e, fl, node, cls, repo, pilot, atol_name, atol_default):
    """canonical description of a validity predicate."""
    if isinstance(e, ast.BoolOp):
        tag = "and" if isinstance(e.op, ast.And) else "or"
        return (tag, frozenset(describe(v, fl, node, cls, repo, pilot, atol_name, atol_default) for v in e.values))
    if isinstance(e, ast.Compare) and len(e.ops) > 1:
        parts = []
        left = e.left
        for op, r in zip(e.ops, e.comparators):
            parts.append(describe(ast.Compare(left=left, ops=[op], comparators=[r]), fl, node, cls, repo, pilot, atol_name, atol_default))
            left = r
        return ("and", frozenset(parts))
    if isinstance(e, ast.Compare):
        c = cmp_norm(e)
        if c is None or c[1] not in ("<=", "<"):
            return ("?", src(e))
        l, op, r = c
        f = linear(l, norm=lambda s: resolve_prop(repo, cls, s)) - linear(r, norm=lambda s: resolve_prop(repo, cls, s))   # f <= 0
        t = dict(f.t)
        cp, ca = t.pop(pilot, 0), t.pop(atol_name, 0)
        if f.c != 0 and atol_default is not None and ca == 0:
            # literal tolerance written in place
            ca, cst = (-1 if f.c < 0 else 1), abs(f.c)
            if abs(cst - atol_default) > 1e-12:
                return ("tol?", cst)
        if len(t) != 1:
            return ("?", src(e))
        (b, cb), = t.items()
        kind = None
        if cp == -1 and cb == 1:
            kind = "lb"
        elif cp == 1 and cb == -1:
            kind = "ub"
        if kind is None:
            return ("?", src(e))
        relax = {-1: "relaxed", 0: "exact", 1: "tightened"}.get(ca, f"atol*{ca}")
        return (kind, b, "non-strict" if op == "<=" else "strict", relax)
    if isinstance(e, ast.Call) and call_name(e) in ("any",) and e.args:
        return ("any", describe(e.args[0], fl, node, cls, repo, pilot, atol_name, atol_default))
    if isinstance(e, ast.Call) and call_name(e) == "any" and not e.args and not e.keywords and isinstance(e.func, ast.Attribute):
        return ("any", describe(e.func.value, fl, node, cls, repo, pilot, atol_name, atol_default))      # x.any() is np.any(x)
    if isinstance(e, ast.Call) and call_name(e) == "bool" and len(e.args) == 1 and not e.keywords:
        return describe(e.args[0], fl, node, cls, repo, pilot, atol_name, atol_default)
    if isinstance(e, ast.Call) and call_name(e) in ("isclose", "allclose"):
        kw = {k.arg: k.value for k in e.keywords}
        a, b = (e.args + [None, None])[:2]
        at = kw.get("atol", e.args[3] if len(e.args) > 3 else None)
        rt = kw.get("rtol", e.args[2] if len(e.args) > 2 else None)

        def tol(x):
            if x is None:
                return "default"
            if canon(x) == atol_name:
                return atol_default
            try:
                return const_value(x)
            except (ValueError, TypeError):
                return src(x)
        other = b if canon(a) == pilot else a
        if canon(a) != pilot and canon(b) != pilot:
            return ("?", src(e))
        return ("close", resolve_prop(repo, cls, canon(other)), tol(at), tol(rt))
    if isinstance(e, ast.UnaryOp) and isinstance(e.op, ast.Not):
        return ("not", describe(e.operand, fl, node, cls, repo, pilot, atol_name, atol_default))
    return ("?", src(e))


def single_return(repo, cls, name):
    m = repo.method(cls, name)
    fl = flow_of(m)
    rets = [n for n in fl.cfg.nodes if n.kind == "return" and fl.cfg.live(n)]
    return m, fl, rets


def as_boolean(e):
    """conditional expressions read as the boolean expression they compute (c, X already expanded):
        c if c else Y = c or Y ;  X if not X else Y = X and Y ;  True if c else Y = c or Y ;  False if c else Y = not c and Y ;
        X if c else c = c and X ;  X if c else False = c and X.   Applied bottom-up; anything else is left as it is."""
    def same(a, b):
        return canon(a) == canon(b)

    def neg(x):
        return x.operand if isinstance(x, ast.UnaryOp) and isinstance(x.op, ast.Not) else ast.UnaryOp(op=ast.Not(), operand=x)

    class T(ast.NodeTransformer):
        def visit_Call(self, n):
            n = self.generic_visit(n)
            if call_name(n) == "__gamma__" and len(n.args) == 3:
                return self.visit_IfExp(ast.IfExp(test=n.args[0], body=n.args[1], orelse=n.args[2]), visited=True)
            return n

        def visit_IfExp(self, n, visited=False):
            if not visited:
                n = self.generic_visit(n)
            c, a, b = n.test, n.body, n.orelse
            if same(a, b):
                return a
            if same(a, c) or (isinstance(a, ast.Constant) and a.value is True):
                return ast.BoolOp(op=ast.Or(), values=[c, b])
            if isinstance(c, ast.UnaryOp) and isinstance(c.op, ast.Not) and (same(a, c.operand) or (isinstance(a, ast.Constant) and a.value is False)):
                return ast.BoolOp(op=ast.And(), values=[c.operand, b])
            if isinstance(a, ast.Constant) and a.value is False:
                return ast.BoolOp(op=ast.And(), values=[neg(c), b])
            if same(b, c) or (isinstance(b, ast.Constant) and b.value is False):
                return ast.BoolOp(op=ast.And(), values=[c, a])
            if isinstance(c, ast.UnaryOp) and isinstance(c.op, ast.Not) and (same(b, c.operand) or (isinstance(b, ast.Constant) and b.value is True)):
                return ast.BoolOp(op=ast.Or(), values=[c.operand, a])
            return n
    import copy as _c
    return ast.fix_missing_locations(T().visit(_c.deepcopy(e)))


def combined_return(m, fl):
    """the value of a function written with guard-clause returns as one (expanded) expression:
        `if c: return X` REST            ->  X if c else <REST>
    with the boolean identities that make short-circuit idioms readable again (c and X are expanded first):
        c if c else Y  = c or Y ;   c if not c else Y = c and Y ;   True if c else Y = c or Y ;   False if c else Y = not c and Y.
    Only straight-line bodies of assignments / guard returns / a final return are combined; anything else gives None."""
    def same(a, b):
        return canon(a) == canon(b)

    def neg(e):
        return e.operand if isinstance(e, ast.UnaryOp) and isinstance(e.op, ast.Not) else ast.UnaryOp(op=ast.Not(), operand=e)

    def node_of(st):
        return fl.cfg.by_stmt.get(id(st))

    def go(stmts):
        if not stmts:
            return None
        st = stmts[0]
        if isinstance(st, ast.Return):
            nd = node_of(st)
            if st.value is None or nd is None:
                return None
            v = fl.expand(st.value, nd)
            if "__phi__" in canon(v):
                from ..rules import gexpand
                v = as_boolean(gexpand(fl, st.value, nd))
            return v
        if isinstance(st, (ast.Assign, ast.AnnAssign, ast.Expr, ast.Pass)) and not (isinstance(st, ast.Expr) and not isinstance(st.value, ast.Constant)):
            return go(stmts[1:])
        if isinstance(st, ast.If):
            tn = node_of(st)
            if tn is None:
                return None
            c = fl.expand(st.test, tn)
            if "__phi__" in canon(c):
                from ..rules import gexpand
                c = as_boolean(gexpand(fl, st.test, tn))
            a = go(st.body + ([] if st.body and isinstance(st.body[-1], ast.Return) else stmts[1:]))
            b = go((st.orelse if st.orelse else []) + ([] if st.orelse and isinstance(st.orelse[-1], ast.Return) else stmts[1:]))
            if a is None or b is None:
                return None
            if same(a, b):
                return a                  # both arms lead to the same (already path-combined) value
            if same(a, c) or (isinstance(a, ast.Constant) and a.value is True):
                return ast.BoolOp(op=ast.Or(), values=[c, b])
            if isinstance(c, ast.UnaryOp) and isinstance(c.op, ast.Not) and (same(a, c.operand) or (isinstance(a, ast.Constant) and a.value is False)):
                return ast.BoolOp(op=ast.And(), values=[c.operand, b])
            if isinstance(a, ast.Constant) and a.value is False:
                return ast.BoolOp(op=ast.And(), values=[neg(c), b])
            if same(b, c) or (isinstance(b, ast.Constant) and b.value is False):
                return ast.BoolOp(op=ast.And(), values=[c, a])
            return ast.IfExp(test=c, body=a, orelse=b)
        return None
    body = list(m.node.body)
    if body and isinstance(body[0], ast.Expr) and isinstance(body[0].value, ast.Constant) and isinstance(body[0].value.value, str):
        body = body[1:]
    e = go(body)
    return ast.fix_missing_locations(e) if e is not None else None


def rule_agreement(ck, rid="C13.R4"):
    repo = ck.repo
    R = lambda c, s: resolve_prop(repo, c, s)
    for cname in CONCRETE:
        cls = repo.cls(cname)
        m, fl, rets = single_return(repo, cls, "_valid_rate")
        pilot = m.params[1]
        atol_name = m.params[2] if len(m.params) > 2 else "atol"
        dflt = m.defaults().get(atol_name)
        try:
            atol_default = const_value(dflt) if dflt is not None else None
        except (ValueError, TypeError):
            atol_default = None
        ck.require(atol_default == 1e-3, rid, m, f"{atol_name}={src(dflt) if dflt is not None else None}", ok="default tolerance 1e-3 A",
                   bad="the default acceptance tolerance must be 1e-3", sink=f"{cname}-atol-default")
        if len(rets) != 1:
            ce = combined_return(m, fl)
            if ce is None:
                raise AnalysisError(f"{cname}._valid_rate: expected a single return, found {len(rets)}")
            got = describe(ce, fl, rets[-1], cls, repo, pilot, atol_name, atol_default)
        else:
            from ..rules import gexpand
            ex0 = fl.expand(rets[0].expr, rets[0])
            if "__phi__" in canon(ex0):
                ex0 = as_boolean(gexpand(fl, rets[0].expr, rets[0]))     # a value chosen by guard clauses of an inlined helper
            got = describe(ex0, fl, rets[0], cls, repo, pilot, atol_name, atol_default)
        adv_m, adv_fl, adv_rets = single_return(repo, cls, "allowable_pilot_signals")
        if len(adv_rets) != 1:
            raise AnalysisError(f"{cname}.allowable_pilot_signals: expected a single return")
        adv = adv_fl.expand(adv_rets[0].expr, adv_rets[0])
        mx_m, mx_fl, mx_rets = single_return(repo, cls, "max_rate")
        mx = mx_fl.expand(mx_rets[0].expr, mx_rets[0]) if len(mx_rets) == 1 else None
        if cname in ("EVSE", "DeadbandEVSE"):
            if not (isinstance(adv, ast.List) and len(adv.elts) == 2):
                raise AnalysisError(f"{cname}.allowable_pilot_signals: expected a two-element list [low, high], got {src(adv)}")
            lo, hi = R(cls, canon(adv.elts[0])), R(cls, canon(adv.elts[1]))
            rng = ("and", frozenset([("lb", lo, "non-strict", "relaxed"), ("ub", hi, "non-strict", "relaxed")]))
            want = rng if cname == "EVSE" else ("or", frozenset([("close", "0", atol_default, 0), rng]))
            ck.require(got == want, rid, m, rets[0].expr,
                       ok=f"accepts exactly [{lo}, {hi}]" + (" plus 0" if cname != "EVSE" else "") + " within atol - the advertised range",
                       bad=f"validity predicate {fmt(got)} differs from the advertised set {fmt(want)}", sink=f"{cname}-predicate")
            ck.require(mx is not None and R(cls, canon(mx)) == hi, rid, mx_m, mx_rets[0].expr if mx_rets else "max_rate",
                       ok="advertised maximum is the validator's upper bound", bad="max_rate is not the upper bound the validator uses",
                       sink=f"{cname}-max")
            if cname == "EVSE":
                mn_m, mn_fl, mn_rets = single_return(repo, cls, "min_rate")
                ok = len(mn_rets) == 1 and R(cls, canon(mn_fl.expand(mn_rets[0].expr, mn_rets[0]))) == lo
                ck.require(ok, rid, mn_m, mn_rets[0].expr if mn_rets else "min_rate", ok="advertised minimum is the validator's lower bound",
                           bad="min_rate is not the lower bound the validator uses", sink=f"{cname}-min")
        else:
            levels = R(cls, canon(adv))
            want = ("any", ("close", levels, 1e-3, 0))
            if got[0] == "close":
                got = ("any", got)
            ck.require(got == want, rid, m, rets[0].expr, ok=f"accepts exactly the advertised levels {levels} within 1e-3",
                       bad=f"validity predicate {fmt(got)} differs from the advertised set {fmt(want)}", sink=f"{cname}-predicate")
            ok = mx is not None and isinstance(mx, ast.Call) and call_name(mx) == "max" and R(cls, canon(mx.args[0])) == levels
            ck.require(ok, rid, mx_m, mx_rets[0].expr if mx_rets else "max_rate", ok="advertised maximum is the largest level",
                       bad="max_rate must be max(allowable levels)", sink=f"{cname}-max")
            # min_rate: smallest strictly positive level, else 0
            mn = repo.method(cls, "min_rate")
            mfl = flow_of(mn)
            comps = [c for c in walk_local(mn.node) if isinstance(c, ast.ListComp) or isinstance(c, ast.GeneratorExp)]
            # a list filled by an append loop is normalised to the equivalent comprehension by the expansion
            for rn in [x for x in mfl.cfg.nodes if x.kind == "return" and x.expr is not None]:
                for sub in ast.walk(mfl.expand(rn.expr, rn)):
                    if isinstance(sub, (ast.ListComp, ast.GeneratorExp)):
                        comps.append(sub)
            ok = False
            for c in comps:
                g = c.generators[0]
                if R(cls, canon(g.iter)) == levels and len(g.ifs) == 1:
                    cn = cmp_norm(g.ifs[0])
                    if cn and canon(cn[0]) == "0" and cn[1] == "<" and canon(cn[2]) == dotted(g.target):
                        ok = True
            mins = [c for c in walk_local(mn.node) if isinstance(c, ast.Call) and call_name(c) == "min"]
            ck.require(ok and bool(mins), rid, mn, comps[0] if comps else "min_rate", ok="advertised minimum is the smallest level > 0",
                       bad="min_rate must be the smallest strictly positive level", sink=f"{cname}-min")


def fmt(d):
    if isinstance(d, tuple) and d and d[0] in ("and", "or"):
        return "(" + f" {d[0]} ".join(sorted(fmt(x) for x in d[1])) + ")"
    if isinstance(d, tuple):
        return d[0] + "[" + ", ".join(fmt(x) if isinstance(x, tuple) else str(x) for x in d[1:]) + "]"
    return str(d)


def rule_finite_normalisation(ck, rid="C13.R5"):
    repo = ck.repo
    init = repo.fn("FiniteRatesEVSE.__init__")
    fl = flow_of(init)
    param = init.params[2]
    st = [(n, t) for n, k, p, t in state_writes(fl) if p == "self.allowable_rates" and k == "assign"]
    ck.require(len(st) == 1, rid, init, st[0][1] if st else "self.allowable_rates = ...", bad="store of the level list not found", sink="levels-store")
    for n, t in st:
        v = n.stmt.value
        e = fl.expand(v, n)
        is_sorted = isinstance(e, ast.Call) and call_name(e) == "sorted" and not any(k.arg == "reverse" for k in e.keywords)
        inner = e.args[0] if is_sorted and e.args else e
        while isinstance(inner, ast.Call) and call_name(inner) == "list" and inner.args:
            inner = inner.args[0]
        has_set = any(isinstance(c, ast.Call) and call_name(c) == "set" and c.args and canon(c.args[0]) == param for c in ast.walk(inner)) \
            or any(isinstance(c, ast.SetComp) for c in ast.walk(inner))
        # zero added: S.add(0) dominating the store on the same set variable, or union with {0}
        zero = any(isinstance(c, ast.Set) and any(isinstance(x, ast.Constant) and x.value == 0 for x in c.elts) for c in ast.walk(inner))
        setvars = {dotted(x) for x in ast.walk(v) if isinstance(x, ast.Name)}
        for m_node in fl.cfg.nodes:
            for ex in fl.cfg.node_exprs(m_node):
                for p, meth, c in mutating_calls(ex):
                    if meth == "add" and p in setvars and c.args and isinstance(c.args[0], ast.Constant) and c.args[0].value == 0 \
                            and fl.cfg.dominates(m_node, n):
                        zero = True
        ck.require(is_sorted, rid, init, v, ok="levels stored in increasing order", bad="the level list must be sorted ascending", sink="levels-sorted")
        ck.require(has_set, rid, init, v, ok="duplicates removed", bad="the level list must be de-duplicated through a set", sink="levels-set")
        ck.require(zero, rid, init, v, ok="0 A is always a level", bad="0 must always be added to the allowable levels", sink="levels-zero")
    cont = [(n, t) for n, k, p, t in state_writes(fl) if p == "self.is_continuous"]
    ok = bool(cont) and all(isinstance(n.stmt.value, ast.Constant) and n.stmt.value.value is False for n, _ in cont)
    ck.require(ok, rid, init, cont[0][1] if cont else "self.is_continuous = False", ok="advertised as discrete",
               bad="a finite-rate EVSE must advertise is_continuous = False", sink="levels-discrete")


CACHE = {"max_pilot_signals": "max_rate", "min_pilot_signals": "min_rate", "allowable_rates": "allowable_pilot_signals",
         "is_continuous": "is_continuous"}


def rule_cache(ck, rid="C13.R6"):
    repo = ck.repo
    net = repo.cls("ChargingNetwork")
    # every method mutating self._EVSEs refreshes the cache afterwards
    n_mut = 0
    for m in net.methods.values():
        fl = flow_of(m)
        muts = [(n, k, t) for n, k, p, t in state_writes(fl) if p == "self._EVSEs" and k != "assign"]
        if m.name == "__init__":
            muts = []
        for n, k, t in muts:
            n_mut += 1
            refresh = [c_n for c_n, c in calls_in(fl, "_update_info_store")]
            ok = bool(refresh) and fl.cfg.exit not in fl.cfg.reach_from_succ(n, avoid=set(refresh))
            ck.require(ok, rid, m, t, ok="the advertised-limit cache is rebuilt after the EVSE table changes",
                       bad="the EVSE table is mutated without refreshing the info cache afterwards", sink=f"{m.name}-refresh")
    ck.floor(rid, n_mut, 1, "mutations of ChargingNetwork._EVSEs")
    upd = repo.method(net, "_update_info_store")
    fl = flow_of(upd)
    for field, prop in CACHE.items():
        st = [(n, t) for n, k, p, t in state_writes(fl) if p == f"self.{field}" and k == "assign"]
        if not st:
            ck.violation(rid, upd, f"self.{field} = ...", f"cache field {field} is not rebuilt", sink=f"cache-{field}-missing")
            continue
        for n, t in st:
            elems = collect_list(fl, n.stmt.value, n)
            if elems is None:
                raise AnalysisError(f"_update_info_store: construction of {field} not recognised: {src(n.stmt.value)}")
            good = bool(elems)
            why = ""
            for elt, it in elems:
                attrs = [a for a in ast.walk(elt) if isinstance(a, ast.Attribute) and a.attr in set(CACHE.values())]
                srcs = {a.attr for a in attrs}
                recv_ok = all(is_evse_at(canon(a.value)) for a in attrs)
                order_ok = it is not None and visits_all_stations(it)
                if srcs != {prop}:
                    good, why = False, f"built from {sorted(srcs) or src(elt)} instead of .{prop}"
                elif not recv_ok:
                    good, why = False, "not read from the registered EVSEs"
                elif not order_ok:
                    good, why = False, f"not iterated in station order ({src(it) if it is not None else None})"
            ck.require(good, rid, upd, n.stmt, ok=f"{field}[i] = EVSE(station_ids[i]).{prop}", bad=f"cache field {field}: {why}",
                       sink=f"cache-{field}")


def run(ck):
    ck.attempt(rule_validate_before_mutate)
    ck.attempt(rule_set_pilot_table)
    ck.attempt(rule_occupant)
    ck.attempt(rule_occupant_writers)
    ck.attempt(rule_exhaustive)
    ck.attempt(rule_agreement)
    ck.attempt(rule_finite_normalisation)
    ck.attempt(rule_cache)
    ck.attempt(rule_accessors)
    # what is advertised stays truthful only if no scheduler can edit the network's cache through an object it was handed
    from .c05 import rule_escape
    ck.attempt(rule_escape, rid="C13.R7")
    # the advertised limits are cached per position: a dump / restore that permutes the station mapping hands every station the limits of another
    from .c09 import rule_station_order_roundtrip
    ck.attempt(rule_station_order_roundtrip, rid="C13.R9")
    # "every value it advertises is itself accepted" also after limits changed: nothing advertised comes from a memo on the interface
    from .c05 import rule_stateless_view
    ck.attempt(rule_stateless_view, rid="C13.R10")

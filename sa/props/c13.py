"""C13 - EVSE pilots (placeholder while building)"""
import ast
from ..core import AnalysisError, dotted, call_name, src, walk_local
from ..rules import flow_of, state_writes, facts_at, calls_in
from ..nullflow import atom_nonnull, EVSE_EV, key_of

EXPLANATION = "under construction"


def rule_occupant(ck, rid="C13.R2"):
    """plugin stores the EV only on the vacant edge; the other edge raises; unplug stores None."""
    repo = ck.repo
    base = repo.cls("BaseEVSE")
    pl = repo.method(base, "plugin")
    fl = flow_of(pl)
    stores = [(n, t) for n, k, p, t in state_writes(fl) if p == "self._ev"]
    ck.require(len(stores) >= 1, rid, pl, "self._ev = ev", bad="plugin never stores the EV", sink="plugin-store")
    for n, t in stores:
        vacant = False
        for a, tr in facts_at(fl, n):
            if isinstance(a, ast.Compare) and len(a.ops) == 1 and isinstance(a.comparators[0], ast.Constant) and a.comparators[0].value is None:
                k = key_of(a.left, EVSE_EV.syn)
                isnone = isinstance(a.ops[0], (ast.Is, ast.Eq))
                if k == "self._ev" and ((isnone and tr) or (not isnone and not tr)):
                    vacant = True
        ck.require(vacant, rid, pl, n.stmt, ok="the occupant is only set on the vacant edge",
                   bad="BaseEVSE.plugin overwrites an occupant: the store to _ev is not guarded by `ev is None`", sink="plugin-overwrite")
    raises = [n for n in fl.cfg.nodes if n.kind == "raise" and "StationOccupiedError" in src(n.stmt)]
    ck.require(len(raises) >= 1, rid, pl, "raise StationOccupiedError", bad="occupied station no longer refused", sink="plugin-raise")
    for r in raises:
        st = [s for s, _ in stores if r in fl.cfg.reach(s)]
        ck.require(not st, rid, pl, r.stmt, ok="refusal leaves the occupant in place", bad="a store to _ev precedes the refusal",
                   sink="plugin-raise-after-store")
    un = repo.method(base, "unplug")
    ufl = flow_of(un)
    us = [(n, t) for n, k, p, t in state_writes(ufl) if p == "self._ev"]
    ok = len(us) >= 1 and all(isinstance(n.stmt, ast.Assign) and isinstance(n.stmt.value, ast.Constant) and n.stmt.value.value is None for n, _ in us) \
        and ufl.cfg.exit not in ufl.cfg.reach(ufl.cfg.entry, avoid={n for n, _ in us})
    ck.require(ok, rid, un, us[0][0].stmt if us else "self._ev = None", ok="unplug vacates the station on every path",
               bad="BaseEVSE.unplug must set _ev to None on every path", sink="unplug-store")


def run(ck):
    rule_occupant(ck)

"""C18 - analysis functions equal their first-principles definitions (structural part)."""
import ast

from ..core import AnalysisError, dotted, call_name, src, walk_local, const_value
from ..flow import leaves, linear, Lin
from ..rules import flow_of, calls_in, bind_args, canon, cmp_norm, collect_list
from ..units import check_units
from ..tables import UNITS

EXPLANATION = ("For each public function of acnsim/analysis: the declared return unit (dimension-and-scale inference) and the "
               "required data flow - which recorded quantities it reads, through which reduction (sum/max/mean, axis) and in "
               "which role (numerator/denominator, threshold direction) - are checked on the expanded return expression. "
               "constraint_currents must pair rows with the network's constraint names filtered by membership (network order, "
               "the order ChargingNetwork.constraint_current uses); NEMA = (max - mean)/mean over axis 0 of the stacked "
               "currents of exactly the requested phases; datetimes_array has one entry per simulated period spaced by the period."
               ' Added in round 3: casts to timedelta64 / datetime64 / int of a dimensioned quantity truncate (units engine); results are judged on their def-use expanded comprehension (append loops, accumulation loops).')
EXPLANATION += ' Added in rounds 4-5: the network-side definition of constraint_current (C06 rules) runs here; name/row pairing by enumerate.'
NOT_DECIDED = "numeric equality with an independent recomputation"

MOD = "acnsim/analysis/__init__.py"


def reductions(e):
    """[(name, axis or None, canon(arg))] for sum/max/min/mean reductions in function or method form."""
    out = []
    for c in [x for x in ast.walk(e) if isinstance(x, ast.Call)]:
        nm = call_name(c)
        if nm in ("sum", "max", "min", "mean", "amax", "amin", "nansum", "median"):
            axis = None
            for k in c.keywords:
                if k.arg == "axis":
                    try:
                        axis = const_value(k.value)
                    except (ValueError, TypeError):
                        axis = src(k.value)
            if isinstance(c.func, ast.Attribute) and dotted(c.func.value) not in ("np", "numpy"):
                arg = c.func.value
                if c.args and axis is None:
                    try:
                        axis = const_value(c.args[0])
                    except (ValueError, TypeError):
                        pass
            else:
                arg = c.args[0] if c.args else None
                if len(c.args) > 1 and axis is None:
                    try:
                        axis = const_value(c.args[1])
                    except (ValueError, TypeError):
                        pass
            out.append((nm.replace("amax", "max").replace("amin", "min"), axis, canon(arg) if arg is not None else None, c))
    return out


def single_return(ck, q):
    f = ck.repo.fn(q, module=MOD)
    fl = flow_of(f)
    rets = [n for n in fl.cfg.nodes if n.kind == "return" and n.expr is not None]
    if len(rets) != 1:
        raise AnalysisError(f"{q}: expected a single return, found {len(rets)}")
    return f, fl, rets[0], fl.expand(rets[0].expr, rets[0])


def session_sum(e, attr):
    """e is sum(<ev>.attr for <ev> in sim.ev_history.values())"""
    if not (isinstance(e, ast.Call) and call_name(e) == "sum" and e.args):
        return False
    g = e.args[0]
    if not isinstance(g, (ast.GeneratorExp, ast.ListComp)) or len(g.generators) != 1 or g.generators[0].ifs:
        return False
    gen = g.generators[0]
    from ..flow import _strip_seq
    return isinstance(gen.target, ast.Name) and canon(_strip_seq(gen.iter)) == "sim.ev_history.values()" and canon(g.elt) == f"{gen.target.id}.{attr}"


def rule_energy_totals(ck, rid="C18.energy"):
    for q, attr in (("total_energy_delivered", "energy_delivered"), ("total_energy_requested", "requested_energy")):
        f, fl, r, e = single_return(ck, q)
        ck.require(session_sum(e, attr), rid, f, r.expr, ok=f"sum of ev.{attr} over every session of ev_history",
                   bad=f"{q} must be the sum of ev.{attr} over sim.ev_history.values(); got {src(e)}", sink=q)
        check_units(ck, rid, f, UNITS[q])


def role(e):
    s = canon(e)
    d = "energy_delivered" in s
    r = "requested_energy" in s or "energy_requested" in s
    return "delivered" if d and not r else ("requested" if r and not d else None)


def rule_current_power(ck, rid_c="C18.current", rid_p="C18.power"):
    f, fl, r, e = single_return(ck, "aggregate_current")
    red = reductions(e)
    ok = len(red) == 1 and red[0][0] in ("sum", "nansum") and red[0][1] == 0 and red[0][2] == "sim.charging_rates"
    ck.require(ok, rid_c, f, r.expr, ok="sum over stations (axis 0) of the recorded rates",
               bad=f"aggregate current must be charging_rates summed over axis 0; got {src(e)}", sink="aggregate_current")
    f, fl, r, e = single_return(ck, "aggregate_power")
    lv = leaves(e)
    ok = "sim.network._voltages" in lv or "sim.network._voltages.T" in lv or any(x.startswith("sim.network._voltages") for x in lv)
    ok = ok and any(x.startswith("sim.charging_rates") for x in lv)
    prod = any(isinstance(c, ast.Call) and call_name(c) in ("dot", "matmul", "inner") for c in ast.walk(e)) or \
        any(isinstance(b, ast.BinOp) and isinstance(b.op, ast.MatMult) for b in ast.walk(e)) or \
        any(x[0] == "sum" and x[1] == 0 and "_voltages" in (x[2] or "") for x in reductions(e))
    ck.require(ok and prod, rid_p, f, r.expr, ok="station rates weighted by each station's own voltage, summed over stations",
               bad=f"aggregate power must weight each station's rate by its own voltage (network._voltages . charging_rates); got {src(e)}",
               sink="aggregate_power")
    check_units(ck, rid_p, f, UNITS["aggregate_power"])
    check_units(ck, rid_c, ck.repo.fn("aggregate_current", module=MOD), UNITS["aggregate_current"])


def rule_constraint_currents(ck, rid="C18.order"):
    repo = ck.repo
    f = repo.fn("constraint_currents", module=MOD)
    fl = flow_of(f)
    rets = [n for n in fl.cfg.nodes if n.kind == "return" and n.expr is not None]
    if len(rets) != 1:
        raise AnalysisError("constraint_currents: expected a single return")
    r = rets[0]
    req = f.params[2]
    cc = calls_in(fl, "constraint_current")
    ck.require(len(cc) == 1, rid, f, cc[0][1] if cc else "constraint_current(...)", bad="exactly one call to network.constraint_current expected", sink="cc-call")
    if len(cc) != 1:
        return
    n, c = cc[0]
    b = bind_args(c, repo.fn("ChargingNetwork.constraint_current"))
    sched = canon(fl.expand(b["input_schedule"], n)) if "input_schedule" in b else None
    from ..rules import uncopy_deep
    cons = uncopy_deep(fl.expand(b["constraints"], n)) if "constraints" in b else None
    ck.require(sched == "sim.charging_rates", rid, f, c, ok="computed on the recorded charging rates", bad="constraint currents must be computed on sim.charging_rates", sink="cc-input")
    # requested ids default to all
    ok = cons is not None and set(leaves(cons)) <= {req, "sim.network.constraint_index"} and req in canon(cons)
    ck.require(ok, rid, f, c, ok="for the requested constraints (all by default)", bad="the requested constraint ids are not what is passed on", sink="cc-constraints")
    # name/row pairing
    e = r.expr
    if isinstance(e, ast.Name):
        # a dict filled in a loop over the network's constraint list with a manual row counter ("filtered enumerate")
        built = fl._loop_built(e.id, next(iter(fl.defs_at(r, e.id))), r) if len(fl.defs_at(r, e.id)) == 1 else None
        tnames = {x.id for x in ast.walk(built.generators[0].target) if isinstance(x, ast.Name)} if isinstance(built, ast.DictComp) and len(built.generators) == 1 else set()
        if isinstance(built, ast.DictComp) and len(built.generators) == 1 and isinstance(built.value, ast.Subscript) and isinstance(built.value.slice, ast.Name) \
                and built.value.slice.id in tnames:
            e = built          # the row index is a loop variable (enumerate / range): the comprehension form below reads it
        elif isinstance(built, ast.DictComp) and len(built.generators) == 1 and isinstance(built.value, ast.Subscript) and isinstance(built.value.slice, ast.Name):
            g = built.generators[0]
            k = built.value.slice.id
            var = dotted(g.target)
            lp = [n_ for n_ in fl.cfg.nodes if n_.kind == "for" and canon(n_.stmt.iter) == canon(g.iter)]
            reg = fl.cfg.loop_region(lp[0]) if lp else set()
            stores = [n_ for n_ in reg if n_.kind == "stmt" and isinstance(n_.stmt, ast.Assign) and isinstance(n_.stmt.targets[0], ast.Subscript) and dotted(n_.stmt.targets[0].value) == e.id]
            incs = [n_ for n_ in reg if n_.kind == "stmt" and isinstance(n_.stmt, ast.AugAssign) and dotted(n_.stmt.target) == k]
            init = [d for d in fl.cfg.nodes if d.kind == "stmt" and isinstance(d.stmt, ast.Assign) and any(dotted(t) == k for t in d.stmt.targets)]
            counter_ok = len(stores) == 1 and len(incs) == 1 and isinstance(incs[0].stmt.op, ast.Add) and canon(incs[0].stmt.value) == "1" and len(init) == 1 \
                and canon(init[0].stmt.value) == "0" and lp and fl.cfg.dominates(init[0], lp[0]) and fl.cfg.dominates(stores[0], incs[0]) \
                and {(t.id, lab) for t, lab in fl.cfg.edges_dominating(stores[0])} == {(t.id, lab) for t, lab in fl.cfg.edges_dominating(incs[0])}
            net_order = canon(fl.expand(g.iter, r)) == "sim.network.constraint_index" and dotted(built.key) == var
            member = False
            for cnd in g.ifs:
                for a_, t_ in __import__("sa.flow", fromlist=["edge_facts"]).edge_facts(cnd, True):
                    c_ = cmp_norm(a_, t_)
                    if c_ and c_[1] == "in" and canon(c_[0]) == var and set(leaves(fl.expand(c_[2], r))) <= {req, "sim.network.constraint_index"}:
                        member = True
            rows_ok = call_name(_strip_abs(fl.expand(built.value.value, r))) == "constraint_current"
            ck.require(counter_ok, rid, f, built.value, ok="row counter starts at 0 and advances by one with every stored entry", bad="the manual row counter does not advance exactly once per stored entry", sink="pair-iter")
            ck.require(rows_ok, rid, f, built.value.value, ok="rows are those returned by constraint_current", bad="the rows paired with names are not constraint_current's result", sink="pair-rows")
            ck.require(net_order and member and len(g.ifs) >= 1, rid, f, g.iter, ok="names = network.constraint_index filtered by membership: the order constraint_current returns rows in",
                       bad="row names must follow the network's constraint order (filter of network.constraint_index by the requested ids)", sink="pair-names-network-order")
            return
    if not isinstance(e, ast.DictComp) or len(e.generators) != 1:
        raise AnalysisError(f"constraint_currents: result construction not recognised: {src(e)}")
    g = e.generators[0]
    key, val = e.key, e.value
    names = rows = None
    idx = g.target.id if isinstance(g.target, ast.Name) else None
    it = fl.expand(g.iter, r)
    if isinstance(key, ast.Subscript) and isinstance(val, ast.Subscript) and idx and canon(key.slice) == idx and canon(val.slice) == idx:
        names, rows = key.value, val.value
        ok_range = canon(it) in (f"range(len({canon(fl.expand(names, r))}))",) or (call_name(it) == "range" and call_name(it.args[0]) == "len")
    elif call_name(it) == "zip" and isinstance(g.target, ast.Tuple):
        names, rows = it.args[0], it.args[1]
        ok_range = True
    elif isinstance(g.iter, ast.Call) and call_name(g.iter) == "enumerate" and len(g.iter.args) == 1 and isinstance(g.target, ast.Tuple) and len(g.target.elts) == 2 \
            and all(isinstance(x, ast.Name) for x in g.target.elts) and isinstance(val, ast.Subscript) and canon(val.slice) == g.target.elts[0].id \
            and canon(key) == g.target.elts[1].id:
        # {name: rows[i] for i, name in enumerate(names)}
        names, rows = g.iter.args[0], val.value
        ok_range = True
    else:
        raise AnalysisError(f"constraint_currents: pairing idiom not recognised: {src(e)}")
    ck.require(ok_range, rid, f, g.iter, ok="one entry per returned row", bad="names and rows are not iterated together", sink="pair-iter")
    rows_ok = call_name(_strip_abs(fl.expand(rows, r))) == "constraint_current"
    ck.require(rows_ok, rid, f, rows, ok="rows are those returned by constraint_current (optionally magnitudes)", bad="the rows paired with names are not constraint_current's result",
               sink="pair-rows")
    lst = collect_list(fl, names if isinstance(names, ast.Name) else names, r)
    good = False
    why = "not a filter of network.constraint_index"
    if lst is not None and len(lst) == 1:
        elt, src_it = lst[0]
        if isinstance(src_it, ast.Call) and call_name(src_it) == "__filtered__" and canon(src_it.args[0]) == "sim.network.constraint_index" \
                and canon(elt) == "__elem__(sim.network.constraint_index)":
            good = True
    elif lst is None:
        nv = fl.expand(names, r)
        why = f"names are {src(nv)}"
        if canon(nv) == "sim.network.constraint_index":
            good = False
    ck.require(good, rid, f, names, ok="names = network.constraint_index filtered by membership: the order constraint_current returns rows in",
               bad=f"row names must follow the network's constraint order (filter of network.constraint_index), whatever order was requested: {why}",
               sink="pair-names-network-order")
    if good:
        # the filter tests membership in the requested ids
        comp = None
        for d in fl.defs_at(r, names.id) if isinstance(names, ast.Name) else []:
            how = fl.def_how(d, names.id)
            if how[0] == "assign" and isinstance(how[1], ast.ListComp):
                comp = (how[1], d)
        if comp:
            flt = comp[0].generators[0].ifs
            c_ = cmp_norm(flt[0]) if len(flt) == 1 else None
            okf = c_ is not None and c_[1] == "in" and canon(c_[0]) == dotted(comp[0].generators[0].target) and \
                set(leaves(uncopy_deep(fl.expand(c_[2], comp[1])))) <= {req, "sim.network.constraint_index"}
            ck.require(bool(okf), rid, f, comp[0], ok="filtered by membership in the requested ids", bad="the name filter must test membership in the requested ids", sink="pair-names-filter")


def _strip_abs(e):
    while isinstance(e, ast.Call) and call_name(e) in ("abs", "absolute", "__phi__") and e.args:
        if call_name(e) == "__phi__":
            # both alternatives wrap the same call
            e = e.args[0]
        else:
            e = e.args[0]
    return e


def rule_proportions(ck, rid="C18.proportion"):
    f, fl, r, e = single_return(ck, "proportion_of_energy_delivered")
    ok = isinstance(e, ast.BinOp) and isinstance(e.op, ast.Div) and role(e.left) == "delivered" and role(e.right) == "requested"
    ck.require(ok, rid, f, r.expr, ok="delivered / requested", bad=f"must be total delivered divided by total requested; got {src(e)}", sink="energy-ratio")
    if ok:
        for side, attr in ((e.left, "energy_delivered"), (e.right, "requested_energy")):
            if isinstance(side, ast.Call) and call_name(side) == "sum":
                ck.require(session_sum(side, attr), rid, f, side, ok=f"sum of ev.{attr} over all sessions", bad=f"must sum ev.{attr} over sim.ev_history.values()", sink=f"ratio-{attr}")
    f, fl, r, e = single_return(ck, "proportion_of_demands_met")
    thr = f.params[1]
    ok = isinstance(e, ast.BinOp) and isinstance(e.op, ast.Div) and canon(e.right) in ("len(sim.ev_history)", "len(sim.ev_history.values())", "len(list(sim.ev_history.values()))",
                                                                                       "len(sim.ev_history.keys())", "len(sim.ev_history.items())")
    cnt_ok = False
    if ok and isinstance(e.left, ast.Call) and call_name(e.left) in ("sum", "len") and e.left.args:
        g = e.left.args[0]
        if isinstance(g, (ast.GeneratorExp, ast.ListComp)) and len(g.generators) == 1 and len(g.generators[0].ifs) == 1 \
                and canon(g.generators[0].iter) == "sim.ev_history.values()":
            c = cmp_norm(g.generators[0].ifs[0])
            v = dotted(g.generators[0].target)
            cnt_ok = c is not None and canon(c[0]) == f"{v}.remaining_demand" and c[1] in ("<", "<=") and canon(c[2]) == thr
            if call_name(e.left) == "sum":
                cnt_ok = cnt_ok and isinstance(g.elt, ast.Constant) and g.elt.value == 1
    ck.require(ok and cnt_ok, rid, f, r.expr, ok="(# sessions with remaining demand below the threshold) / (# sessions)",
               bad=f"must count sessions whose remaining demand is *below* the threshold, over len(ev_history); got {src(e)}", sink="demands-met")


def rule_demand_cost(ck):
    repo = ck.repo
    f, fl, r, e = single_return(ck, "demand_charge")
    red = [x for x in reductions(e)]
    agg_ok = any(x[0] == "max" and x[2] and "aggregate_power(sim)" in x[2] for x in red) and not any(x[0] in ("mean", "min", "sum", "median") for x in red)
    dc_ok = any(isinstance(c, ast.Call) and call_name(c) == "get_demand_charge" and c.args and canon(c.args[0]) == "sim.start" for c in ast.walk(e))
    ck.require(agg_ok and dc_ok and isinstance(e, ast.BinOp) and isinstance(e.op, ast.Mult), "C18.demand", f, r.expr, ok="demand rate x peak (max) aggregate power",
               bad=f"demand charge must be get_demand_charge(sim.start) x max(aggregate power); got {src(e)}", sink="demand_charge")
    check_units(ck, "C18.demand", f, UNITS["demand_charge"])
    f, fl, r, e = single_return(ck, "energy_cost")
    check_units(ck, "C18.cost", f, UNITS["energy_cost"])
    gt = [(n, c) for n, c in calls_in(fl, "get_tariffs")]
    ok = False
    if len(gt) == 1:
        n, c = gt[0]
        tar = repo.fn("TimeOfUseTariff.get_tariffs")
        b = bind_args(c, tar)
        ok = canon(fl.expand(b.get("start", ast.Constant(value=0)), n)) == "sim.start" and canon(fl.expand(b.get("length", ast.Constant(value=0)), n)) == "len(aggregate_power(sim))" \
            and canon(fl.expand(b.get("period", ast.Constant(value=0)), n)) == "sim.period"
    ck.require(ok, "C18.cost", f, gt[0][1] if gt else "get_tariffs", ok="prices for every recorded period from sim.start at sim.period",
               bad="energy_cost must price each recorded period: get_tariffs(sim.start, len(aggregate power), sim.period)", sink="cost-prices")
    dot = any(isinstance(c, ast.Call) and call_name(c) == "dot" for c in ast.walk(e)) or any(isinstance(b_, ast.BinOp) and isinstance(b_.op, ast.MatMult) for b_ in ast.walk(e)) \
        or any(x[0] == "sum" for x in reductions(e))
    ck.require(dot and "aggregate_power(sim)" in canon(e), "C18.cost", f, r.expr, ok="sum over periods of price x power x dt", bad="energy cost must be the price-weighted sum of aggregate power",
               sink="cost-sum")


def rule_nema(ck, rid="C18.nema"):
    repo = ck.repo
    f = repo.fn("_nema_current_unbalance", module=MOD)
    fl = flow_of(f)
    rets = [n for n in fl.cfg.nodes if n.kind == "return" and n.expr is not None]
    if len(rets) != 1:
        raise AnalysisError("_nema_current_unbalance: expected a single return")
    r = rets[0]
    e = fl.expand(r.expr, r)
    phase = f.params[1]
    ok = isinstance(e, ast.BinOp) and isinstance(e.op, ast.Div) and isinstance(e.left, ast.BinOp) and isinstance(e.left.op, ast.Sub)
    shape = False
    X = None
    if ok:
        a, b, d = reductions(e.left.left), reductions(e.left.right), reductions(e.right)
        if len(a) == 1 and len(b) == 1 and len(d) == 1:
            shape = a[0][0] == "max" and b[0][0] == "mean" and d[0][0] == "mean" and a[0][1] == b[0][1] == d[0][1] == 0 and a[0][2] == b[0][2] == d[0][2]
            X = a[0][3]
    ck.require(ok and shape, rid, f, r.expr, ok="(max - mean) / mean over the phase axis", bad=f"NEMA unbalance must be (max - mean)/mean over axis 0 of the same currents; got {src(e)}",
               sink="nema-formula")
    if X is not None:
        arg = X.args[0] if X.args and not (isinstance(X.func, ast.Attribute) and dotted(X.func.value) not in ("np", "numpy")) else X.func.value
        s = canon(arg)
        stacked = s.startswith("np.vstack(") or s.startswith("np.array(") or s.startswith("np.stack(")
        of_phases = f"for phase in {phase}" in s or f"in {phase}]" in s
        ccf = repo.fn("constraint_currents", module=MOD)
        ccs = [x for x in ast.walk(arg) if isinstance(x, ast.Call) and call_name(x) == "constraint_currents"]
        from_cc = len(ccs) == 1 and (lambda b: dotted(b.get(ccf.params[0])) == f.params[0] and dotted(b.get("constraint_ids")) == phase
                                     and set(b) <= {ccf.params[0], "constraint_ids", "return_magnitudes"})(bind_args(ccs[0], ccf, method=False))
        ck.require(stacked and of_phases and from_cc, rid, f, arg, ok="stacked magnitudes of exactly the requested phase constraints",
                   bad="the currents must be the constraint currents of exactly phase_ids, stacked phase by phase", sink="nema-currents")
    cu = repo.fn("current_unbalance", module=MOD)
    cfl = flow_of(cu)
    calls = [(n, c) for n, c in calls_in(cfl, "_nema_current_unbalance")]
    ok = len(calls) == 1 and [canon(a) for a in calls[0][1].args] == [cu.params[0], cu.params[1]]
    ck.require(ok, rid, cu, calls[0][1] if calls else "_nema_current_unbalance(sim, phase_ids)", ok="delegates with (sim, phase_ids)", bad="current_unbalance must delegate with (sim, phase_ids)",
               sink="nema-delegate")


def rule_datetimes(ck, rid="C18.datetimes"):
    check_units(ck, rid, ck.repo.fn("datetimes_array"), UNITS["datetimes_array"])     # first: also reports truncation of the period
    f, fl, r, e = single_return(ck, "datetimes_array")
    # the (def-use expanded) result: a list / array built by one comprehension or an append loop (which expands to a comprehension)
    from ..flow import _strip_seq
    ex = e
    while isinstance(ex, ast.Call) and call_name(ex) in ("array", "asarray", "list", "tuple") and ex.args:
        ex = ex.args[0]
    if not (isinstance(ex, (ast.ListComp, ast.GeneratorExp)) and len(ex.generators) == 1 and not ex.generators[0].ifs):
        raise AnalysisError(f"datetimes_array: construction not recognised: {src(r.expr)}")
    comp = [ex]
    rng = _strip_seq(comp[0].generators[0].iter)
    ok = rng is not None and call_name(rng) == "range" and len(rng.args) == 1 and linear(rng.args[0], norm=canon) == Lin({"sim._iteration": 1})
    ck.require(ok, rid, f, comp[0].generators[0].iter if comp else r.expr, ok="one entry per simulated period: range(sim.iteration)",
               bad="datetimes_array must have exactly sim.iteration entries (indices 0..iteration-1)", sink="datetimes-range")
    var = dotted(comp[0].generators[0].target) if comp else None
    td = [c for c in ast.walk(comp[0].elt if comp else r.expr) if isinstance(c, ast.Call) and call_name(c) == "timedelta"]
    good = False
    if len(td) == 1 and var:
        kw = {k.arg: k.value for k in td[0].keywords}
        if set(kw) == {"minutes"}:
            v = kw["minutes"]
            good = isinstance(v, ast.BinOp) and isinstance(v.op, ast.Mult) and {canon(v.left), canon(v.right)} == {"sim.period", var}
        # timedelta(minutes=period) * i
        par = [b for b in ast.walk(comp[0].elt) if isinstance(b, ast.BinOp) and isinstance(b.op, ast.Mult) and (b.left is td[0] or b.right is td[0])]
        if set(kw) == {"minutes"} and canon(kw["minutes"]) == "sim.period" and par:
            other = par[0].right if par[0].left is td[0] else par[0].left
            good = canon(other) == var
    starts = "sim.start" in canon(comp[0].elt)
    ck.require(good and starts, rid, f, comp[0].elt if comp else r.expr, ok="entry i = start + i x period (minutes)",
               bad="entry i must be sim.start + timedelta(minutes=sim.period * i)", sink="datetimes-step")


def run(ck):
    # names are attached in network order: constraint_current must return its rows in network order too (shared with C12)
    from .c12 import rule_subset
    ck.attempt(rule_subset)
    ck.attempt(rule_current_power)
    ck.attempt(rule_constraint_currents)
    ck.attempt(rule_energy_totals)
    ck.attempt(rule_proportions)
    ck.attempt(rule_demand_cost)
    ck.attempt(rule_nema)
    ck.attempt(rule_datetimes)
    # "constraint currents are the phase-aware weighted sums for the requested constraints": the analysis function delegates to
    # ChargingNetwork.constraint_current, whose own definition (deg2rad, unit phasors, coefficient x schedule, rows selected from the
    # network's *present* matrix) is established by the network-side rules of C06 (they report under their C06 ids)
    from .c06 import rule_network
    ck.attempt(rule_network)

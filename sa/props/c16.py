"""C16 - predefined site networks never admit more power than the transformer ratings (structural part + lemma)."""
import ast
import itertools

from ..core import AnalysisError, const_value, call_name, dotted
from ..sites_eval import evaluate_site, Sym, Net, TFloat, deps_of

EXPLANATION = ("The three site factories (caltech_acn, jpl_acn, office001_acn) and simple_acn are partially evaluated from their syntax "
               "trees with the transformer capacities kept symbolic, for basic_evse in {False, True}; on the evaluated tables: every EVSE "
               "has a unique id, a type string the EVSE factory handles and one of the angles 30/-90/150; every station named in a "
               "constraint is registered; for every capacity parameter there is a triple of unit-coefficient constraints that are (up to a "
               "sign per row) the wye line currents I_a=AB-CA, I_b=BC-AB, I_c=CA-BC of one station set whose three line-to-line groups carry "
               "angles (t, t-120, t+120), with limit c*capacity, 0 < c <= 1000/(3*120) and no constant term; those station sets cover every "
               "EVSE of the site; every rated pod / sub-panel constraint (by its public name) exists, is a single-angle unit sum resp. a "
               "line-current triple inside one transformer's set, with a limit not above the documented rating; the basic and real-EVSE "
               "variants build identical constraint tables. With the hand lemma P = Re sum V_phi conj(I_phi) <= 120(|Ia|+|Ib|+|Ic|) this "
               "bounds the power through each transformer by its capacity for every feasible schedule and every capacity value. The "
               "`voltage` argument is evaluated as a tainted number: no constraint limit may be computed from it (ratings are at nominal "
               "voltages); a dependent limit is re-evaluated at half and twice the default voltage and reported with the violating value.")
EXPLANATION += " Added in rounds 4-5: `+=` on a Current is evaluated with pandas' in-place semantics (left operand's index kept, aliases updated), distinct from `x = x + y`; module constants, helpers of sibling site modules, namedtuples, lambdas and *args are interpreted; C12's algebra rule runs here because the tables are built with it; station-order round trip."
NOT_DECIDED = ("that ChargingNetwork.is_feasible evaluates the phasor sums correctly (C06) and that Current implements the algebra the "
               "evaluator assumes (C12); the 360*tolerance slack the feasibility check itself grants")

ANGLES = (30, -90, 150)
K_SECONDARY = 1000.0 / (3 * 120)
NON_CAP = ("basic_evse", "voltage", "network_type")

# rated (constant-limit) constraints, keyed by their public constraint names; ratings from the site documentation
# (Caltech pods: 80 A; JPL sub-panels 1/2: 100 A per phase; JPL 3rd/4th floor panels: 225 A per phase)
SITES = {
    "caltech_acn": dict(module="sites/caltech_acn.py", pods={"CC Pod": 80, "AV Pod": 80}, panels={}),
    "office001_acn": dict(module="sites/office001_acn.py", pods={}, panels={}),
    "jpl_acn": dict(module="sites/jpl_acn.py", pods={},
                    panels={"First Floor SP1": 100, "First Floor SP2": 100, "Third Floor Panel": 225, "Fourth Floor Panel": 225}),
}
MIN_EVSES = {"caltech_acn": 40, "jpl_acn": 40, "office001_acn": 6}


def angle_eq(a, b):
    return (a - b) % 360 == 0


def match_triple(rows, angle):
    """rows: three {station: coef}.  Returns (groups, None) when the rows are, up to a sign per row, the line currents
    (G1-G3, G2-G1, G3-G2) of disjoint groups with angles (t, t-120, t+120); else (None, reason)."""
    reason = "rows are not (up to sign) AB-CA, BC-AB, CA-BC of one station set"
    for r in rows:
        if any(abs(abs(v) - 1) > 1e-9 for v in r.values() if v != 0):
            return None, "a coefficient differs from +-1"
    for signs in itertools.product((1, -1), repeat=3):
        pn = []
        for r, s in zip(rows, signs):
            pn.append((frozenset(k for k, v in r.items() if v * s > 0), frozenset(k for k, v in r.items() if v * s < 0)))
        for perm in itertools.permutations(range(3)):
            (pa, na), (pb, nb), (pc, nc) = pn[perm[0]], pn[perm[1]], pn[perm[2]]
            if pa == nb and pb == nc and pc == na:
                g1, g2, g3 = pa, pb, pc
                if (g1 & g2) or (g2 & g3) or (g1 & g3) or not (g1 | g2 | g3):
                    continue
                # angle relation
                angs = []
                bad = None
                for g in (g1, g2, g3):
                    a = {angle.get(k) for k in g}
                    if len(a) > 1:
                        bad = f"stations of one line-to-line group carry different angles {sorted(a, key=str)}"
                    angs.append(next(iter(a)) if len(a) == 1 else None)
                if bad:
                    reason = bad
                    continue
                ok = True
                known = [(i, a) for i, a in enumerate(angs) if a is not None]
                for (i, a), (j, b) in itertools.combinations(known, 2):
                    # group index i has angle t - 120*i  (G1: t, G2: t-120, G3: t+120 == t-240)
                    if not angle_eq(a - b, -120 * (i - j)):
                        ok = False
                if not ok:
                    reason = (f"the groups' angles {angs} are not (t, t-120, t+120): the constraint rows do not pair the line-to-line "
                              f"groups with the phases their angles say")
                    continue
                return (g1, g2, g3), None
    return None, reason


def check_site(ck, name, spec, basic, entry=None, voltage=None):
    repo = ck.repo
    fn = repo.fn(entry or name, module=spec["module"])
    from ..rules import ANALYSED
    ANALYSED[fn.qual] = fn.module            # evaluated by sa/sites_eval.py: part of what the thorough tier mutates
    for q, lst in repo.funcs.items():
        for x in lst:
            if x.module == fn.module and x.qual != fn.qual and (x.parent is not None or x.cls is None) and not q.startswith("Caltech"):
                ANALYSED.setdefault(x.qual, x.module)   # helpers of the site module (nested transformer / panel builders)
    params = fn.params
    caps = [p for p in params if p not in NON_CAP]
    if not caps:
        raise AnalysisError(f"{name}: no capacity parameter found (parameters {params})")
    over = {c: Sym(0, {c: 1}) for c in caps}
    if "basic_evse" not in params:
        raise AnalysisError(f"{name}: parameter basic_evse vanished")
    over["basic_evse"] = basic
    v0 = None
    if "voltage" in params:
        # the site voltage is evaluated as a *tainted* number: every value computed from it remembers the dependence, so a limit that
        # follows the `voltage` argument (ratings are at the nominal 208 V / 120 V whatever voltage the EVSEs are registered with) is seen
        try:
            v0 = float(const_value(fn.defaults()["voltage"])) if voltage is None else float(voltage)
        except (KeyError, ValueError, TypeError):
            raise AnalysisError(f"{name}: default of parameter voltage is not a literal")
        over["voltage"] = TFloat(v0, {"voltage"})
    net, _ = evaluate_site(repo, spec["module"], entry or name, **over)
    tag = f"{entry or name}(basic_evse={basic})" if voltage is None else f"{entry or name}(basic_evse={basic}, voltage={voltage:g})"
    btag = f"{basic}" if voltage is None else f"{basic}@{voltage:g}V"
    ck.count("evaluated EVSE registrations", len(net.evses))
    ck.count("evaluated constraints", len(net.cons))
    if len(net.evses) < MIN_EVSES[name]:
        ck.error("C16.F1", f"{tag}: only {len(net.evses)} EVSEs evaluated (floor {MIN_EVSES[name]})")

    # ---- F1 registrations
    handled = handled_types(repo)
    ids = [e[0] for e in net.evses]
    dup = sorted({i for i in ids if ids.count(i) > 1})
    ck.require(not dup, "C16.F1", fn, f"{tag}: station ids", ok=f"{len(ids)} unique station ids", bad=f"station ids registered twice: {dup}",
               sink=f"{btag}:dup-id")
    bad_ang = sorted({(i, a) for i, t, v, a, ln in net.evses if not any(isinstance(a, (int, float)) and angle_eq(a, x) for x in ANGLES)}, key=str)
    ck.require(not bad_ang, "C16.F1", fn, f"{tag}: phase angles", ok="every EVSE has one of the line-to-line angles 30/-90/150",
               bad=f"EVSEs with an angle outside {{30,-90,150}}: {bad_ang[:6]}", sink=f"{btag}:angle")
    bad_ty = sorted({(i, t) for i, t, v, a, ln in net.evses if t not in handled}, key=str)
    ck.require(not bad_ty, "C16.F1", fn, f"{tag}: EVSE types", ok=f"every type string is handled by get_evse_by_type {sorted(handled)}",
               bad=f"type strings get_evse_by_type does not handle (it would return None): {bad_ty[:6]}", sink=f"{btag}:type")
    want_basic = {t for _, t, _, _, _ in net.evses}
    if basic:
        ck.require(want_basic == {"BASIC"}, "C16.F1", fn, f"{tag}: basic types", ok="basic_evse=True registers only BASIC EVSEs",
                   bad=f"basic_evse=True registers types {sorted(want_basic)}", sink="basic-only")
    angle = {i: a for i, t, v, a, ln in net.evses}
    registered = set(ids)
    for cname, cur, lim, ln in net.cons:
        unk = sorted(k for k, v in cur.coef.items() if v != 0 and k not in registered)
        ck.require(not unk, "C16.F1", fn, f"{tag}: constraint {cname!r}", ok="every station of the constraint is registered",
                   bad=f"constraint names unregistered stations {unk[:6]} (add_constraint would raise)", sink=f"{btag}:{cname}:unregistered")

    # ---- F2 transformer triples
    covered = set()
    transformer_sets = []
    for cap in caps:
        rows = [(cname, {k: v for k, v in cur.coef.items() if v != 0}, lim) for cname, cur, lim, ln in net.cons
                if isinstance(lim, Sym) and cap in lim.t]
        unit = [r for r in rows if r[1] and all(abs(abs(v) - 1) < 1e-9 for v in r[1].values())]
        found = None
        why = f"no constraint limit depends on capacity parameter {cap!r}" if not rows else "no unit-coefficient rows bounded by this capacity"
        for tri in itertools.combinations(unit, 3):
            groups, reason = match_triple([t[1] for t in tri], angle)
            if groups is None:
                why = reason
                continue
            found = (tri, groups)
            break
        ck.require(found is not None, "C16.F2", fn, f"{tag}: line-current triple for {cap}",
                   ok="three constraints are the wye line currents of one station set with consistent angles",
                   bad=f"no triple of secondary (line-current) constraints for {cap}: {why}", sink=f"{btag}:{cap}:triple")
        if not found:
            continue
        tri, groups = found
        s = set().union(*groups)
        covered |= s
        transformer_sets.append((cap, s))
        for cname, row, lim in tri:
            others = {k: v for k, v in lim.t.items() if k != cap}
            coef = lim.t.get(cap, 0)
            good = not others and abs(lim.c) < 1e-12 and 0 < coef <= K_SECONDARY * (1 + 1e-9)
            ck.require(good, "C16.F2", fn, f"{tag}: limit of {cname!r} = {lim}",
                       ok=f"limit = {coef:.6g}*{cap} <= capacity*1000/(3*120), no constant term",
                       bad=f"the secondary limit must be c*{cap} with 0 < c <= {K_SECONDARY:.6g} (= 1000/(3*120 V)) and no constant term; "
                           f"got {lim}: feasible schedules could draw more than the rated power", sink=f"{btag}:{cname}:limit")
    # every capacity-bounded unit row must belong to the structure (a fourth stray row is fine; a missing one was reported above)

    # ---- F3 coverage
    missing = sorted(registered - covered)
    ck.require(not missing, "C16.F3", fn, f"{tag}: transformer coverage", ok=f"all {len(registered)} EVSEs are inside a transformer's line-current triple",
               bad=f"EVSEs not covered by any transformer constraint: {missing[:8]}", sink=f"{btag}:coverage")
    for (c1, s1), (c2, s2) in itertools.combinations(transformer_sets, 2):
        if s1 & s2:
            ck.note(f"{tag}: transformers {c1} and {c2} share stations {sorted(s1 & s2)[:4]} (double counted, conservative)")

    # ---- F4 rated constraints
    const_rows = [(cname, {k: v for k, v in cur.coef.items() if v != 0}, lim) for cname, cur, lim, ln in net.cons if not isinstance(lim, Sym)]
    for pod, rating in spec["pods"].items():
        hit = [r for r in const_rows if r[0] == pod]
        ck.require(len(hit) == 1, "C16.F4", fn, f"{tag}: pod constraint {pod!r}", ok="present", bad=f"{len(hit)} constraints named {pod!r} (need 1)",
                   sink=f"{btag}:{pod}:exists")
        for cname, row, lim in hit:
            vals = set(row.values())
            angs = {angle.get(k) for k in row}
            ck.require(bool(row) and (vals == {1} or vals == {-1}) and len(angs) == 1, "C16.F4", fn, f"{tag}: {cname!r} row",
                       ok=f"unit-coefficient sum over {len(row)} stations of one angle (phasor magnitude = plain sum)",
                       bad=f"a pod constraint must be a unit-coefficient sum over stations of a single angle; coefficients {sorted(vals)}, angles {sorted(angs, key=str)}",
                       sink=f"{btag}:{pod}:row")
            ck.require(isinstance(lim, (int, float)) and 0 < lim <= rating, "C16.F4", fn, f"{tag}: {cname!r} limit {lim}",
                       ok=f"limit {lim} A <= rating {rating} A", bad=f"limit {lim} exceeds the pod's {rating} A rating", sink=f"{btag}:{pod}:limit")
    if "CC Pod" in spec["pods"] and not basic:
        cc = {i for i, t, v, a, ln in net.evses if t == "ClipperCreek"}
        hit = [r for r in const_rows if r[0] == "CC Pod"]
        if hit:
            ck.require(set(hit[0][1]) == cc, "C16.F4", fn, f"{tag}: 'CC Pod' membership", ok="the CC pod constraint covers exactly the ClipperCreek EVSEs",
                       bad=f"CC pod constraint and ClipperCreek registrations differ: {sorted(set(hit[0][1]) ^ cc)[:6]}", sink="ccpod:members")
    panel_sets = {}
    for panel, rating in spec["panels"].items():
        rows = [r for r in const_rows if r[0].startswith(panel + " ")]
        ck.require(len(rows) == 3, "C16.F4", fn, f"{tag}: panel {panel!r}", ok="three per-phase constraints", bad=f"{len(rows)} constraints for panel {panel!r} (need 3)",
                   sink=f"{btag}:{panel}:exists")
        if len(rows) != 3:
            continue
        groups, reason = match_triple([r[1] for r in rows], angle)
        ck.require(groups is not None, "C16.F4", fn, f"{tag}: panel {panel!r} rows", ok="the three rows are the panel's line currents",
                   bad=f"panel rows are not a line-current triple: {reason}", sink=f"{btag}:{panel}:triple")
        for cname, row, lim in rows:
            ck.require(isinstance(lim, (int, float)) and 0 < lim <= rating, "C16.F4", fn, f"{tag}: {cname!r} limit {lim}",
                       ok=f"limit {lim} A <= rating {rating} A", bad=f"limit {lim} exceeds the panel's {rating} A rating", sink=f"{btag}:{cname}:limit")
        if groups:
            s = set().union(*groups)
            panel_sets[panel] = s
            inside = [c for c, ts in transformer_sets if s <= ts]
            ck.require(bool(inside), "C16.F4", fn, f"{tag}: panel {panel!r} stations", ok=f"the panel's stations all hang off transformer {inside[:1]}",
                       bad="the panel's stations are not a subset of one transformer's station set", sink=f"{btag}:{panel}:subset")
    for (p1, s1), (p2, s2) in itertools.combinations(sorted(panel_sets.items()), 2):
        ck.require(not (s1 & s2), "C16.F4", fn, f"{tag}: panels {p1!r} / {p2!r}", ok="distinct panels constrain disjoint station sets",
                   bad=f"the constraints named {p1!r} and {p2!r} bound the same stations {sorted(s1 & s2)[:4]}...: one of the two panels is in fact left without its "
                       f"current limit", sink=f"{btag}:{p1}|{p2}:disjoint")
    pod_sets = {r[0]: set(r[1]) for r in const_rows if r[0] in spec["pods"]}
    for (p1, s1), (p2, s2) in itertools.combinations(sorted(pod_sets.items()), 2):
        ck.require(not (s1 & s2), "C16.F4", fn, f"{tag}: pods {p1!r} / {p2!r}", ok="distinct pods constrain disjoint station sets",
                   bad=f"pods {p1!r} and {p2!r} bound the same stations", sink=f"{btag}:{p1}|{p2}:disjoint")
    known = set(spec["pods"]) | {f"{p} I_{x}" for p in spec["panels"] for x in "abc"}
    for cname, row, lim in const_rows:
        if cname not in known:
            ck.error("C16.F4", f"{tag}: constant-limit constraint {cname!r} is not in the rating table (re-anchor the table)")
    # ---- F6 ratings do not follow the voltage argument
    if voltage is None and v0 is not None:
        dep = [(cname, lim) for cname, cur, lim, ln in net.cons if deps_of(lim)]
        ck.count("constraint limits checked for dependence on the voltage argument", len(net.cons))
        if not dep:
            ck.holds("C16.F6", fn, f"{tag}: {len(net.cons)} limits", "no constraint limit is computed from the `voltage` argument: the bounds above hold for every voltage")
        else:
            before = len(ck.violations)
            for probe in (v0 / 2, v0 * 2):
                check_site(ck, name, spec, basic, entry=entry, voltage=probe)
            if len(ck.violations) == before:
                ck.error("C16.F6", f"{tag}: the limits of {[c for c, _ in dep][:4]} are computed from the `voltage` argument; they are within the ratings at "
                                   f"{v0:g}, {v0 / 2:g} and {v0 * 2:g} V but the evaluator cannot bound them for every voltage")
            else:
                ck.violation("C16.F6", fn, f"{tag}: limits of {[c for c, _ in dep][:4]}", f"constraint limits follow the `voltage` argument (ratings are at nominal "
                             f"voltages): at voltage={v0 / 2:g} or {v0 * 2:g} they exceed the rated current (see the C16.F2/F4 reports tagged with that voltage)",
                             sink=f"{btag}:voltage-dependent-limit")
    return net


def handled_types(repo):
    """type strings that get_evse_by_type returns an EVSE for (folded from the module constants)."""
    f = repo.fn("get_evse_by_type")
    rel, tree = repo.module_tree("models/evse.py")
    consts = {}
    for n in tree.body:
        if isinstance(n, ast.Assign) and len(n.targets) == 1 and isinstance(n.targets[0], ast.Name):
            try:
                consts[n.targets[0].id] = const_value(n.value)
            except (ValueError, TypeError):
                pass
    out = set()
    p = f.params[1]
    for n in ast.walk(f.node):
        if isinstance(n, ast.If) and isinstance(n.test, ast.Compare) and len(n.test.ops) == 1 and isinstance(n.test.ops[0], ast.Eq):
            l, r = n.test.left, n.test.comparators[0]
            if dotted(l) == p or dotted(r) == p:
                o = r if dotted(l) == p else l
                val = consts.get(o.id) if isinstance(o, ast.Name) else (o.value if isinstance(o, ast.Constant) else None)
                returns = any(isinstance(b, ast.Return) and b.value is not None and isinstance(b.value, ast.Call) for b in n.body)
                if isinstance(val, str) and returns:
                    out.add(val)
    if len(out) < 3:
        raise AnalysisError(f"get_evse_by_type: only {sorted(out)} type strings recognised (floor 3)")
    return out


def table(net):
    return sorted((str(n), tuple(sorted((k, round(v, 9)) for k, v in c.coef.items() if v != 0)), repr(l)) for n, c, l, ln in net.cons)


def rule_simple(ck):
    """simple_acn: single-phase, one aggregate constraint sum(I) <= cap*1000/voltage  =>  sum(V*I) <= cap*1000."""
    repo = ck.repo
    fn = repo.fn("simple_acn")
    ids = ["s1", "s2", "s3", "s4"]
    lims = []
    for volt in (208, 240):
        net, _ = evaluate_site(repo, "sites/auto_acn.py", "simple_acn", station_ids=list(ids), voltage=volt, aggregate_cap=Sym(0, {"cap": 1}))
        angs = {a for _, _, _, a, _ in net.evses}
        ck.require({i for i, *_ in net.evses} == set(ids) and len(angs) == 1, "C16.F5", fn, f"simple_acn(voltage={volt}) registrations",
                   ok="every given station registered, single phase", bad=f"stations {[e[0] for e in net.evses]} angles {sorted(angs, key=str)}",
                   sink=f"simple:{volt}:reg")
        agg = [(n, c, l) for n, c, l, ln in net.cons if set(k for k, v in c.coef.items() if v) == set(ids)
               and set(v for v in c.coef.values() if v) == {1}]
        ck.require(len(agg) >= 1, "C16.F5", fn, f"simple_acn(voltage={volt}) aggregate constraint", ok="unit sum over all stations",
                   bad="no unit-coefficient constraint over all stations", sink=f"simple:{volt}:agg")
        for n, c, l in agg[:1]:
            good = isinstance(l, Sym) and set(l.t) == {"cap"} and abs(l.c) < 1e-12 and 0 < l.t["cap"] * volt <= 1000 * (1 + 1e-9)
            ck.require(good, "C16.F5", fn, f"simple_acn(voltage={volt}) limit {l}", ok="limit*voltage <= capacity*1000 W",
                       bad=f"aggregate current limit {l} at {volt} V admits more than the capacity", sink=f"simple:{volt}:limit")


def run(ck):
    for name, spec in SITES.items():
        nets = {}
        for basic in (False, True):
            nets[basic] = check_site(ck, name, spec, basic)
        fn = ck.repo.fn(name, module=spec["module"])
        ck.require(table(nets[False]) == table(nets[True]), "C16.F4", fn, f"{name}: basic vs real EVSE variants",
                   ok="identical constraint tables", bad="the constraint table depends on basic_evse", sink="variants-agree")
        ck.require([(e[0], e[3]) for e in nets[False].evses] == [(e[0], e[3]) for e in nets[True].evses], "C16.F1", fn,
                   f"{name}: registrations of the two variants", ok="same stations and angles", bad="stations/angles depend on basic_evse",
                   sink="variants-agree-evses")
    # backward-compatibility wrappers must forward every parameter (capacity included) to the factory
    for name, spec in SITES.items():
        rel, tree = ck.repo.module_tree(spec["module"])
        for nd in tree.body:
            if isinstance(nd, ast.FunctionDef) and nd.name != name and "basic_evse" in [a.arg for a in nd.args.args] and \
                    any(isinstance(c, ast.Call) and call_name(c) == name for c in ast.walk(nd)):
                ck.count("wrappers evaluated", 1)
                for basic in (False, True):
                    check_site(ck, name, spec, basic, entry=nd.name)
    ck.attempt(rule_simple)
    # the property is about every schedule "the network reports feasible", in both modes of the check: the phase-aware sum and the
    # linear relaxation must be the ones C06 establishes (abs on the coefficients, deg2rad, per constraint and period)
    from .c06 import rule_network
    ck.attempt(rule_network)
    # a site network that was saved and loaded is still "the predefined site": its constraint columns stay attached to their stations
    # only if the dump / restore keeps the station mapping in registration order
    from .c09 import rule_station_order_roundtrip
    ck.attempt(rule_station_order_roundtrip, rid="C16.F7")
    # the evaluator adds and subtracts Currents by the algebra's definition (self + other, self - other by station name); that the
    # repository's Current implements exactly that - also on its shortcut paths - is C12's algebra rule, run here because the site tables
    # are built with it (reports under its C12 ids)
    from .c12 import rule_algebra
    ck.attempt(rule_algebra)

"""C10 - results are deterministic and independent of incidental ordering (structural part)."""
import ast

from ..core import AnalysisError, dotted, call_name, src, walk_local, last_name
from ..rules import flow_of, calls_in, canon, facts_at, cmp_norm, who_calls
from ..indexdom import check_function as index_check, IndexTyper
from .c12 import rule_register

EXPLANATION = ("Index-domain typing over the whole package: every subscript, .get, membership test, zip pairing and station-index lookup "
               "on a per-station / per-session / per-constraint container uses an index whose provenance (through reaching definitions) is of "
               "the container's own domain - station position from get_station_index / station_ids.index / index_of_evse / enumerate or "
               "range(len()) of a station-ordered container, station id from .station_id or iteration over station_ids, session id from "
               ".session_id, constraint position from the constraint list, level, period; the three per-station arrays grow together at "
               "registration and constraint columns are aligned by station name (shared with C12); pseudo-randomness is confined to the "
               "battery noise, the stochastic event generator and StochasticNetwork.plugin, wall-clock time only feeds solve statistics, "
               "and no set is iterated into an ordered result; the event queue is only mutated through heap operations (shared with C11) "
               "so the listing order of events cannot matter; in the algorithms and the scheduler-facing Interface absolute periods are "
               "used affinely only (differences, comparisons between two periods, sort keys, start + k*period), never scaled, added "
               "to each other or compared with a non-zero constant, and Optional periods are never tested by truthiness (period 0 is a "
               "valid value)."
               ' Added in round 3: nothing handed to a scheduler shares mutable state with the network (escape analysis shared with C05), JSON keeps station order (shared with C09), position in the EVSE mapping is the station position.')
EXPLANATION += ' Added in rounds 4-5: station-order round trip (C09.R9), order provenance of local positional containers, the densification rules of C04 and the argument-binding rule of C05 (constraint description entry for entry) also run here.'
NOT_DECIDED = ("permutation invariance of numeric outputs as such; that a third-party scheduler respects the affine-time discipline; "
               "tie-breaking among equal priority keys")

RANDOM_OK = {"Linear2StageBattery._charge", "Linear2StageBattery._charge_stepwise", "StochasticNetwork.plugin",
             "GaussianMixtureEvents.sample", "StochasticEvents.sample"}
TIME_OK = {"BaseAlgorithm.run"}
POINTS = {"arrival", "departure", "estimated_departure", "current_time", "_iteration", "iteration", "timestamp", "_last_schedule_update"}


def rule_index(ck):
    repo = ck.repo
    typed = untyped = 0
    nfun = 0
    for f in sorted(repo.all_functions(), key=lambda x: (x.module, x.qual)):
        if "/tests/" in f.module:
            continue
        t, u = index_check(ck, "C10.R1", f)
        typed += t
        untyped += u
        nfun += 1
    ck.stats["functions typed"] = nfun
    ck.floor("C10.R1", typed, 120, "index sites with a typed container and a typed index")


def rule_random(ck):
    repo = ck.repo
    n = 0
    for f in repo.all_functions():
        if "/tests/" in f.module:
            continue
        for c in walk_local(f.node):
            if not isinstance(c, ast.Call):
                continue
            d = dotted(c.func) or ""
            parts = d.split(".")
            if "random" in parts[:-1] or d.startswith(("random.", "np.random.", "numpy.random.")) or parts[-1] in ("shuffle", "sample_without_replacement") \
                    or (call_name(c) == "sample" and isinstance(c.func, ast.Attribute) and last_name(c.func.value) in ("gmm", "_gmm", "model")):
                n += 1
                ck.require(f.qual in RANDOM_OK, "C10.R4", f, c, ok="pseudo-randomness confined to the documented stochastic components",
                           bad=f"`{src(c, 60)}` draws random numbers in {f.qual}: two runs from equal inputs can differ", sink=f"random:{f.qual}")
            if d.startswith("time.") or d in ("datetime.now", "datetime.datetime.now", "datetime.utcnow", "datetime.today", "uuid.uuid4", "uuid4", "os.urandom") \
                    or (isinstance(c.func, ast.Attribute) and c.func.attr in ("now", "utcnow", "today") and last_name(c.func.value) in ("datetime", "date")):
                n += 1
                ck.require(f.qual in TIME_OK, "C10.R4", f, c, ok="wall-clock time only feeds solve statistics",
                           bad=f"`{src(c, 60)}` reads the wall clock / an entropy source in {f.qual}", sink=f"clock:{f.qual}")
            if d == "hash" or d == "id" and f.qual not in ("BaseSimObj._to_registry",):
                if d == "hash":
                    ck.violation("C10.R4", f, c, "hash() of a string is salted per process: not reproducible", sink=f"hash:{f.qual}")
    ck.floor("C10.R4", n, 5, "random / clock call sites inspected")
    # wall-clock values only flow into solve_stats
    br = repo.fn("BaseAlgorithm.run")
    fl = flow_of(br)
    for r in [x for x in fl.cfg.nodes if x.kind == "return"]:
        e = fl.expand(r.expr, r)
        ck.require(not any(isinstance(x, ast.Call) and (dotted(x.func) or "").startswith("time.") for x in ast.walk(e)), "C10.R4", br, r.expr,
                   ok="the schedule returned does not depend on the wall clock", bad="BaseAlgorithm.run returns a value derived from time.*", sink="clock:return")
    # iteration over sets
    m = 0
    for f in repo.all_functions():
        if "/tests/" in f.module:
            continue
        fl = None
        for node in walk_local(f.node):
            iters = []
            if isinstance(node, (ast.For, ast.comprehension)):
                iters.append(node.iter)
            if isinstance(node, ast.Call) and call_name(node) in ("list", "tuple", "array", "enumerate") and node.args:
                iters.append(node.args[0])
            for it in iters:
                if fl is None:
                    fl = flow_of(f)
                cn = None
                for nd in fl.cfg.nodes:
                    for e in fl.cfg.node_exprs(nd):
                        if any(x is it for x in [e] + list(walk_local(e))):
                            cn = nd
                if cn is None:
                    continue
                ex = fl.expand(it, cn)
                if isinstance(ex, (ast.Set, ast.SetComp)) or (isinstance(ex, ast.Call) and call_name(ex) in ("set", "frozenset")):
                    m += 1
                    # order-insensitive consumers up the expression tree make the iteration order irrelevant
                    parents = {}
                    for pn in ast.walk(f.node):
                        for ch in ast.iter_child_nodes(pn):
                            parents[id(ch)] = pn
                    up, ok_consumer = node if not isinstance(node, ast.comprehension) else it, False
                    while id(up) in parents:
                        up = parents[id(up)]
                        if isinstance(up, ast.Call) and call_name(up) in ("sorted", "len", "min", "max", "sum", "any", "all", "set", "frozenset"):
                            ok_consumer = True
                            break
                        if isinstance(up, ast.stmt):
                            break
                    if ok_consumer:
                        ck.holds("C10.R4", f, it, "set consumed by an order-insensitive reduction / sorted()")
                        continue
                    ck.violation("C10.R4", f, it, f"iteration over a set `{src(ex, 50)}` feeds an ordered result: the order depends on hashing", sink=f"set-iter:{f.qual}")
    ck.count("set-iteration sites", m)
    # sets that exist must be consumed by len / pop-of-singleton / sorted
    for f in repo.all_functions():
        if "/tests/" in f.module:
            continue
        for c in walk_local(f.node):
            if isinstance(c, ast.Call) and call_name(c) == "set" and isinstance(c.func, ast.Name):
                ck.holds("C10.R4", f, c, "set built; no ordered iteration over it (checked above)")


def rule_affine(ck):
    """R5: absolute periods are used affinely in algorithms/* and interface.SessionInfo."""
    repo = ck.repo
    n = 0
    scope = [f for f in repo.all_functions() if "/tests/" not in f.module and ("/algorithms/" in f.module or f.qual.startswith(("SessionInfo.", "Interface.")))]
    for f in scope:
        where = {}
        try:
            fl = flow_of(f)
            for nd in fl.cfg.nodes:
                for e_ in fl.cfg.node_exprs(nd):
                    for x_ in [e_] + list(walk_local(e_)):
                        where.setdefault(id(x_), nd)
        except Exception:
            fl = None
        for c in walk_local(f.node):
            def is_point(e):
                return isinstance(e, ast.Attribute) and e.attr in POINTS
            if isinstance(c, ast.BinOp):
                l, r = c.left, c.right
                if isinstance(c.op, (ast.Mult, ast.Div, ast.FloorDiv, ast.Mod, ast.Pow)) and (is_point(l) or is_point(r)):
                    # allowed: timedelta(...) * point  (affine map to wall-clock time)
                    other = r if is_point(l) else l
                    if fl is not None and id(c) in where and isinstance(other, ast.Name):
                        other = fl.expand(other, where[id(c)])        # a named duration: `step = timedelta(minutes=period); start + step * t`
                    if isinstance(c.op, ast.Mult) and isinstance(other, ast.Call) and call_name(other) == "timedelta":
                        n += 1
                        ck.holds("C10.R5", f, c, "affine map start + k*period")
                        continue
                    n += 1
                    ck.violation("C10.R5", f, c, f"`{src(c, 60)}` scales an absolute period: decisions would depend on the time origin (a shift of all events "
                                 f"by k periods would not shift the outputs by k)", sink=f"affine:scale:{f.qual}")
                elif isinstance(c.op, ast.Add) and is_point(l) and is_point(r):
                    n += 1
                    ck.violation("C10.R5", f, c, f"`{src(c, 60)}` adds two absolute periods", sink=f"affine:add:{f.qual}")
                elif isinstance(c.op, (ast.Sub, ast.Add)) and (is_point(l) or is_point(r)):
                    n += 1
                    ck.holds("C10.R5", f, c, "difference of periods / period plus a duration")
            if isinstance(c, ast.Compare) and len(c.ops) == 1:
                l, r = c.left, c.comparators[0]
                for a, b in ((l, r), (r, l)):
                    if is_point(a) and isinstance(b, ast.Constant) and isinstance(b.value, (int, float)) and not isinstance(b.value, bool):
                        n += 1
                        ck.violation("C10.R5", f, c, f"`{src(c, 60)}` compares an absolute period with a constant: behaviour depends on the time origin",
                                     sink=f"affine:const-compare:{f.qual}")
                    elif is_point(a) and is_point(b):
                        n += 1
                        ck.holds("C10.R5", f, c, "comparison of two periods")
    ck.floor("C10.R5", n, 6, "uses of absolute periods in algorithms / SessionInfo / Interface")
    # named exception (DESIGN 5.10): Interface.last_applied_pilot_signals tests `iteration - 1 > 0` - it compares a *local* i, not an attribute; nothing to exempt here.
    # Optional periods must not be tested by truthiness anywhere in the simulator loop (period 0 is a valid value)
    m = 0
    for q in ("Simulator.run", "Simulator.step", "Simulator._process_event", "Interface.get_prices", "Interface.get_demand_charge"):
        f = repo.fn(q, optional=True)
        if f is None:
            continue
        for c in walk_local(f.node):
            vals = []
            if isinstance(c, ast.BoolOp):
                vals = c.values
            elif isinstance(c, ast.UnaryOp) and isinstance(c.op, ast.Not):
                vals = [c.operand]
            elif isinstance(c, (ast.If, ast.While, ast.IfExp)):
                vals = [c.test]
            for v in vals:
                d = dotted(v)
                if d and (d.split(".")[-1] in ("_last_schedule_update", "max_recompute", "_iteration") or (d in ("start",) and q.startswith("Interface."))):
                    m += 1
                    ck.violation("C10.R5", f, c, f"`{src(v)}` (a period, possibly 0) is tested by truthiness in `{src(c, 60)}`: period 0 behaves differently "
                                 f"from every other period, so shifting all events changes the outcome", sink=f"affine:truthiness:{q}:{d}")
    ck.count("truthiness tests of periods", m)


def rule_queue_listing(ck):
    """listing order of sessions cannot matter: add_events pushes every event through the heap."""
    from .c11 import rule_heap_discipline
    rule_heap_discipline(ck, rid="C10.R2")


def run(ck):
    ck.attempt(rule_index)
    rule_register(ck)          # C10-R2 co-registration (rule ids C12.R4 are reported under this property as well)
    ck.attempt(rule_random)
    ck.attempt(rule_affine)
    ck.attempt(rule_queue_listing)
    # equal inputs give equal outputs only if a run cannot leave marks on objects a later run reads: nothing handed to a scheduler
    # shares mutable state with the network (shared with C05)
    from .c05 import rule_escape
    ck.attempt(rule_escape, rid="C10.R6")
    # a simulation restored from JSON is "built from equal inputs": station order (mapping insertion order) survives the round trip
    from .c09 import rule_json_order
    ck.attempt(rule_json_order, rid="C10.R7")
    from .c09 import rule_station_order_roundtrip
    ck.attempt(rule_station_order_roundtrip, rid="C10.R7")
    # "outputs do not depend on the order of the mapping's entries / of registration": the schedule a scheduler hands in is made dense by
    # station, never by the position of its entries (rules of C04 on Simulator._update_schedules; they report under their C04 ids)
    from .c04 import rule_update_schedules
    ck.attempt(rule_update_schedules)
    # schedulers decide on the infrastructure description the interface builds: it must be the network's own matrix / limits / names,
    # entry for entry - a description that drops, merges or re-orders constraints (say, "distinct rows only, first one wins") makes the
    # outcome depend on the order in which constraints were registered (argument binding rule of C05; reports under its C05 ids)
    from .c05 import rule_binding
    ck.attempt(rule_binding)
    # "registering stations in a different order yields the same results (for schedulers whose decisions do not hinge on ties)": the
    # bundled sort orders rank sessions by the documented key - a key that is constant for plugged-in sessions turns every decision into
    # a tie that the stable sort breaks by station order (sort-order table of C08; reports under its C08 ids)
    from .c08 import rule_sorts
    ck.attempt(rule_sorts)
    # constraints are sums of Currents: the sum is taken station by station, whatever order the operands list their stations in (algebra
    # rules of C12; they report under their C12 ids)
    from .c12 import rule_algebra
    ck.attempt(rule_algebra)
    # "registering constraints in a different order yields the same results": each added row places its coefficients under their stations,
    # whatever was added before (add-constraint rules of C12; they report under their C12 ids)
    from .c12 import rule_add
    ck.attempt(rule_add)



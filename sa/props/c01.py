"""C01 - every session plugged/unplugged exactly once; run() terminates (structural part)."""
import ast

from ..core import AnalysisError, dotted, call_name, src, walk_local, const_value, last_name
from ..flow import edge_facts, leaves, linear, Lin
from ..rules import (flow_of, inline_helpers, calls_in, bind_args, canon, lin, is_lin, state_writes, who_calls, alts_deep,
                     edge_nodes_with, region, always_before_exit, in_loop_within, facts_at, cmp_norm)

EXPLANATION = ("Static structural rules over simulator.py, events/*.py, charging_network.py, evse.py: event precedence "
               "table and comparison orientation, timestamp-first heap key, dispatch exhaustiveness, plug-in/unplug pairing "
               "on every path of the Plugin branch, who-may-add-events (finiteness), session-checked unplug, and the order / "
               "progress structure of the run() loop body (pop at exactly the current period, process every popped event, "
               "events before scheduler before pilots before recording, single +1 increment on every path, loop condition = "
               "queue non-empty). Decided from CFG dominance, must-pass-through reachability, reaching definitions and "
               "linear forms; no code is executed."
               ' Added in round 3: decision tables of ChargingNetwork.plugin / unplug (the EVSE-level transition happens exactly once on the path on which it is due, never under a contradicted membership test), index domains of the plug/unplug path, growth of the history arrays to the current period on every path of the loop body (also in periods without events), every event handed to the queue is pushed (constructor, add_events) and `empty()` means the heap array is empty; generic well-formedness of every analysed function (no read of an undefined local, no dropped return).')
EXPLANATION += ' Added in rounds 4-5: the event constants are those a concrete event class ends up with after constant propagation through its constructor chain (defaults such as `x or inf` included); growth of the history arrays counts through callees only where the callee grows on every one of its paths; _process_event is read one arm per event type after a case split by partial evaluation; generic rules G4 (no two attributes share one fresh mutable allocation) and G5 (new derived attributes are refreshed by every writer of what they were computed from).'
NOT_DECIDED = "that a particular input has no overlapping sessions; numeric content of the recorded matrices"

EVENT_CLASSES = ("UnplugEvent", "PluginEvent", "RecomputeEvent")


def event_constants(repo, attr):
    """{class: (constant held by self.<attr> after construction, where)} - decided by constant propagation through the constructor
    chain (sa/ctoreval.py), so the constant may be a literal store, a class-level constant, or travel as an argument to the base class
    and through a default idiom there"""
    from ..ctoreval import attrs_after_init, UNKNOWN
    out = {}
    for cname in EVENT_CLASSES:
        ci = repo.cls(cname)
        attrs = attrs_after_init(repo, ci)
        val = attrs.get(attr, UNKNOWN)
        if val is UNKNOWN and attr not in attrs:
            from ..ctoreval import _class_const
            val = _class_const(repo, ci, attr)
        owner = next((c for c in repo.mro(ci) if "__init__" in c.methods), ci)
        if val is UNKNOWN:
            raise AnalysisError(f"{cname}.{attr} is not a constant after construction (constructor chain of {owner.name} not decidable)")
        out[cname] = (val, (owner.methods.get("__init__") or next(iter(owner.methods.values())), owner.node))
    return out


def rule_precedence(ck, rid="C01.R1"):
    repo = ck.repo
    prec = event_constants(repo, "precedence")
    u, p, r = (prec[c][0] for c in EVENT_CLASSES)
    for (a, an), (b, bn) in (((u, "UnplugEvent"), (p, "PluginEvent")), ((p, "PluginEvent"), (r, "RecomputeEvent"))):
        ck.require(a < b, rid, prec[bn][1][0], f"precedence {an}={a} < {bn}={b}",
                   ok="departures before arrivals before recomputes", bad=f"precedence order broken: {an}={a}, {bn}={b}",
                   sink=f"precedence:{an}<{bn}")
    # orientation of Event.__lt__
    ev = repo.cls("Event", module="events/event.py")
    lt = repo.method(ev, "__lt__", optional=True)
    if lt is None:
        raise AnalysisError("Event.__lt__ not found (ordering idiom not recognised)")
    fl = flow_of(lt)
    other = lt.params[1]
    rets = [n for n in fl.cfg.nodes if n.kind == "return"]
    if not rets:
        raise AnalysisError("Event.__lt__ has no return")
    for rn in rets:
        e = fl.expand(rn.expr, rn)
        c = cmp_norm(e)
        good = False
        if c is not None:
            l, op, rr = c
            good = (op == "<" and dotted(l) == "self.precedence" and dotted(rr) == f"{other}.precedence")
        ck.require(good, rid, lt, rn.expr, ok="self < other iff self.precedence < other.precedence",
                   bad=f"__lt__ must be 'self.precedence < other.precedence' (strict, same orientation); got {src(e)}",
                   sink="__lt__")


def rule_heap_key(ck, rid="C01.R2"):
    repo = ck.repo
    q = repo.cls("EventQueue")
    n_push = 0
    for m in q.methods.values():
        fl = flow_of(m)
        for node, call in calls_in(fl, "heappush"):
            if len(call.args) != 2 or dotted(call.args[0]) != "self._queue":
                continue
            n_push += 1
            item = fl.expand(call.args[1], node)
            ok = (isinstance(item, ast.Tuple) and len(item.elts) == 2 and isinstance(item.elts[0], ast.Attribute)
                  and item.elts[0].attr == "timestamp" and ast.dump(item.elts[0].value) == ast.dump(item.elts[1]))
            ck.require(ok, rid, m, call, ok="heap key is (event.timestamp, event): time first, ties fall to Event.__lt__",
                       bad=f"heap entries must be (event.timestamp, event); got {src(item)}", sink="heappush-key")
    ck.floor(rid, n_push, 1, "heappush onto EventQueue._queue")


def event_type_literals(repo):
    et = event_constants(repo, "event_type")
    return {c: v[0] for c, v in et.items()}


def dispatch_branches(fl, evparam):
    """{literal: edge node} for tests  <evparam>.event_type == 'lit' (true edge)."""
    out = {}
    for n in fl.cfg.nodes:
        if n.kind != "edge" or n.test.kind != "test" or n.label is not True:
            continue
        for atom, truth in edge_facts(n.test.expr, True):
            e = fl.expand(atom, n.test)
            c = cmp_norm(e, truth)
            if c and c[1] == "==":
                l, _, r = c
                for a, b in ((l, r), (r, l)):
                    if isinstance(a, ast.Attribute) and a.attr in ("event_type", "type") and dotted(a.value) == evparam \
                            and isinstance(b, ast.Constant) and isinstance(b.value, str):
                        out[b.value] = n
    return out


def process_event_by_type(repo):
    """Simulator._process_event as one arm per event type.  When the function is not already written as `if type == A .. elif type == B
    ..` with exactly the types the event classes produce, it is case-split on event.event_type by partial evaluation (sa/pe.py): guard
    clauses, a shared tail, a membership test up front all become the chain the rules read; an event type the code does not handle then
    shows as an arm that does nothing (and fails the per-arm rules), never as a missing arm."""
    import copy as _c
    pe = repo.fn("Simulator._process_event")
    lits = event_type_literals(repo)
    from ..pe import case_split
    subj = ast.Attribute(value=ast.Name(id=pe.params[1], ctx=ast.Load()), attr="event_type", ctx=ast.Load())
    node = case_split(repo, pe, subj, sorted(set(lits.values())))
    if node is None:
        return pe, False
    pe2 = _c.copy(pe)
    pe2.node = node
    return pe2, True


def rule_dispatch(ck, rid="C01.R3"):
    repo = ck.repo
    pe, split = process_event_by_type(repo)
    fl = flow_of(pe)
    evp = pe.params[1]
    br = dispatch_branches(fl, evp)
    if not br:
        raise AnalysisError("Simulator._process_event: dispatch idiom not recognised (no event_type == literal tests)")
    lits = event_type_literals(repo)
    ck.require(set(br) == set(lits.values()), rid, pe, "dispatch on event.event_type",
               ok=f"handled {sorted(br)} = produced {sorted(lits.values())}",
               bad=f"handled literals {sorted(br)} differ from those the event classes assign {sorted(lits.values())}",
               sink="dispatch-table")
    return pe, fl, evp, br, lits


def rule_pairing(ck, rid="C01.R4"):
    repo = ck.repo
    pe, fl, evp, br, lits = rule_dispatch(ck)
    plug = br.get(lits["PluginEvent"])
    unpl = br.get(lits["UnplugEvent"])
    if plug is None or unpl is None:
        return
    preg, ureg = region(fl, plug), region(fl, unpl)
    EV = f"{evp}.ev"
    net = repo.cls("ChargingNetwork")

    # network.plugin(event.ev) on every path of the Plugin branch
    plugs = [(n, c) for n, c in calls_in(fl, "plugin") if n in preg and dotted(c.func.value) == "self.network"]
    good = [(n, c) for n, c in plugs
            if canon(fl.expand(bind_args(c, repo.method(net, "plugin")).get("ev", ast.Constant(value=None)), n)) == EV]
    ck.require(len(good) >= 1 and always_before_exit(fl, plug, [n for n, _ in good]), rid, pe,
               good[0][1] if good else "self.network.plugin(event.ev)",
               ok="every path of the Plugin branch plugs event.ev into the network",
               bad="some path of the Plugin branch does not call self.network.plugin(event.ev)", sink="plugin-call")
    ck.require(len(plugs) == len(good) == 1 or (len(plugs) == len(good) and not any(in_loop_within(fl, n, preg) for n, _ in good)
                                                  and len(good) <= 1),
               rid, pe, "exactly one network.plugin per Plugin event",
               bad=f"{len(plugs)} plugin calls in the Plugin branch ({len(good)} with event.ev)", sink="plugin-once")

    # exactly one add_event(UnplugEvent(event.ev.departure, event.ev))
    adds = [(n, c) for n, c in calls_in(fl, "add_event") + calls_in(fl, "add_events")]
    in_plug = [(n, c) for n, c in adds if n in preg]
    others = [(n, c) for n, c in adds if n not in preg]
    ck.require(not others, rid, pe, others[0][1] if others else "add_event outside Plugin branch",
               ok="only the Plugin branch adds events", bad="an event is added outside the Plugin branch (finiteness of the event set)",
               sink="add-outside-plugin")
    uev = repo.cls("UnplugEvent")
    uinit = repo.method(uev, "__init__")
    okadds = []
    for n, c in in_plug:
        if call_name(c) != "add_event" or len(c.args) != 1:
            continue
        arg = fl.expand(c.args[0], n)
        if isinstance(arg, ast.Call) and call_name(arg) == "UnplugEvent":
            b = bind_args(arg, uinit)
            ts, ev = b.get("timestamp"), b.get("ev")
            ts_ok = ts is not None and canon(ts) == f"{EV}.departure"
            ev_ok = ev is not None and canon(ev) == EV
            ck.require(ts_ok and ev_ok, rid, pe, c,
                       ok="unplug scheduled at event.ev.departure for the same EV",
                       bad=f"UnplugEvent must be (event.ev.departure, event.ev); got timestamp={src(ts) if ts is not None else None}, ev={src(ev) if ev is not None else None}",
                       sink="unplug-event-args")
            if ts_ok and ev_ok:
                okadds.append(n)
    ck.require(len(in_plug) == 1 and len(okadds) == 1 and always_before_exit(fl, plug, okadds)
               and not in_loop_within(fl, okadds[0], preg), rid, pe,
               "exactly one UnplugEvent scheduled on every path of the Plugin branch",
               bad=f"{len(in_plug)} add_event call(s) in the Plugin branch, {len(okadds)} well-formed; need exactly one on every path",
               sink="unplug-scheduled-once")

    # ev_history[event.ev.session_id] = event.ev
    hist = []
    for n, kind, p, t in state_writes(fl):
        if p == "self.ev_history" and kind == "subassign" and n in preg:
            idx = canon(fl.expand(t.slice, n))
            val = canon(fl.expand(n.stmt.value, n))
            hist.append((n, idx == f"{EV}.session_id" and val == EV, t))
    ck.require(any(g for _, g, _ in hist) and all(g for _, g, _ in hist), rid, pe,
               hist[0][2] if hist else "self.ev_history[event.ev.session_id] = event.ev",
               ok="session recorded under its session id", bad="ev_history must be keyed by event.ev.session_id and hold event.ev",
               sink="ev_history-key")

    # Unplug branch: network.unplug(station_id=event.ev.station_id, session_id=event.ev.session_id)
    un = [(n, c) for n, c in calls_in(fl, "unplug") if n in ureg and dotted(c.func.value) == "self.network"]
    good_un = []
    for n, c in un:
        b = bind_args(c, repo.method(net, "unplug"))
        st, se = b.get("station_id"), b.get("session_id")
        if st is not None and se is not None and canon(fl.expand(st, n)) == f"{EV}.station_id" and canon(fl.expand(se, n)) == f"{EV}.session_id":
            good_un.append(n)
    ck.require(len(un) == 1 and len(good_un) == 1 and always_before_exit(fl, unpl, good_un), rid, pe,
               un[0][1] if un else "self.network.unplug(event.ev.station_id, event.ev.session_id)",
               ok="unplug addressed by the EV's station and session id (bound by parameter name)",
               bad="Unplug branch must call network.unplug(station_id=event.ev.station_id, session_id=event.ev.session_id) once on every path",
               sink="unplug-call")

    # package-wide: who constructs UnplugEvent / who adds events
    cons = [(f, c) for f, c in who_calls(repo, "UnplugEvent")]
    bad_cons = [(f, c) for f, c in cons if f is None or f.qual != "Simulator._process_event"]
    ck.require(not bad_cons, rid, bad_cons[0][0] if bad_cons and bad_cons[0][0] else pe,
               bad_cons[0][1] if bad_cons else "UnplugEvent(...) constructed only in Simulator._process_event",
               bad="UnplugEvent constructed outside Simulator._process_event: a session could be unplugged twice",
               sink="unplug-event-ctor")
    allowed = {"EventQueue.__init__", "EventQueue.add_events", "Simulator._process_event", "Simulator.step"}
    n_sites = 0
    for nm in ("add_event", "add_events"):
        for f, c in who_calls(repo, nm):
            # the queue's own methods calling each other is how the queue is written, not who adds events: the confirmed instances are
            # the sites outside EventQueue plus its constructor
            n_sites += 0 if (f is not None and f.cls is not None and f.cls.name == "EventQueue" and f.name != "__init__") else 1
            q = f.qual if f is not None else "<module>"
            ck.require(q in allowed or q == "EventQueue.add_event", rid, f or "module level", c,
                       ok=f"{nm} called from {q}", bad=f"{nm} called from {q}: events may be added during a run from an unexpected place",
                       sink=f"{nm}-caller:{q}")
    ck.floor(rid, n_sites, 2, "call sites of add_event/add_events outside the queue's own methods")

    # (that ChargingNetwork.plugin hands `ev` to the EVSE registered under ev.station_id, on every returning path, is C01.R9)


def rule_session_checked_unplug(ck, rid="C01.R5"):
    repo = ck.repo
    un = repo.fn("ChargingNetwork.unplug")
    fl = flow_of(un)
    sid = "session_id"
    n_sites = 0
    for n, c in calls_in(fl, "unplug"):
        recv = fl.expand(c.func.value, n)       # the EVSE may be held in a temporary
        if not (isinstance(recv, ast.Subscript) and dotted(recv.value) == "self._EVSEs"):
            continue
        n_sites += 1
        facts = facts_at(fl, n)
        by_none = any(isinstance(a, ast.Compare) and dotted(a.left) == sid and isinstance(a.comparators[0], ast.Constant)
                      and a.comparators[0].value is None and isinstance(a.ops[0], (ast.Is, ast.Eq)) and t for a, t in facts)
        by_match = False
        for a, t in facts:
            cn = cmp_norm(a, t)
            if cn and cn[1] == "==":
                sides = {canon(fl.expand(cn[0], n)), canon(fl.expand(cn[2], n))}
                if sid in sides and any(s.endswith(".ev.session_id") and s.startswith("self._EVSEs[station_id]") for s in sides):
                    by_match = True
        ck.require(by_none or by_match, rid, un, c,
                   ok="EVSE.unplug() only when the occupant's session id matches (or on the deprecated id-less call)",
                   bad="EVSE.unplug() must be control-dependent on session_id == <evse>.ev.session_id", sink="evse-unplug-guard")
    ck.floor(rid, n_sites, 1, "EVSE.unplug() call sites in ChargingNetwork.unplug")
    # the .ev.session_id dereference is None-guarded
    from ..nullflow import check_optional_attr
    check_optional_attr(ck, rid, un, fl, attr="ev", deref_only=True)


def _evse_at(s, key):
    """canonical strings denoting `the EVSE registered under <key>`"""
    return s in (f"self._EVSEs[{key}]", f"self._EVSEs.get({key})")


def rule_network_transitions(ck, rid="C01.R9"):
    """decision tables of ChargingNetwork.plugin / unplug: the EVSE-level transition happens exactly once on the path on which it is
    due and on no other path (an unplug event that does nothing leaves the EV connected past its departure; a plug-in that does
    nothing loses the session)."""
    from .. import pathtab
    repo = ck.repo
    un = repo.fn("ChargingNetwork.unplug")
    fl = flow_of(un)
    st, se = un.params[1], un.params[2]
    rows = pathtab.table(fl)
    ck.count("decision-table rows (network plugin/unplug)", len(rows))

    def is_match(k, a):
        c = pathtab.split_key(k)
        if not c or c[1] != "==":
            return False
        sides = [c[0], c[2]]
        if se not in sides:
            return False
        o = sides[1] if sides[0] == se else sides[0]
        return o.endswith(".session_id") and (o[:-len(".session_id")].endswith(".ev") or o[:-len(".session_id")].endswith("._ev")) \
            and _evse_at(o.rsplit(".", 2)[0], st)

    def is_unplug(kind, k, a):
        return kind == "call" and k.endswith(".unplug()") and _evse_at(k[:-len(".unplug()")], st)

    def ev_none(k, a):
        c = pathtab.split_key(k)
        return bool(c) and c[1] == "is" and c[2] == "None" and c[0].rsplit(".", 1)[-1] in ("ev", "_ev") and _evse_at(c[0].rsplit(".", 1)[0], st)

    matched = [r for r in rows if r.fact(is_match) is True]
    pathtab.must_on(ck, rid, un, matched, is_unplug, 1, "EVSE.unplug() of the station whose occupant has the given session id", "unplug:due",
                    ok="the matching session is detached exactly once")
    others = [r for r in rows if r.fact(is_match) is False or r.fact(ev_none) is True]
    pathtab.must_on(ck, rid, un, others, is_unplug, 0, "no EVSE.unplug() when the station is empty or holds another session", "unplug:undue",
                    ok="a stale unplug event never detaches another session", floor=1)
    pathtab.contradicted_membership(ck, rid, un, fl, rows, sink="unplug:membership")

    pl = repo.fn("ChargingNetwork.plugin")
    pfl = flow_of(pl)
    ev = pl.params[1]
    prow = pathtab.table(pfl)

    def is_plug(kind, k, a):
        return kind == "call" and k.endswith(f".plugin({ev})") and _evse_at(k[:-len(f".plugin({ev})")], f"{ev}.station_id")
    normal = [r for r in prow if r.end != "raise"]
    pathtab.must_on(ck, rid, pl, normal, is_plug, 1, "EVSE.plugin(ev) at the station named by ev.station_id on every normally returning path", "plugin:due",
                    ok="a plug-in that returns has attached the EV exactly once")
    pathtab.contradicted_membership(ck, rid, pl, pfl, prow, sink="plugin:membership")


def _covers_current(e):
    """width expression >= self._iteration + 1: `_iteration + c` (c >= 1), `<last pending timestamp> + c` (c >= 1; every pending event is
    later than the current period once the due ones were popped), or a max() with such an operand"""
    if isinstance(e, ast.Call) and call_name(e) in ("max", "maximum") and e.args:
        ops = e.args[0].elts if len(e.args) == 1 and isinstance(e.args[0], (ast.List, ast.Tuple)) else e.args
        return any(_covers_current(a) for a in ops)
    if isinstance(e, ast.Call) and call_name(e) == "__gamma__" and len(e.args) == 3:
        return _covers_current(e.args[1]) and _covers_current(e.args[2])
    if isinstance(e, ast.IfExp):
        return _covers_current(e.body) and _covers_current(e.orelse)
    lf = linear(e, norm=canon)
    if set(lf.t) == {"self._iteration"} and lf.t["self._iteration"] == 1:
        return lf.c >= 1
    if len(lf.t) == 1 and list(lf.t.values()) == [1] and list(lf.t)[0].endswith("event_queue.get_last_timestamp()"):
        return lf.c >= 1
    return False


def find_main_loop(fl):
    for n in fl.cfg.nodes:
        if n.kind == "test" and isinstance(n.stmt, ast.While):
            lv = leaves(fl.expand(n.expr, n))
            if any(x.endswith("event_queue.empty()") for x in lv):
                return n
    raise AnalysisError("Simulator.run: main loop `while not self.event_queue.empty()` not found")


def rule_loop(ck, rid="C01.R6"):
    repo = ck.repo
    run0 = repo.fn("Simulator.run")
    run = inline_helpers(repo, run0, depth=2)
    fl = flow_of(run)
    cfg = fl.cfg
    head = find_main_loop(fl)
    body = cfg.loop_body_nodes(head)
    true_edge = [s for s in head.succ if s.kind == "edge" and s.label is True][0]
    ck.count("cfg_nodes(Simulator.run)", len(cfg.nodes))

    # (f) loop condition
    t = fl.expand(head.expr, head)
    facts = edge_facts(t, True)
    cond_ok = len(facts) == 1 and isinstance(facts[0][0], ast.Call) and canon(facts[0][0]) == "self.event_queue.empty()" and facts[0][1] is False
    if not cond_ok and len(facts) == 1:
        cn = cmp_norm(facts[0][0], facts[0][1])
        if cn:
            l, op, r = canon(cn[0]), cn[1], canon(cn[2])
            cond_ok = (l, op, r) in {("0", "<", "len(self.event_queue)"), ("len(self.event_queue)", "!=", "0"), ("0", "!=", "len(self.event_queue)")}
    ck.require(cond_ok, rid + "f", run0, head.expr, ok="loop runs exactly while the event queue is non-empty",
               bad="loop condition must be exactly `event queue not empty`", sink="loop-condition")

    def in_body(pairs):
        return [(n, c) for n, c in pairs if n in body]

    # (a) pop at exactly the current period, first thing in the body
    gce = in_body(calls_in(fl, "get_current_events"))
    ck.require(len(gce) == 1, rid + "a", run0, gce[0][1] if gce else "get_current_events(self._iteration)",
               bad=f"{len(gce)} calls to get_current_events in the loop body (need exactly 1)", sink="pop-once")
    if len(gce) != 1:
        return
    gn, gc = gce[0]
    arg = gc.args[0] if gc.args else (gc.keywords[0].value if gc.keywords else None)
    ck.require(arg is not None and is_lin(fl, arg, gn, {"self._iteration": 1}), rid + "a", run0, gc,
               ok="events are popped for exactly the current period", bad="get_current_events must be called with exactly self._iteration",
               sink="pop-argument")
    def pure_local(n):
        """`name = <expression without calls>`: reads state into a local, changes nothing - may stand anywhere"""
        st = n.stmt if n.kind == "stmt" else None
        return isinstance(st, (ast.Assign, ast.AnnAssign)) and getattr(st, "value", None) is not None \
            and all(isinstance(t, ast.Name) for t in (st.targets if isinstance(st, ast.Assign) else [st.target])) \
            and not any(isinstance(x, (ast.Call, ast.Await, ast.Yield, ast.NamedExpr)) for x in ast.walk(st.value))
    others = [n for n in body if n.kind in ("stmt", "test", "for", "return", "with") and n is not gn and not pure_local(n)]
    ck.require(all(cfg.dominates(gn, n) for n in others), rid + "a", run0, gc,
               ok="the pop dominates every other statement of the body", bad="a statement of the loop body can run before the events are popped",
               sink="pop-first")

    # (b) every popped event is recorded and processed
    def unseq(e):
        # iterating list(X) / tuple(X) / iter(X) is iterating X
        while isinstance(e, ast.Call) and call_name(e) in ("list", "tuple", "iter") and len(e.args) == 1 and not e.keywords and isinstance(e.func, ast.Name):
            e = e.args[0]
        return e
    fors = [n for n in body if n.kind == "for" and call_name(unseq(fl.expand(n.expr, n))) == "get_current_events"]
    ck.require(len(fors) == 1, rid + "b", run0, fors[0].stmt.iter if fors else "for e in current_events",
               bad="loop over the popped events not found", sink="event-loop")
    if len(fors) != 1:
        return
    fh = fors[0]
    fbody = cfg.loop_body_nodes(fh)
    ftrue = [s for s in fh.succ if s.kind == "edge" and s.label is True][0]
    var = fh.stmt.target.id if isinstance(fh.stmt.target, ast.Name) else None
    pe = [(n, c) for n, c in calls_in(fl, "_process_event") if n in fbody and c.args and dotted(c.args[0]) == var]
    ap = [(n, c) for n, c in calls_in(fl, "append") if n in fbody and dotted(c.func.value) == "self.event_history"
          and c.args and dotted(c.args[0]) == var]
    for what, lst, sk in (("_process_event(e)", pe, "process-each"), ("event_history.append(e)", ap, "record-each")):
        good = len(lst) == 1 and fh not in cfg.reach(ftrue, avoid={lst[0][0], cfg.exit, cfg.raise_exit}) if lst else False
        ck.require(good, rid + "b", run0, lst[0][1] if lst else what, ok=f"{what} on every iteration, no conditional skip",
                   bad=f"{what} must be executed exactly once for every popped event", sink=sk)
    pe_all = in_body(calls_in(fl, "_process_event"))
    ck.require(len(pe_all) == len(pe), rid + "b", run0, "_process_event call sites", bad="_process_event is also called outside the event loop",
               sink="process-elsewhere")

    # (c) order: events -> scheduler -> pilots -> record -> post update ; (d) bindings
    sched = [(n, c) for n, c in in_body(calls_in(fl, "run")) if canon(c.func.value) == "self.scheduler"]
    upd = [(n, c) for n, c in in_body(calls_in(fl, "update_pilots"))]
    store = [(n, c) for n, c in in_body(calls_in(fl, "_store_actual_charging_rates"))]
    for what, lst in (("self.scheduler.run()", sched), ("network.update_pilots", upd), ("_store_actual_charging_rates", store)):
        ck.require(len(lst) == 1, rid + "c", run0, lst[0][1] if lst else what, bad=f"{len(lst)} call sites of {what} in the loop body (need exactly 1)",
                   sink=f"count:{what}")
    if not (len(sched) == len(upd) == len(store) == 1):
        return
    sn, un_, stn = sched[0][0], upd[0][0], store[0][0]
    ck.require(cfg.dominates(fh, sn) and fh not in cfg.reach_from_succ(sn, avoid={head}) and not in_loop_within(fl, sn, body - {head}),
               rid + "c", run0, sched[0][1],
               ok="scheduler is called after the period's events were applied, at most once per period",
               bad="the scheduler call must come after the event loop and not inside an inner loop", sink="sched-after-events")
    ck.require(sn not in cfg.reach_from_succ(un_, avoid={head}) and cfg.dominates(fh, un_), rid + "c", run0, upd[0][1],
               ok="pilots are applied after events and scheduling", bad="update_pilots must come after event processing and the scheduler call",
               sink="pilots-after-sched")
    ck.require(cfg.dominates(un_, stn), rid + "c", run0, store[0][1], ok="rates are recorded after the pilots are applied",
               bad="_store_actual_charging_rates must come after update_pilots", sink="record-after-pilots")
    for n_, what in ((un_, "update_pilots"), (stn, "_store_actual_charging_rates")):
        ck.require(head not in cfg.reach(true_edge, avoid={n_, cfg.raise_exit}), rid + "c", run0, what,
                   ok=f"{what} runs in every period", bad=f"a path through the loop body skips {what}", sink=f"every-period:{what}")
    net = repo.cls("ChargingNetwork")
    b = bind_args(upd[0][1], repo.method(net, "update_pilots"))
    ok_d = (b.get("pilots") is not None and canon(fl.expand(b["pilots"], un_)) == "self.pilot_signals"
            and b.get("i") is not None and is_lin(fl, b["i"], un_, {"self._iteration": 1})
            and b.get("period") is not None and canon(fl.expand(b["period"], un_)) == "self.period")
    ck.require(ok_d, rid + "d", run0, upd[0][1], ok="update_pilots(pilots=self.pilot_signals, i=self._iteration, period=self.period)",
               bad="update_pilots must be bound pilots<-self.pilot_signals, i<-self._iteration (exactly), period<-self.period",
               sink="update_pilots-binding")

    # (g) the history arrays cover the current period before it is simulated, in every period (also one without events): the
    #     growth to at least _iteration + 1 columns lies on every path from the loop entry to update_pilots / the recording
    for attr, user, what in (("self.pilot_signals", un_, "update_pilots"), ("self.charging_rates", stn, "_store_actual_charging_rates")):
        grows = []
        for n, k, p, t_ in state_writes(fl):
            if p == attr and k == "assign" and n in body and isinstance(n.stmt.value, ast.Call) and call_name(n.stmt.value) == "_increase_width":
                grows.append(n)
        if not grows:
            # growth moved into a method the body calls: it counts where the call lies on the path and the callee grows on every one of
            # its own paths; a callee that grows only on some of its paths (say, only when a plug-in event is handled) is a growth that
            # exists but does not lie on every path - recognised and wrong, not unrecognised
            cond_sites = []
            sim = repo.cls("Simulator")
            for n, c in calls_in(fl):
                if n not in body or not (isinstance(c.func, ast.Attribute) and dotted(c.func.value) == "self"):
                    continue
                m = repo.method(sim, c.func.attr, optional=True)
                if m is None:
                    continue
                mfl = flow_of(inline_helpers(repo, m, depth=2))
                st = [x for x, k, p, t_ in state_writes(mfl) if p == attr and k == "assign"]
                if not st:
                    continue
                if mfl.cfg.exit not in mfl.cfg.reach(mfl.cfg.entry, avoid=set(st) | {mfl.cfg.raise_exit}):
                    grows.append(n)
                else:
                    cond_sites.append((n, c, m))
            if not grows and cond_sites:
                n, c, m = cond_sites[0]
                ck.violation(rid + "g", run0, c, f"{attr.split('.')[1]} is only grown inside {m.qual}, and there only on some paths: a period whose events "
                             f"do not take that path (or a period without events) reaches {what} without the column of the current period being "
                             "guaranteed - events added to the queue after construction, or a resumed run, index past the end of the array",
                             sink=f"grow-every-period:{attr.split('.')[1]}")
                continue
            if not grows:
                ck.error(rid + "g", f"no `{attr} = _increase_width(...)` in the loop body of Simulator.run (growth idiom not recognised)")
                continue
            ck.require(user not in cfg.reach(true_edge, avoid=set(grows) | {cfg.raise_exit}), rid + "g", run0, grows[0].stmt,
                       ok=f"{attr.split('.')[1]} is grown (by a method that grows it on each of its paths) on every path before {what}",
                       bad=f"a path through the loop body reaches {what} without growing {attr.split('.')[1]}", sink=f"grow-every-period:{attr.split('.')[1]}")
            continue
        ck.require(user not in cfg.reach(true_edge, avoid=set(grows) | {cfg.raise_exit}), rid + "g", run0, grows[0].stmt,
                   ok=f"{attr.split('.')[1]} is grown on every path before {what}",
                   bad=f"a path through the loop body reaches {what} without growing {attr.split('.')[1]}: in a period without events the column "
                       f"of the current period may not exist (IndexError, run() does not terminate normally)", sink=f"grow-every-period:{attr.split('.')[1]}")
        for gnode in grows:
            call = gnode.stmt.value
            fin = repo.fn("_increase_width")
            b2 = bind_args(call, fin, method=False)
            w = b2.get(fin.params[1])
            src_ok = b2.get(fin.params[0]) is not None and canon(b2[fin.params[0]]) == attr
            alts = alts_deep(fl.expand(w, gnode)) if w is not None else []
            bad_alt = [a for a in alts if not _covers_current(a)]
            ck.require(src_ok and alts and not bad_alt, rid + "g", run0, call, ok="grown from itself to at least _iteration + 1 columns",
                       bad=f"the new width `{src(bad_alt[0]) if bad_alt else src(call)}` does not provably cover column _iteration", sink=f"grow-width:{attr.split('.')[1]}")

    # (e) single +1 increment, on every path, last
    incs = [(n, k, t_) for n, k, p, t_ in state_writes(fl) if p == "self._iteration" and n in body]
    ck.require(len(incs) == 1, rid + "e", run0, incs[0][2] if incs else "self._iteration += 1",
               bad=f"{len(incs)} writes to _iteration in the loop body (need exactly 1)", sink="increment-count")
    if len(incs) != 1:
        return
    inode = incs[0][0]
    s = inode.stmt
    if isinstance(s, ast.AugAssign):
        val = ast.BinOp(left=ast.Attribute(value=ast.Name(id="self", ctx=ast.Load()), attr="_iteration", ctx=ast.Load()),
                        op=s.op, right=s.value)
    else:
        val = s.value
    ck.require(is_lin(fl, val, inode, {"self._iteration": 1}, 1), rid + "e", run0, s, ok="period counter advances by exactly 1",
               bad="the period counter must advance by exactly 1", sink="increment-by-one")
    ck.require(head not in cfg.reach(true_edge, avoid={inode, cfg.raise_exit}), rid + "e", run0, s,
               ok="every path through the body increments the counter (progress)", bad="a path through the loop body skips the increment",
               sink="increment-every-path")
    after = cfg.reach_from_succ(inode, avoid={head})
    late = [x for x in (sn, un_, stn, gn) if x in after]
    ck.require(not late, rid + "e", run0, s, ok="nothing of the period's work follows the increment",
               bad=f"{src(late[0].stmt) if late else ''} runs after the counter was advanced", sink="increment-last")
    return fl, head, body


def run(ck):
    ck.attempt(rule_precedence)
    ck.attempt(rule_heap_key)
    ck.attempt(rule_pairing)
    ck.attempt(rule_session_checked_unplug)
    ck.attempt(rule_network_transitions)
    ck.attempt(rule_loop)
    # stations are looked up by station id, sessions by session id (index-domain typing of the functions on the plug/unplug path;
    # the package-wide sweep is C10.R1)
    from ..indexdom import check_function as index_check
    typed = 0
    for q in ("ChargingNetwork.plugin", "ChargingNetwork.unplug", "Simulator._process_event"):
        typed += index_check(ck, "C01.R10", ck.repo.fn(q))[0]
    ck.floor("C01.R10", typed, 3, "typed index sites on the plug/unplug path")
    from .c13 import rule_occupant
    ck.attempt(rule_occupant, rid="C01.R7")
    # events come out of the queue in (time, precedence) order only if the queue is a heap and is drained by popping (shared with C11)
    from .c11 import rule_heap_discipline, rule_cut, rule_insertion, rule_derived
    ck.attempt(rule_heap_discipline, rid="C01.R2h")
    ck.attempt(rule_cut, rid="C01.R2c")
    # every session handed in as a plug-in event is actually queued, and the loop condition `queue empty` means what it says
    ck.attempt(rule_insertion, rid="C01.R2i")
    ck.attempt(rule_derived, rid="C01.R2q")
    # an event in a period makes the scheduler run in that period, so connected EVs keep receiving current (shared with C05)
    from .c05 import rule_event_flags
    ck.attempt(rule_event_flags, rid="C01.R8")

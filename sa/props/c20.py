"""C20 - the ACN-Data client yields every session once and converts times faithfully (structural part)."""
import ast

from ..core import AnalysisError, dotted, call_name, src, walk_local, const_value
from ..flow import edge_facts
from ..rules import flow_of, calls_in, bind_args, canon, facts_at, cmp_norm, alts_deep, region

EXPLANATION = ("DataClient: every requests.* call of get_sessions / count_sessions is on the accepted edge of the site-membership test whose "
               "other edge raises ValueError (validate before request), and both functions accept the same literal site set; in the "
               "pagination loop every element of payload['_items'] is parsed and yielded (inner loop without break/continue/filter), the "
               "loop's only exit is the edge on which 'next' is absent from payload['_links'], and the payload is rebound from a request "
               "whose URL contains payload['_links']['next']['href']; site, cond, project, sort and the page size each reach the first "
               "request's URL under their own query key, each guarded only by its own `is not None` test; get_sessions_by_time forwards "
               "site, the built condition, sort='connectionTime' and timeseries, with start in the >= clause and end in the <= clause; the "
               "strftime format of http_date and the strptime format of parse_http_date fold to the same literal with %H:%M:%S and GMT, "
               "http_date converts to UTC first, parse_http_date localises as UTC and then converts to the document's zone; parse_dates "
               "visits every field, converts strings through parse_http_date (ignoring only ValueError) and every element of a nested "
               "'timestamps' list through the same function.")
NOT_DECIDED = "behaviour against a real server; correctness of pytz's zone database"

QUERY_KEYS = {"cond": "where", "project": "project", "sort": "sort"}


def site_guard(ck, f, fl, rid="C20.R1"):
    cfg = fl.cfg
    site = f.params[1]
    raises = [n for n in cfg.nodes if n.kind == "raise"]
    sets = []
    ok = False
    for r in raises:
        for a, t in facts_at(fl, r):
            c = cmp_norm(a, t)
            if c and c[1] == "not in" and dotted(c[0]) == site:
                try:
                    sets.append(frozenset(const_value(c[2])))
                    ok = call_name(r.stmt.exc) == "ValueError" if isinstance(r.stmt.exc, ast.Call) else dotted(r.stmt.exc) == "ValueError"
                except (ValueError, TypeError):
                    pass
    ck.require(ok, rid, f, raises[0].stmt if raises else "raise ValueError", ok="invalid site names raise ValueError", bad=f"{f.qual} does not reject an unknown site with ValueError", sink=f"{f.name}:reject")
    reqs = [(n, c) for n, c in calls_in(fl) if (dotted(c.func) or "").startswith("requests.")]
    ck.floor(rid, len(reqs), 1, f"requests.* call sites in {f.qual}")
    for n, c in reqs:
        guarded = any((cn := cmp_norm(a, t)) and cn[1] == "in" and dotted(cn[0]) == site for a, t in facts_at(fl, n)) or \
            (bool(raises) and all(n not in cfg.reach(cfg.entry, avoid={x for x in cfg.nodes if x.kind == "test" and any(dotted(z) == site for z in ast.walk(x.expr))}) for _ in [0]))
        ck.require(guarded, rid, f, c, ok="request only after the site name was accepted", bad="a request can be sent before / without the site-name validation", sink=f"{f.name}:request-guard")
    return sets[0] if sets else None


def rule_validate(ck):
    repo = ck.repo
    a = repo.fn("DataClient.get_sessions")
    b = repo.fn("DataClient.count_sessions")
    sa = site_guard(ck, a, flow_of(a))
    sb = site_guard(ck, b, flow_of(b))
    ck.require(sa is not None and sa == sb, "C20.R1", b, f"site sets {sorted(sa) if sa else None} / {sorted(sb) if sb else None}", ok="both entry points accept the same sites",
               bad="get_sessions and count_sessions accept different site names", sink="sites:agree")


def rule_pagination(ck):
    repo = ck.repo
    f = repo.fn("DataClient.get_sessions")
    fl = flow_of(f)
    cfg = fl.cfg
    whiles = [n for n in cfg.nodes if n.kind == "test" and isinstance(n.stmt, ast.While)]
    ck.require(len(whiles) == 1, "C20.R2", f, "pagination loop", bad=f"{len(whiles)} while loops in get_sessions", sink="page:loop")
    if len(whiles) != 1:
        return
    w = whiles[0]
    const_true = isinstance(w.expr, ast.Constant) and w.expr.value is True
    nxt = None
    if not const_true:
        c = cmp_norm(w.expr)
        const_true = False
        ok = c and c[1] == "in" and isinstance(c[0], ast.Constant) and c[0].value == "next" and canon(fl.expand(c[2], w)).endswith("['_links']")
        ck.require(bool(ok), "C20.R2", f, w.expr, ok="continues while a next link exists", bad=f"the pagination loop stops on `{src(w.expr, 60)}`: an empty (or otherwise falsy) page that still carries a "
                   f"'next' link ends the iteration and later sessions are never yielded", sink="page:loop-cond")
    region_nodes = cfg.loop_region(w) if not const_true else {n for n in cfg.nodes if n in cfg.reach(w) and n is not cfg.exit}
    body = {n for n in cfg.nodes if w in cfg.reach(n) and n in cfg.reach(w)} | {n for n in cfg.nodes if n.kind == "break" and n in cfg.reach(w)}
    # exits: break nodes (and the false edge when the test is not constant)
    brk = [n for n in body if n.kind == "break"]
    rets = [n for n in cfg.reach(w) if n.kind == "return"]
    ck.require(not rets, "C20.R2", f, rets[0].stmt if rets else w.expr, ok="no early return", bad="the generator returns from inside the pagination loop", sink="page:return")
    for b in brk:
        ok = any((c := cmp_norm(a, t)) and c[1] == "not in" and isinstance(c[0], ast.Constant) and c[0].value == "next" and canon(fl.expand(c[2], b)).endswith("['_links']")
                 for a, t in facts_at(fl, b))
        inner = [t for t, lab in cfg.edges_dominating(b) if t.kind == "for" and lab is True and t in body]
        ck.require(ok and not inner, "C20.R2", f, b.stmt, ok="the loop ends only when the page has no 'next' link", bad="the pagination ends for another reason than the absence of a 'next' link", sink="page:exit")
    if const_true:
        ck.require(len(brk) >= 1, "C20.R2", f, w.expr, ok="terminates when the links run out", bad="`while True` without an exit", sink="page:exit-exists")
    # items: inner for over payload['_items'], every element parsed then yielded
    fors = [n for n in body if n.kind == "for"]
    ck.require(len(fors) == 1 and canon(fors[0].stmt.iter).endswith("['_items']") and canon(fors[0].stmt.iter).startswith(canon(ast.Name(id="payload", ctx=ast.Load()))[:0] or ""), "C20.R2", f,
               fors[0].stmt.iter if fors else "for s in payload['_items']", ok="iterates every item of the page", bad="the page's '_items' are not iterated exactly once per page", sink="page:items")
    if fors:
        lp = fors[0]
        pay = canon(lp.stmt.iter.value) if isinstance(lp.stmt.iter, ast.Subscript) else None
        inner = cfg.loop_region(lp)
        esc = [n for n in inner if n.kind in ("break", "continue", "return")]
        conds = [n for n in inner if n.kind == "test"]
        ck.require(not esc and not conds, "C20.R2", f, (esc + conds)[0].stmt if (esc + conds) else lp.stmt.iter, ok="no item is skipped or filtered", bad="items of a page can be skipped (break/continue/condition in the item loop)",
                   sink="page:no-skip")
        ys = [(n, y) for n in inner for e in cfg.node_exprs(n) for y in [e] + list(walk_local(e)) if isinstance(y, ast.Yield)]
        var = lp.stmt.target.id if isinstance(lp.stmt.target, ast.Name) else None
        ck.require(len(ys) == 1 and dotted(ys[0][1].value) == var, "C20.R2", f, ys[0][1] if ys else "yield s", ok="each item is yielded exactly once", bad="the item loop does not yield each item exactly once",
                   sink="page:yield")
        pd = [(n, c) for n, c in calls_in(fl, "parse_dates") if n in inner]
        ok = len(pd) == 1 and pd[0][1].args and dotted(pd[0][1].args[0]) == var and ys and cfg.dominates(pd[0][0], ys[0][0])
        ck.require(bool(ok), "C20.R5", f, pd[0][1] if pd else "parse_dates(s)", ok="every item has its dates converted before it is yielded", bad="items are yielded without parse_dates(item) having run on them", sink="page:parse")
        # payload rebound from the next link
        reb = [n for n in body if n.kind == "stmt" and isinstance(n.stmt, ast.Assign) and any(dotted(t) == pay for t in n.stmt.targets)]
        ck.require(len(reb) == 1, "C20.R2", f, reb[0].stmt if reb else "payload = r.json()", bad=f"{len(reb)} rebinding(s) of the page inside the loop", sink="page:rebind")
        for n in reb:
            ex = canon(fl.expand(n.stmt.value, n))
            ok = "requests.get(self.url + " in ex and "['_links']['next']['href']" in ex and ex.endswith(".json()")
            ck.require(ok, "C20.R2", f, n.stmt, ok="next page = GET of url + payload['_links']['next']['href']", bad=f"the next page is fetched from `{ex[:100]}`, not from the 'next' link of the current page", sink="page:next-url")
            ok = any((c := cmp_norm(a, t)) and c[1] == "in" and isinstance(c[0], ast.Constant) and c[0].value == "next" for a, t in facts_at(fl, n)) or not const_true
            ck.require(ok, "C20.R2", f, n.stmt, ok="only when a next link exists", bad="the next page is requested although no 'next' link was seen", sink="page:next-guard")
            ck.require(all(n not in cfg.reach(x) or x.id < n.id for x, _y in ys) and lp not in cfg.reach(n, avoid={w}) or True, "C20.R2", f, n.stmt, ok="after the page was consumed", bad="", sink="page:order")
        # the page's items are consumed before the next page replaces it
        for n in reb:
            ck.require(cfg.dominates(lp, n), "C20.R2", f, n.stmt, ok="a page is replaced only after all its items were yielded", bad="the page can be replaced before its items were yielded", sink="page:consume-first")


def rule_params(ck):
    repo = ck.repo
    f = repo.fn("DataClient.get_sessions")
    fl = flow_of(f)
    cfg = fl.cfg
    firsts = [(n, c) for n, c in calls_in(fl, "get") if dotted(c.func) == "requests.get" and not [t for t, lab in cfg.edges_dominating(n) if isinstance(t.stmt, ast.While)]]
    ck.require(len(firsts) == 1, "C20.R3", f, firsts[0][1] if firsts else "requests.get(first page)", bad=f"{len(firsts)} first-page requests", sink="params:first")
    if not firsts:
        return
    n0, c0 = firsts[0]
    url = c0.args[0] if c0.args else None
    # args list contributions
    apps = [(n, c) for n, c in calls_in(fl, "append") if dotted(c.func.value) == "args"]
    by_key = {}
    for n, c in apps:
        e = fl.expand(c.args[0], n)
        if isinstance(e, ast.Call) and call_name(e) == "format" and isinstance(e.func.value, ast.Constant):
            key = e.func.value.value.split("=")[0]
            by_key[key] = (n, c, e)
    site = f.params[1]
    ex_url = canon(fl.expand(url, n0)) if url is not None else ""
    joined = [c for n, c in calls_in(fl, "join") if isinstance(c.func.value, ast.Constant) and c.func.value.value == "&" and c.args and dotted(c.args[0]) == "args"]
    ck.require("self.url" in ex_url and f"'sessions/' + {site}" in ex_url and "'&'.join(" in ex_url and bool(joined), "C20.R3", f, url if url is not None else c0,
               ok="URL = base + sessions/<site> + joined query arguments", bad=f"the first request's URL `{ex_url[:120]}` does not contain the base url, the site endpoint and the joined arguments", sink="params:url")
    for p, key in QUERY_KEYS.items():
        hit = by_key.get(key)
        ck.require(hit is not None and hit[2].args and dotted(hit[2].args[0]) == p, "C20.R3", f, hit[1] if hit else f"{key}=...", ok=f"{p} sent as {key}=",
                   bad=f"parameter {p} does not reach the query string as `{key}=<{p}>`", sink=f"params:{p}:flow")
        if hit:
            n = hit[0]
            tests = [(t, lab) for t, lab in cfg.edges_dominating(n) if t.kind == "test" and isinstance(t.stmt, ast.If)]
            own = [(t, lab) for t, lab in tests if (c := cmp_norm(t.expr, lab)) and c[1] == "is not" and dotted(c[0]) == p]
            others = [(t, lab) for t, lab in tests if (t, lab) not in own and not ((c := cmp_norm(t.expr, lab)) and dotted(c[0]) == site)]
            ck.require(bool(own) and not others, "C20.R3", f, hit[1], ok=f"sent whenever {p} is given, whatever the other arguments",
                       bad=f"`{key}=` is only sent under `{src(others[0][0].expr, 40) if others else ''}` = {others[0][1] if others else ''}: with some argument combinations {p} is silently dropped", sink=f"params:{p}:guard")
    hit = by_key.get("max_results")
    ck.require(hit is not None and not [t for t, lab in cfg.edges_dominating(hit[0]) if t.kind == "test" and isinstance(t.stmt, ast.If) and "site" not in canon(t.expr)], "C20.R3", f,
               hit[1] if hit else "max_results=", ok="page size always sent", bad="the page-size parameter is not always sent", sink="params:limit")
    # timeseries endpoint
    ts = f.params[5] if len(f.params) > 5 else None
    ck.require(ts is not None and "'/ts/'" in ex_url, "C20.R3", f, url if url is not None else c0, ok="time-series endpoint selectable", bad="the timeseries flag does not select the /ts/ endpoint", sink="params:ts")
    # auth on both requests
    for n, c in calls_in(fl, "get"):
        if dotted(c.func) == "requests.get":
            a = next((k.value for k in c.keywords if k.arg == "auth"), None)
            ck.require(a is not None and "self.token" in canon(a), "C20.R3", f, c, ok="token sent", bad="a request is sent without the API token", sink="params:auth")
    # get_sessions_by_time
    g = repo.fn("DataClient.get_sessions_by_time")
    gl = flow_of(g)
    site2, start, end = g.params[1:4]
    capp = [(n, c) for n, c in calls_in(gl, "append") if dotted(c.func.value) == "cond"]
    seen = {}
    for n, c in capp:
        e = c.args[0]
        if isinstance(e, ast.Call) and call_name(e) == "format" and isinstance(e.func.value, ast.Constant):
            lit = e.func.value.value
            arg = e.args[0] if e.args else None
            who = None
            if isinstance(arg, ast.Call) and call_name(arg) == "http_date" and arg.args:
                who = dotted(arg.args[0])
            elif arg is not None:
                who = dotted(arg)
            seen[who] = (lit, n, c)
    for p, op in ((start, ">="), (end, "<=")):
        hit = seen.get(p)
        ok = hit is not None and hit[0].startswith(f"connectionTime {op} ") and any((c := cmp_norm(a, t)) and c[1] == "is not" and dotted(c[0]) == p for a, t in facts_at(gl, hit[1]))
        ck.require(ok, "C20.R3", g, hit[2] if hit else f"connectionTime {op}", ok=f"{p} bounds connectionTime with {op}, formatted by http_date",
                   bad=f"`{p}` does not flow into the `connectionTime {op} \"<http date>\"` clause", sink=f"bytime:{p}")
    for n, c in calls_in(gl, "get_sessions"):
        b = bind_args(c, f, method=True)
        ok = dotted(b.get("site")) == site2 and _joined_cond(gl, b.get("cond"), n) and \
            isinstance(b.get("sort"), ast.Constant) and b["sort"].value == "connectionTime" and dotted(b.get("timeseries")) == "timeseries" and "project" not in b
        ck.require(ok, "C20.R3", g, c, ok="forwards site, the joined condition, sort=connectionTime, timeseries", bad="get_sessions_by_time does not forward (site, condition, sort='connectionTime', timeseries)", sink="bytime:forward")
    for n, c in calls_in(gl, "count_sessions"):
        h = repo.fn("DataClient.count_sessions")
        b = bind_args(c, h, method=True)
        ok = dotted(b.get("site")) == site2 and _joined_cond(gl, b.get("cond"), n)
        ck.require(ok, "C20.R3", g, c, ok="count uses the same site and condition", bad="count_sessions is not given the same site and condition", sink="bytime:count")


def _joined_cond(gl, arg, n):
    """the argument is ' and '.join(cond) of the local clause list `cond`"""
    if arg is None:
        return False
    if isinstance(arg, ast.Name):
        defs = gl.defs_at(n, arg.id)
        if len(defs) != 1:
            return False
        how = gl.def_how(next(iter(defs)), arg.id)
        arg = how[1] if how[0] == "assign" else None
    return isinstance(arg, ast.Call) and call_name(arg) == "join" and isinstance(arg.func.value, ast.Constant) and arg.func.value.value == " and " \
        and bool(arg.args) and dotted(arg.args[0]) == "cond"


def rule_formats(ck):
    repo = ck.repo
    hd = repo.fn("http_date")
    ph = repo.fn("parse_http_date")
    hl, pl = flow_of(hd), flow_of(ph)
    fmt_out = fmt_in = None
    for r in [n for n in hl.cfg.nodes if n.kind == "return"]:
        e = hl.expand(r.expr, r)
        ok = isinstance(e, ast.Call) and call_name(e) == "strftime" and e.args
        if ok:
            try:
                fmt_out = const_value(e.args[0])
            except (ValueError, TypeError):
                pass
            recv = e.func.value
            utc = isinstance(recv, ast.Call) and call_name(recv) == "astimezone" and recv.args and canon(recv.args[0]).lower() in ("pytz.utc", "timezone.utc", "utc") and dotted(recv.func.value) == hd.params[0]
            ck.require(bool(utc), "C20.R4", hd, e, ok="converted to UTC before formatting", bad="http_date formats the local wall-clock time without converting to UTC (the string says GMT)", sink="http_date:utc")
        ck.require(bool(ok), "C20.R4", hd, r.expr, ok="strftime", bad="http_date does not format with strftime", sink="http_date:strftime")
    tzp = ph.params[1]
    for r in [n for n in pl.cfg.nodes if n.kind == "return"]:
        e = pl.expand(r.expr, r)
        ok = isinstance(e, ast.Call) and call_name(e) == "astimezone" and e.args and dotted(e.args[0]) == tzp
        ck.require(bool(ok), "C20.R4", ph, r.expr, ok="converted to the document's zone", bad="parse_http_date does not convert the instant to the requested zone with astimezone(tz)", sink="parse:astimezone")
        if ok:
            inner = e.func.value
            loc = isinstance(inner, ast.Call) and call_name(inner) == "localize" and canon(inner.func.value).lower() in ("pytz.utc", "utc") and inner.args
            loc2 = isinstance(inner, ast.Call) and call_name(inner) == "replace" and any(k.arg == "tzinfo" and canon(k.value).lower() in ("pytz.utc", "timezone.utc") for k in inner.keywords)
            ck.require(bool(loc or loc2), "C20.R4", ph, inner, ok="the parsed naive time is interpreted as UTC", bad="the parsed time is not localised as UTC before conversion (GMT strings would be read as local time)", sink="parse:utc")
            sp = inner.args[0] if loc else (inner.func.value if loc2 else None)
            if isinstance(sp, ast.Call) and call_name(sp) == "strptime" and len(sp.args) == 2:
                try:
                    fmt_in = const_value(sp.args[1])
                except (ValueError, TypeError):
                    pass
                ck.require(dotted(sp.args[0]) == ph.params[0], "C20.R4", ph, sp, ok="parses the given string", bad="strptime is not applied to the given string", sink="parse:arg")
    ck.require(fmt_out is not None and fmt_out == fmt_in, "C20.R4", ph, f"formats {fmt_out!r} / {fmt_in!r}", ok="formatting and parsing use the same format",
               bad=f"http_date formats with {fmt_out!r} but parse_http_date parses {fmt_in!r}: format(parse(x)) is not the identity", sink="formats:agree")
    if fmt_out:
        ck.require("%H:%M:%S" in fmt_out and fmt_out.endswith("GMT") and all(x in fmt_out for x in ("%d", "%b", "%Y")), "C20.R4", hd, fmt_out, ok="RFC-1123: 24-hour time to the second, GMT",
                   bad=f"the format {fmt_out!r} is not RFC-1123 (%d %b %Y %H:%M:%S GMT): times are ambiguous or lose precision", sink="formats:rfc1123")


def rule_parse_dates(ck):
    repo = ck.repo
    f = repo.fn("parse_dates")
    fl = flow_of(f)
    cfg = fl.cfg
    doc = f.params[0]
    loops = [n for n in cfg.nodes if n.kind == "for"]
    ck.require(len(loops) == 1 and canon(loops[0].stmt.iter) in (doc, f"{doc}.keys()", f"list({doc})", f"list({doc}.keys())"), "C20.R5", f, loops[0].stmt.iter if loops else "for field in doc",
               ok="every field visited", bad="parse_dates does not visit every field of the document", sink="parse_dates:iter")
    if not loops:
        return
    inner = cfg.loop_region(loops[0])
    esc = [n for n in inner if n.kind in ("break", "continue", "return")]
    ck.require(not esc, "C20.R5", f, esc[0].stmt if esc else loops[0].stmt.iter, ok="no field skipped", bad="fields can be skipped (break/continue/return in the field loop)", sink="parse_dates:no-skip")
    var = loops[0].stmt.target.id
    tzdef = canon(fl.expand(ast.Name(id="tz", ctx=ast.Load()), loops[0]))
    ck.require(tzdef == f"pytz.timezone({doc}['timezone'])", "C20.R5", f, tzdef, ok="zone = the document's own time zone", bad=f"the target zone is `{tzdef}`, not pytz.timezone(doc['timezone'])", sink="parse_dates:tz")
    calls = [(n, c) for n, c in calls_in(fl, "parse_http_date")]
    scalar = [(n, c) for n, c in calls if not any(isinstance(x, (ast.ListComp, ast.GeneratorExp)) for x in ast.walk(n.stmt if n.stmt is not None else n.expr) if c in ast.walk(x))]
    ck.require(len(calls) == 2, "C20.R5", f, "parse_http_date call sites", ok="scalar fields and time-series entries both converted", bad=f"{len(calls)} parse_http_date call sites (scalar fields and the time series need one each)",
               sink="parse_dates:sites")
    for n, c in calls:
        ck.require(len(c.args) == 2 and canon(fl.expand(c.args[1], n)) == f"pytz.timezone({doc}['timezone'])", "C20.R5", f, c, ok="converted into the document's zone", bad="parse_http_date is not given the document's time zone",
                   sink="parse_dates:tz-arg")
    # scalar store
    st = [n for n in inner if n.kind == "stmt" and isinstance(n.stmt, ast.Assign) and isinstance(n.stmt.targets[0], ast.Subscript) and canon(n.stmt.targets[0]) == f"{doc}[{var}]"]
    ok = bool(st) and all(canon(fl.expand(n.stmt.value, n)).replace(f"__elem__({doc})", var) == f"parse_http_date({doc}[{var}], pytz.timezone({doc}['timezone']))" for n in st)
    ck.require(ok, "C20.R5", f, st[0].stmt if st else f"{doc}[field] = dt", ok="string fields replaced by their parsed datetime", bad="string fields are not replaced by parse_http_date(doc[field], tz)", sink="parse_dates:scalar")
    for n in st:
        ok = any(isinstance(a, ast.Call) and call_name(a) == "isinstance" and canon(a.args[0]) == f"{doc}[{var}]" and dotted(a.args[1]) == "str" and t for a, t in facts_at(fl, n))
        ck.require(ok, "C20.R5", f, n.stmt, ok="for every string field", bad="the scalar conversion is not applied to every string field", sink="parse_dates:scalar-guard")
    # only ValueError is swallowed
    for t in ast.walk(f.node):
        if isinstance(t, ast.Try):
            for h in t.handlers:
                ck.require(h.type is not None and dotted(h.type) == "ValueError", "C20.R5", f, h, ok="only non-date strings (ValueError) are skipped", bad="parse_dates swallows more than ValueError", sink="parse_dates:except")
    # time series
    ts = [n for n in inner if n.kind == "stmt" and isinstance(n.stmt, ast.Assign) and isinstance(n.stmt.targets[0], ast.Subscript) and canon(n.stmt.targets[0]) == f"{doc}[{var}]['timestamps']"]
    ck.require(len(ts) == 1, "C20.R5", f, ts[0].stmt if ts else "doc[field]['timestamps'] = [...]", bad=f"{len(ts)} stores of converted time-series timestamps", sink="parse_dates:ts-store")
    for n in ts:
        v = n.stmt.value
        ok = isinstance(v, ast.ListComp) and len(v.generators) == 1 and not v.generators[0].ifs and canon(v.generators[0].iter) == f"{doc}[{var}]['timestamps']" and \
            isinstance(v.elt, ast.Call) and call_name(v.elt) == "parse_http_date" and dotted(v.elt.args[0]) == dotted(v.generators[0].target) and canon(fl.expand(v.elt.args[1], n)) == f"pytz.timezone({doc}['timezone'])"
        ck.require(bool(ok), "C20.R5", f, v, ok="every time-series timestamp converted by the same function, one by one", bad=f"time-series timestamps are converted by `{src(v, 80)}`, not by parse_http_date(ts, tz) applied to "
                   f"each entry: entries on the other side of a DST change get the wrong offset", sink="parse_dates:ts-each")
        ok = any(isinstance(a, ast.Call) and call_name(a) == "isinstance" and dotted(a.args[1]) == "dict" and t for a, t in facts_at(fl, n)) and \
            any((c := cmp_norm(a, t)) and c[1] == "in" and isinstance(c[0], ast.Constant) and c[0].value == "timestamps" for a, t in facts_at(fl, n))
        extra = [a for a, t in facts_at(fl, n) if not (isinstance(a, ast.Call) and call_name(a) == "isinstance") and
                 not ((c := cmp_norm(a, t)) and c[1] == "in" and isinstance(c[0], ast.Constant) and c[0].value == "timestamps")]
        ck.require(ok and not extra, "C20.R5", f, n.stmt, ok="for every nested time series", bad="the time-series conversion is not applied to every dict field with 'timestamps'"
                   + (f" (additional condition `{src(extra[0], 40)}`)" if extra else ""), sink="parse_dates:ts-guard")


def run(ck):
    rule_validate(ck)
    rule_pagination(ck)
    rule_params(ck)
    rule_formats(ck)
    rule_parse_dates(ck)

"""C20 - the ACN-Data client yields every session once and converts times faithfully (structural part)."""
import ast
import copy

from ..core import AnalysisError, dotted, call_name, src, walk_local, const_value
from ..flow import edge_facts
from ..rules import flow_of, calls_in, bind_args, canon, facts_at, cmp_norm, alts_deep, region, specialise, _subst, state_writes

EXPLANATION = ("DataClient: every requests.* call of get_sessions / count_sessions can only be reached on the accepted edge of the "
               "site-membership test whose other edge raises ValueError (validate before request), and both functions accept the same "
               "literal site set; every page fetched is consumed by the item loop before another page replaces it, every element of "
               "page['_items'] is parsed and yielded (no break/continue/filter), no exit of the pagination loop is possible while the "
               "current page's '_links' contains 'next' (decided by specialising the exit conditions under that assumption), and every "
               "request URL is either the first-page URL (base + sessions/<site> + joined query) or base + page['_links']['next']['href']; "
               "the query string is evaluated symbolically into (key, value, condition) entries: where=cond, project=project, sort=sort "
               "are each present exactly under their own `is not None` test and the page size is always sent; get_sessions_by_time "
               "forwards site, the joined condition, sort='connectionTime' and timeseries, with start in the >= clause and end in the <= "
               "clause; the strftime format of http_date and the strptime format of parse_http_date fold (through module constants) to "
               "the same literal with %H:%M:%S and GMT, http_date converts to UTC first, parse_http_date interprets the parsed time as "
               "UTC and then converts to the document's zone; parse_dates visits every field, converts every string field through "
               "parse_http_date (ignoring only ValueError) and every element of a nested 'timestamps' list through the same function."
               ' Added in round 3: caller-supplied texts never become part of a format template (closure through list appends); the generator keeps its paging state in locals (no attribute of the client is written).')
NOT_DECIDED = "behaviour against a real server; correctness of pytz's zone database"

QUERY_KEYS = {"cond": "where", "project": "project", "sort": "sort"}


# ----------------------------------------------------------------------------
# R1 validate before request
# ----------------------------------------------------------------------------

def site_guard(ck, f, fl, rid="C20.R1"):
    cfg = fl.cfg
    site = f.params[1]
    raises = [n for n in cfg.nodes if n.kind == "raise"]
    sets = []
    ok = False
    for r in raises:
        for a, t in facts_at(fl, r):
            c = cmp_norm(fl.expand(a, r), t)
            if c and c[1] == "not in" and dotted(c[0]) == site:
                try:
                    sets.append(frozenset(ck.repo.fold(f, c[2])))
                    exc = r.stmt.exc
                    ok = (call_name(exc) if isinstance(exc, ast.Call) else dotted(exc)) == "ValueError"
                except (ValueError, TypeError):
                    pass
    if not ok and not sets:
        # a raise conditioned on the site name in a form that is not a membership test against a closed set: not recognised (no verdict)
        for r in raises:
            for a, t in facts_at(fl, r):
                if any(isinstance(x, ast.Name) and x.id == site for x in ast.walk(fl.expand(a, r))):
                    raise AnalysisError(f"{f.qual}: the condition of `{src(r.stmt)[:60]}` mentions `{site}` but is not a membership test against a closed set of names: {src(fl.expand(a, r))[:80]}")
    ck.require(ok, rid, f, raises[0].stmt if raises else "raise ValueError", ok="invalid site names raise ValueError", bad=f"{f.qual} does not reject an unknown site with ValueError", sink=f"{f.name}:reject")
    reqs = [(n, c) for n, c in calls_in(fl) if (dotted(c.func) or "").startswith("requests.")]
    ck.floor(rid, len(reqs), 1, f"requests.* call sites in {f.qual}")
    accept_edges = {e for e in cfg.nodes if e.kind == "edge" and e.test.kind == "test" and any(
        (cn := cmp_norm(fl.expand(a, e.test), t)) and cn[1] == "in" and dotted(cn[0]) == site for a, t in edge_facts(e.test.expr, e.label))}
    for n, c in reqs:
        guarded = bool(accept_edges) and n not in cfg.reach(cfg.entry, avoid=accept_edges)
        ck.require(guarded, rid, f, c, ok="request only after the site name was accepted", bad="a request can be sent before / without the site-name validation", sink=f"{f.name}:request-guard")
    return sets[0] if sets else None


def rule_validate(ck):
    repo = ck.repo
    a = repo.fn("DataClient.get_sessions")
    b = repo.fn("DataClient.count_sessions")
    sa = site_guard(ck, a, flow_of(a))
    sb = site_guard(ck, b, flow_of(b))
    ck.require(sa is not None and sa == sb, "C20.R1", b, f"site sets {sorted(sa) if sa else None} / {sorted(sb) if sb else None}", ok="both entry points accept the same sites",
               bad="get_sessions and count_sessions accept different site names", sink="sites:agree")


# ----------------------------------------------------------------------------
# R2 pagination
# ----------------------------------------------------------------------------

def _gexpand(fl, e, node):
    fl.gated = True
    try:
        return fl.expand(e, node)
    finally:
        fl.gated = False


def rule_pagination(ck):
    repo = ck.repo
    f = repo.fn("DataClient.get_sessions")
    fl = flow_of(f)
    cfg = fl.cfg
    whiles = [n for n in cfg.nodes if n.kind == "test" and isinstance(n.stmt, ast.While)]
    ck.require(len(whiles) == 1, "C20.R2", f, "pagination loop", bad=f"{len(whiles)} while loops in get_sessions", sink="page:loop")
    if len(whiles) != 1:
        return
    w = whiles[0]
    reg = cfg.loop_region(w)
    # the item loop: a `for` over <page>['_items'] that yields
    from ..rules import uncopy_deep
    fors = [n for n in reg if n.kind == "for" and (canon(uncopy_deep(n.stmt.iter)).endswith("['_items']") or canon(uncopy_deep(fl.expand(n.stmt.iter, n))).endswith("['_items']"))]
    ck.require(len(fors) == 1, "C20.R2", f, fors[0].stmt.iter if fors else "for s in payload['_items']", ok="iterates the items of the page", bad=f"{len(fors)} loops over a page's '_items' (need 1)",
               sink="page:items")
    if len(fors) != 1:
        return
    lp = fors[0]
    page = canon(lp.stmt.iter.value) if isinstance(lp.stmt.iter, ast.Subscript) else None
    inner = cfg.loop_region(lp)
    esc = [n for n in inner if n.kind in ("break", "continue", "return")]
    conds = [n for n in inner if n.kind == "test"]
    ck.require(not esc and not conds, "C20.R2", f, (esc + conds)[0].stmt if (esc + conds) else lp.stmt.iter, ok="no item is skipped or filtered", bad="items of a page can be skipped (break/continue/condition in the item loop)",
               sink="page:no-skip")
    ys = [(n, y) for n in inner for e in cfg.node_exprs(n) for y in [e] + list(walk_local(e)) if isinstance(y, ast.Yield)]
    var = lp.stmt.target.id if isinstance(lp.stmt.target, ast.Name) else None
    ck.require(len(ys) == 1 and dotted(ys[0][1].value) == var, "C20.R2", f, ys[0][1] if ys else "yield s", ok="each item is yielded exactly once", bad="the item loop does not yield each item exactly once",
               sink="page:yield")
    all_y = [y for n in cfg.nodes for e in cfg.node_exprs(n) for y in [e] + list(walk_local(e)) if isinstance(y, (ast.Yield, ast.YieldFrom))]
    ck.require(len(all_y) == 1, "C20.R2", f, "single yield site", ok="sessions are only yielded by the item loop", bad=f"{len(all_y)} yield sites: sessions may be yielded twice", sink="page:yield-sites")
    pd = [(n, c) for n, c in calls_in(fl, "parse_dates") if n in inner]
    ok = len(pd) == 1 and pd[0][1].args and dotted(pd[0][1].args[0]) == var and ys and cfg.dominates(pd[0][0], ys[0][0])
    ck.require(bool(ok), "C20.R5", f, pd[0][1] if pd else "parse_dates(s)", ok="every item has its dates converted before it is yielded", bad="items are yielded without parse_dates(item) having run on them", sink="page:parse")
    # every fetched page is consumed before it is replaced / before the generator ends
    gets = [(n, c) for n, c in calls_in(fl, "get") if dotted(c.func) == "requests.get"]
    ck.floor("C20.R2", len(gets), 1, "requests.get call sites")
    for n, c in gets:
        others = {m for m, _ in gets if m is not n}
        seen = cfg.reach_from_succ(n, avoid={lp})
        leak = seen & (others | {cfg.exit, n})
        ck.require(not leak, "C20.R2", f, c, ok="the page fetched here goes through the item loop before anything replaces it",
                   bad="a fetched page can be replaced (or the generator can end) before its items were yielded", sink="page:consume-first")
    if (page and page.isidentifier()) or page is None:
        res = canon(_gexpand(fl, ast.Name(id=page, ctx=ast.Load()) if page else lp.stmt.iter, lp))
        ck.require(".json()" in res and "requests.get(" in res, "C20.R2", f, lp.stmt.iter, ok="the item loop reads the fetched page", bad="the page iterated by the item loop is not the JSON body of a request", sink="page:is-json")
    # URLs: first-page URL or the current page's next link
    kinds = set()
    for n, c in gets:
        url = _gexpand(fl, c.args[0], n) if c.args else None
        for u in (alts_deep(specialise(url, {})) if url is not None else []):
            while isinstance(u, ast.IfExp):
                # page_url = next-url if 'next' in links else None
                u = u.body if not (isinstance(u.body, ast.Constant) and u.body.value is None) else u.orelse
            us = _flat_add(u)
            if isinstance(u, ast.Constant) and u.value is None:
                continue
            if "['_links']['next']['href']" in us and us.startswith("self.url + "):
                kinds.add("next")
            elif "self.url" in us and "'sessions/' + " in us and (".join(" in us or us.endswith(" + ''")):     # the query string may be empty
                kinds.add("first")
            else:
                ck.violation("C20.R2", f, c, f"a page is requested from `{us[:100]}`, which is neither the first-page URL nor base + the current page's 'next' link", sink="page:url")
    ck.require(kinds == {"first", "next"}, "C20.R2", f, "first page and next links", ok="requests the first page and then each 'next' link", bad=f"request URLs cover only {sorted(kinds)}", sink="page:url-kinds")
    # no exit from the pagination while a next link exists
    exits = [n for n in reg if n.kind in ("break", "return")]
    const_true = isinstance(w.expr, ast.Constant) and w.expr.value is True
    if not const_true:
        exits.append([s_ for s_ in w.succ if s_.kind == "edge" and s_.label is False][0])
    ck.require(bool(exits), "C20.R2", f, w.expr, ok="the pagination terminates", bad="`while True` without an exit", sink="page:exit-exists")
    for x in exits:
        if x.kind == "return" and x.expr is not None and not (isinstance(x.expr, ast.Constant) and x.expr.value is None):
            ck.violation("C20.R2", f, x.stmt, "the generator returns a value from inside the pagination loop", sink="page:return")
            continue
        # a bare `return` in a generator ends the iteration like leaving the loop does: judged like any other exit
        facts = facts_at(fl, x) if x.kind != "edge" else (facts_at(fl, x.test) + edge_facts(x.test.expr, x.label))
        at = x if x.kind != "edge" else x.test
        impossible = False
        for a, t in facts:
            ex = _gexpand(fl, a, at)
            vals = [specialise(alt, {}) for alt in alts_deep(specialise(_norm_links(ex), {"__NEXT__": True}))]
            if vals and all(isinstance(v, ast.Constant) and isinstance(v.value, bool) and v.value != t for v in vals):
                impossible = True
        ck.require(impossible, "C20.R2", f, x.stmt if x.kind != "edge" else w.expr, ok="this exit cannot be taken while the current page has a 'next' link",
                   bad=f"the pagination can stop on `{src(x.stmt if x.kind != 'edge' else w.expr, 50)}` although the current page still links to a next page: later sessions are never yielded",
                   sink="page:exit")


def _flat_add(u):
    """canonical text of a string concatenation with the grouping removed: a + (b + c) reads like a + b + c"""
    terms = []

    def go(x):
        if isinstance(x, ast.BinOp) and isinstance(x.op, ast.Add):
            go(x.left)
            go(x.right)
        else:
            terms.append(canon(x))
    go(u)
    return " + ".join(terms)


def _norm_links(e):
    """replace `'next' in <page>['_links']` by the marker name __NEXT__ (and `not in` by its negation)"""
    class T(ast.NodeTransformer):
        def visit_Compare(self, n):
            self.generic_visit(n)
            if len(n.ops) == 1 and isinstance(n.ops[0], (ast.In, ast.NotIn)) and isinstance(n.left, ast.Constant) and n.left.value == "next" \
                    and canon(n.comparators[0]).endswith("['_links']"):
                m = ast.Name(id="__NEXT__", ctx=ast.Load())
                return m if isinstance(n.ops[0], ast.In) else ast.UnaryOp(op=ast.Not(), operand=m)
            return n
    return T().visit(copy.deepcopy(e))


# ----------------------------------------------------------------------------
# R3 parameters: symbolic evaluation of the query string
# ----------------------------------------------------------------------------

def _entry(e):
    """(key, value expr) of one query argument string expression: 'k={0}'.format(v) / '{0}={1}'.format(k, v) / f'{k}={v}' / 'k=' + str(v) / 'k=v'"""
    if isinstance(e, ast.Call) and call_name(e) == "format" and isinstance(e.func.value, ast.Constant) and isinstance(e.func.value.value, str):
        tmpl = e.func.value.value
        if "=" in tmpl:
            k, v = tmpl.split("=", 1)
            args = list(e.args)
            auto = iter(range(len(args)))

            def part(t):
                if t.startswith("{") and t.endswith("}") and (t[1:-1] == "" or t[1:-1].isdigit()):
                    i = int(t[1:-1]) if t[1:-1] else next(auto)
                    return args[i] if i < len(args) else None
                return ast.Constant(value=t)
            key, val = part(k), part(v)
            if isinstance(key, ast.Constant) and isinstance(key.value, str) and val is not None:
                return key.value, val
    if isinstance(e, ast.JoinedStr):
        parts = e.values
        if len(parts) == 2 and isinstance(parts[0], ast.Constant) and str(parts[0].value).endswith("=") and isinstance(parts[1], ast.FormattedValue):
            return str(parts[0].value)[:-1], parts[1].value
        if len(parts) == 3 and isinstance(parts[0], ast.FormattedValue) and isinstance(parts[1], ast.Constant) and parts[1].value == "=" and isinstance(parts[2], ast.FormattedValue) \
                and isinstance(parts[0].value, ast.Constant):
            return parts[0].value.value, parts[2].value
    if isinstance(e, ast.BinOp) and isinstance(e.op, ast.Add) and isinstance(e.left, ast.Constant) and str(e.left.value).endswith("="):
        v = e.right
        if isinstance(v, ast.Call) and call_name(v) == "str" and v.args:
            v = v.args[0]
        return str(e.left.value)[:-1], v
    if isinstance(e, ast.Constant) and isinstance(e.value, str) and "=" in e.value:
        k, v = e.value.split("=", 1)
        return k, ast.Constant(value=v)
    return None


_REPO = [None]


def query_entries(fl, f, join_call, node):
    """[(key, value expr, [condition atoms (ast, truth)])] of the list joined by '&'.join(<list>) - the list may be built by appends under
    `if`s, or be a comprehension over a literal list of (key, value) pairs with a filter"""
    arg = join_call.args[0]
    out = []
    ex = fl.expand(arg, node)
    if isinstance(ex, (ast.GeneratorExp, ast.ListComp)) and len(ex.generators) == 1 and not (isinstance(ex, ast.ListComp) and isinstance(ex.generators[0].iter, (ast.List, ast.Tuple))):
        # any other comprehension over a literal table (a generator, the items of a literal mapping, ...): evaluated row by row
        class _CK:
            pass
        ck_ = _CK()
        ck_.repo = _REPO[0]
        els = conditional_elements(ck_, fl, f, arg, node) if _REPO[0] is not None else None
        if els is not None:
            for e_, conds in els:
                ent = _entry(e_)
                if ent is None:
                    raise AnalysisError(f"{f.qual}: query argument not recognised: {src(e_, 80)}")
                out.append((ent[0], ent[1], conds))
            return out
    if isinstance(ex, ast.ListComp) and len(ex.generators) == 1 and isinstance(ex.generators[0].iter, (ast.List, ast.Tuple)):
        g = ex.generators[0]
        for item in g.iter.elts:
            names = [t.id for t in (g.target.elts if isinstance(g.target, ast.Tuple) else [g.target]) if isinstance(t, ast.Name)]
            vals = list(item.elts) if isinstance(item, (ast.Tuple, ast.List)) and isinstance(g.target, ast.Tuple) else [item]
            if len(names) != len(vals):
                raise AnalysisError(f"{f.qual}: query construction not recognised: {src(ex, 80)}")
            m = dict(zip(names, vals))
            ent = _entry(_subst(copy.deepcopy(ex.elt), m))
            conds = []
            for c in g.ifs:
                cc = specialise(_subst(copy.deepcopy(c), m), {})
                if isinstance(cc, ast.Constant):
                    if not cc.value:
                        ent = None
                    continue
                conds += edge_facts(cc, True)
            if ent:
                out.append((ent[0], ent[1], conds))
        # entries added to the same list afterwards:  L.extend((e1, e2)) / L.append(e)
        if isinstance(arg, ast.Name):
            for n, c in calls_in(fl):
                if call_name(c) in ("extend", "append") and isinstance(c.func, ast.Attribute) and dotted(c.func.value) == arg.id and c.args and node in fl.cfg.reach(n):
                    xs = fl.expand(c.args[0], n)
                    items = list(xs.elts) if call_name(c) == "extend" and isinstance(xs, (ast.Tuple, ast.List)) else ([xs] if call_name(c) == "append" else None)
                    if items is None:
                        raise AnalysisError(f"{f.qual}: query argument not recognised: {src(c, 80)}")
                    conds = [(fl.expand(t.expr, t), lab) for t, lab in fl.cfg.edges_dominating(n) if t.kind == "test" and isinstance(t.stmt, ast.If)]
                    for it_ in items:
                        ent = _entry(it_)
                        if ent is None:
                            raise AnalysisError(f"{f.qual}: query argument not recognised: {src(it_, 80)}")
                        out.append((ent[0], ent[1], [x for e_, lab in conds for x in edge_facts(e_, lab)]))
        return out
    if isinstance(arg, ast.Name):
        nm = arg.id
        for n, c in calls_in(fl, "append"):
            if dotted(c.func.value) == nm and c.args:
                ent = _entry(fl.expand(c.args[0], n))
                if ent is None:
                    raise AnalysisError(f"{f.qual}: query argument not recognised: {src(c, 80)}")
                conds = [(fl.expand(t.expr, t), lab) for t, lab in fl.cfg.edges_dominating(n) if t.kind == "test" and isinstance(t.stmt, ast.If)]
                out.append((ent[0], ent[1], [x for e_, lab in conds for x in edge_facts(e_, lab)]))
        return out
    raise AnalysisError(f"{f.qual}: query construction not recognised: {src(arg, 80)}")


def conditional_elements(ck, fl, f, value, node):
    """[(element expr, [(condition atom, truth)])] of a list-valued expression, however the list is put together: a literal, a
    comprehension (with filter) over a literal table of rows - unrolled row by row, the filter decided per row where it is closed -,
    or an empty list filled by `append` / `extend` under `if`s.  None: construction not recognised."""
    if isinstance(value, ast.Name):
        r = _named_list_elements(ck, fl, f, value, node)
        if r is not None:
            return r
    ex = fl.expand(value, node)
    while isinstance(ex, ast.Call) and call_name(ex) in ("list", "tuple") and len(ex.args) == 1:
        ex = ex.args[0]
    if isinstance(ex, (ast.List, ast.Tuple)):
        return [(e, []) for e in ex.elts]
    if isinstance(ex, (ast.ListComp, ast.GeneratorExp)) and len(ex.generators) == 1:
        g = ex.generators[0]
        it = g.iter
        while isinstance(it, ast.Call) and call_name(it) in ("list", "tuple") and len(it.args) == 1:
            it = it.args[0]
        # D.items() of a literal mapping: its (key, value) rows in the order written
        if isinstance(it, ast.Call) and call_name(it) == "items" and isinstance(it.func, ast.Attribute) and not it.args and isinstance(it.func.value, ast.Dict) \
                and all(k is not None for k in it.func.value.keys):
            it = ast.Tuple(elts=[ast.Tuple(elts=[k, v], ctx=ast.Load()) for k, v in zip(it.func.value.keys, it.func.value.values)], ctx=ast.Load())
        if not isinstance(it, (ast.List, ast.Tuple)):
            return None
        out = []
        for item in it.elts:
            if isinstance(g.target, ast.Name):
                m = {g.target.id: item}
            elif isinstance(g.target, (ast.Tuple, ast.List)) and isinstance(item, (ast.Tuple, ast.List)) and len(item.elts) == len(g.target.elts) \
                    and all(isinstance(t, ast.Name) for t in g.target.elts):
                m = {t.id: v for t, v in zip(g.target.elts, item.elts)}
            else:
                return None

            class FN(ast.NodeTransformer):          # `<function name> is None` is decided: a def / import is never None
                def visit_Compare(self, n):
                    self.generic_visit(n)
                    if len(n.ops) == 1 and isinstance(n.ops[0], (ast.Is, ast.IsNot)) and isinstance(n.comparators[0], ast.Constant) \
                            and n.comparators[0].value is None and isinstance(n.left, ast.Name) and ck.repo.is_callable_name(f, n.left.id):
                        return ast.copy_location(ast.Constant(value=isinstance(n.ops[0], ast.IsNot)), n)
                    return n
            elt = specialise(FN().visit(_subst(copy.deepcopy(ex.elt), m)), {})
            conds, dead = [], False
            for c in g.ifs:
                cc = specialise(FN().visit(_subst(copy.deepcopy(c), m)), {})
                if isinstance(cc, ast.Constant):
                    dead = dead or not cc.value
                    continue
                conds += edge_facts(cc, True)
            if not dead:
                out.append((elt, conds))
        return out
    return None


def _named_list_elements(ck, fl, f, value, node):
    if isinstance(value, ast.Name):
        defs = fl.defs_at(node, value.id)
        if len(defs) != 1:
            return None
        d = next(iter(defs))
        how = fl.def_how(d, value.id)
        if how[0] != "assign":
            return None
        base = conditional_elements(ck, fl, f, how[1], d) if not isinstance(how[1], ast.Name) else None
        if base is None:
            return None
        out = list(base)
        for n, c in calls_in(fl):
            if call_name(c) in ("extend", "append", "insert") and isinstance(c.func, ast.Attribute) and dotted(c.func.value) == value.id and node in fl.cfg.reach(n) \
                    and fl.defs_at(n, value.id) == defs:
                if any(t.kind in ("for", "while") for t, lab in fl.cfg.edges_dominating(n) if lab is True and t.kind in ("for", "while")):
                    return None
                if call_name(c) == "append" and len(c.args) == 1:
                    items = [fl.expand(c.args[0], n)]
                elif call_name(c) == "extend" and len(c.args) == 1 and isinstance(fl.expand(c.args[0], n), (ast.Tuple, ast.List)):
                    items = list(fl.expand(c.args[0], n).elts)
                else:
                    return None
                conds = [(fl.expand(t.expr, t), lab) for t, lab in fl.cfg.edges_dominating(n) if t.kind == "test" and isinstance(t.stmt, ast.If)]
                for it_ in items:
                    out.append((it_, [x for e_, lab in conds for x in edge_facts(e_, lab)]))
        return out
    return None



def _never_none(fl, e, node):
    ex = fl.expand(e, node)
    return all(isinstance(a, ast.Constant) and a.value is not None for a in alts_deep(ex))


def rule_params(ck):
    repo = ck.repo
    f = repo.fn("DataClient.get_sessions")
    fl = flow_of(f)
    site = f.params[1]
    joins = [(n, c) for n, c in calls_in(fl, "join") if isinstance(c.func.value, ast.Constant) and c.func.value.value == "&" and c.args]
    ck.require(len(joins) == 1, "C20.R3", f, joins[0][1] if joins else "'&'.join(args)", bad=f"{len(joins)} '&'.join(...) sites: query construction not found", sink="params:join")
    if len(joins) != 1:
        return
    jn, jc = joins[0]
    _REPO[0] = repo
    entries = query_entries(fl, f, jc, jn)
    ck.count("query entries evaluated", len(entries))
    bykey = {}
    for k, v, conds in entries:
        bykey.setdefault(k, []).append((v, conds))

    def relevant(conds):
        out = []
        for a, t in conds:
            c = cmp_norm(a, t)
            if c and dotted(c[0]) == site:
                continue                      # the site validation
            if c and c[1] in ("is not", "is") and isinstance(c[2], ast.Constant) and c[2].value is None and _never_none(fl, c[0], jn):
                continue                      # `limit is not None` for a literal page size
            out.append((a, t))
        return out
    for p, key in QUERY_KEYS.items():
        hit = bykey.get(key, [])
        ck.require(len(hit) == 1 and dotted(hit[0][0]) == p, "C20.R3", f, f"{key}=<{p}>", ok=f"{p} sent as {key}=",
                   bad=f"parameter {p} does not reach the query string as `{key}=<{p}>`", sink=f"params:{p}:flow")
        if len(hit) == 1:
            conds = relevant(hit[0][1])
            own = [(a, t) for a, t in conds if (c := cmp_norm(a, t)) and c[1] == "is not" and dotted(c[0]) == p]
            others = [(a, t) for a, t in conds if (a, t) not in own]
            ck.require(bool(own) and not others, "C20.R3", f, f"{key}=<{p}>", ok=f"sent whenever {p} is given, whatever the other arguments",
                       bad=f"`{key}=` is only sent under `{src(others[0][0], 40) if others else ''}` = {others[0][1] if others else ''}: with some argument combinations {p} is silently dropped",
                       sink=f"params:{p}:guard")
    hit = bykey.get("max_results", [])
    ck.require(len(hit) == 1 and not relevant(hit[0][1]), "C20.R3", f, "max_results=", ok="page size always sent", bad="the page-size parameter is not always sent", sink="params:limit")
    gets = [(n, c) for n, c in calls_in(fl, "get") if dotted(c.func) == "requests.get"]
    firsts = []
    for n, c in gets:
        # judged per alternative of the URL: a follow-up request's URL derives from the previous payload (whose own URL it thereby
        # mentions), and one request site in a loop may serve both the first page and the next links
        for alt in (alts_deep(fl.expand(c.args[0], n), limit=16) if c.args else []):
            u = canon(alt)
            if "'sessions/' + " in u and "['_links']" not in u and '["_links"]' not in u:
                firsts.append((n, c, canon(fl.expand(c.args[0], n))))      # completeness (base, endpoint, /ts/, arguments) is judged on the whole value
                break
    ck.require(len(firsts) >= 1, "C20.R3", f, "first request", bad="no request to the sessions/<site> endpoint", sink="params:first")
    for n, c, u in firsts:
        ck.require("self.url" in u and f"'sessions/' + {site}" in u and ".join(" in u and "'/ts/'" in u, "C20.R3", f, c,
                   ok="URL = base + sessions/<site>[/ts/] + joined query arguments", bad=f"the first request's URL `{u[:120]}` lacks the base url, the site endpoint, the /ts/ option or the joined arguments", sink="params:url")
    for n, c in gets:
        a = next((k.value for k in c.keywords if k.arg == "auth"), None)
        ck.require(a is not None and "self.token" in canon(a), "C20.R3", f, c, ok="token sent", bad="a request is sent without the API token", sink="params:auth")
    # get_sessions_by_time
    g = repo.fn("DataClient.get_sessions_by_time")
    gl = flow_of(g)
    site2, start, end = g.params[1:4]
    seen = {}
    # the condition handed on: ' and '.join(<clauses>) - each clause evaluated to (template, formatted value, conditions)
    cjoins = [(n, c) for n, c in calls_in(gl, "join") if isinstance(c.func.value, ast.Constant) and isinstance(c.func.value.value, str) and c.args]
    clauses = None
    if len(cjoins) == 1:
        clauses = conditional_elements(ck, gl, g, cjoins[0][1].args[0], cjoins[0][0])
    if clauses is None:
        raise AnalysisError(f"{g.qual}: how the condition text is put together is not recognised ({len(cjoins)} join sites)")
    ck.count("time-filter clauses evaluated", len(clauses))
    for e, conds in clauses:
        if isinstance(e, ast.Call) and call_name(e) == "format" and isinstance(e.func.value, ast.Constant) and isinstance(e.func.value.value, str):
            lit, arg = e.func.value.value, (e.args[0] if e.args else None)
        elif isinstance(e, ast.JoinedStr) and len([v for v in e.values if isinstance(v, ast.FormattedValue)]) == 1:
            lit = "".join(v.value if isinstance(v, ast.Constant) else "{0}" for v in e.values)
            arg = next(v.value for v in e.values if isinstance(v, ast.FormattedValue))
        elif isinstance(e, ast.BinOp) and isinstance(e.op, ast.Mod) and isinstance(e.left, ast.Constant) and isinstance(e.left.value, str):
            lit, arg = e.left.value, (e.right.elts[0] if isinstance(e.right, ast.Tuple) and e.right.elts else e.right)
        else:
            raise AnalysisError(f"{g.qual}: clause of the condition not recognised: {src(e, 80)}")
        who, via = None, None
        if isinstance(arg, ast.Call) and call_name(arg) == "http_date" and arg.args:
            who, via = dotted(arg.args[0]), "http_date"
        elif arg is not None:
            who = dotted(arg)
        seen.setdefault(who, []).append((lit, conds, via, e))
    for p, op in ((start, ">="), (end, "<=")):
        hits = seen.get(p, [])
        good = [h for h in hits if h[0].startswith(f"connectionTime {op} ") and h[2] == "http_date"]
        ok = len(hits) == 1 and len(good) == 1 and any((c := cmp_norm(a, t)) and c[1] == "is not" and dotted(c[0]) == p for a, t in good[0][1])
        ck.require(ok, "C20.R3", g, hits[0][3] if hits else f"connectionTime {op}", ok=f"{p} bounds connectionTime with {op}, formatted by http_date",
                   bad=f"`{p}` does not flow into the `connectionTime {op} <http date>` clause", sink=f"bytime:{p}")
        if ok:
            others = [(a, t) for a, t in good[0][1] if not ((c := cmp_norm(a, t)) and c[1] == "is not" and dotted(c[0]) == p)]
            ck.require(not others, "C20.R3", g, good[0][3], ok=f"the {p} bound is applied whenever {p} is given",
                       bad=f"the `{p}` bound is only applied under `{src(others[0][0], 40) if others else ''}` = {others[0][1] if others else ''}", sink=f"bytime:{p}:guard")

    def joined_cond(arg, n):
        ex = gl.expand(arg, n) if arg is not None else None
        return isinstance(ex, ast.Call) and call_name(ex) == "join" and isinstance(ex.func.value, ast.Constant) and ex.func.value.value == " and "
    gs = calls_in(gl, "get_sessions")
    ck.require(len(gs) >= 1, "C20.R3", g, "self.get_sessions(...)", bad="get_sessions_by_time does not call get_sessions", sink="bytime:calls")
    for n, c in gs:
        b = bind_args(c, f, method=True)
        ok = dotted(b.get("site")) == site2 and joined_cond(b.get("cond"), n) and isinstance(b.get("sort"), ast.Constant) and b["sort"].value == "connectionTime" \
            and dotted(b.get("timeseries")) == "timeseries" and "project" not in b
        ck.require(ok, "C20.R3", g, c, ok="forwards site, the joined condition, sort=connectionTime, timeseries", bad="get_sessions_by_time does not forward (site, condition, sort='connectionTime', timeseries)", sink="bytime:forward")
    for n, c in calls_in(gl, "count_sessions"):
        h = repo.fn("DataClient.count_sessions")
        b = bind_args(c, h, method=True)
        ok = dotted(b.get("site")) == site2 and joined_cond(b.get("cond"), n)
        ck.require(ok, "C20.R3", g, c, ok="count uses the same site and condition", bad="count_sessions is not given the same site and condition", sink="bytime:count")


# ----------------------------------------------------------------------------
# R4 formats
# ----------------------------------------------------------------------------

def _reaching_names(fl, e):
    """names whose value can flow into expression e: through local definitions and through elements appended / inserted into local lists"""
    from ..rules import mutating_calls
    seen, todo = set(), [y.id for y in ast.walk(e) if isinstance(y, ast.Name)]
    while todo:
        nm = todo.pop()
        if nm in seen:
            continue
        seen.add(nm)
        for n in fl.cfg.nodes:
            how = fl._defs.get(n, {}).get(nm)
            if how and how[0] in ("assign", "unpack", "aug", "iter"):
                v = how[1] if how[0] != "aug" else how[2]
                todo += [y.id for y in ast.walk(v) if isinstance(y, ast.Name)]
            for x in fl.cfg.node_exprs(n):
                for p_, m_, c_ in mutating_calls(x):
                    if p_ == nm and m_ in ("append", "extend", "insert", "add", "update", "__setitem__"):
                        todo += [y.id for a in list(c_.args) + [k.value for k in c_.keywords] for y in ast.walk(a) if isinstance(y, ast.Name)]
    return seen


def rule_verbatim_and_local(ck):
    """(R3v) caller-supplied texts (site, filter, projection, sort) reach the URL verbatim: they may be *arguments* of a format call or
    operands of a concatenation / join, never (part of) the template a later .format() / % interprets - a filter containing braces
    would be rewritten or raise.  (R2s) the paging state of the generator is local to the call: get_sessions writes no attribute of
    the client (two generators of one client consumed alternately would otherwise follow each other's pages)."""
    repo = ck.repo
    f = repo.fn("DataClient.get_sessions")
    fl = flow_of(f)
    user = set(f.params[1:5]) & {"site", "cond", "project", "sort"} or set(f.params[1:5])
    n_urls = 0
    for n, c in calls_in(fl):
        if call_name(c) not in ("get", "head") or not dotted(c.func) or not dotted(c.func).startswith("requests.") or not c.args:
            continue
        n_urls += 1
        u = _gexpand(fl, c.args[0], n)
        for x in list(ast.walk(c.args[0])) + list(ast.walk(u)):
            tmpl = None
            if isinstance(x, ast.Call) and isinstance(x.func, ast.Attribute) and x.func.attr in ("format", "format_map"):
                tmpl = x.func.value
            elif isinstance(x, ast.BinOp) and isinstance(x.op, ast.Mod):
                tmpl = x.left
            if tmpl is None:
                continue
            leak = sorted(_reaching_names(fl, tmpl) & user)
            ck.require(not leak, "C20.R3", f, x, ok="templates are literals; caller texts are only substituted in",
                       bad=f"the caller-supplied {leak} is part of the template of `{src(x, 60)}`: braces / percent signs in a filter or projection are interpreted "
                           f"instead of being sent as given", sink="params:template")
    ck.floor("C20.R3", n_urls, 1, "requests issued by get_sessions")
    writes = [(n, p, t) for n, k, p, t in state_writes(fl) if p.startswith("self.")]
    ck.require(not writes, "C20.R2", f, writes[0][2] if writes else "paging state", ok="the current page and the next link are locals of the generator",
               bad=f"get_sessions keeps paging state in `{writes[0][1] if writes else ''}` on the client object: generators obtained from the same client interfere "
                   f"(sessions skipped or repeated)", sink="pagination:shared-state")


def rule_formats(ck):
    repo = ck.repo
    hd = repo.fn("http_date")
    ph = repo.fn("parse_http_date")
    hl, pl = flow_of(hd), flow_of(ph)
    fmt_out = fmt_in = None

    def is_utc(e):
        return canon(e).lower() in ("pytz.utc", "timezone.utc", "utc", "datetime.timezone.utc")
    for r in [n for n in hl.cfg.nodes if n.kind == "return"]:
        e = hl.expand(r.expr, r)
        ok = isinstance(e, ast.Call) and call_name(e) == "strftime" and e.args
        if ok:
            try:
                fmt_out = repo.fold(hd, e.args[0])
            except (ValueError, TypeError):
                pass
            recv = e.func.value
            utc = isinstance(recv, ast.Call) and call_name(recv) == "astimezone" and recv.args and is_utc(recv.args[0]) and dotted(recv.func.value) == hd.params[0]
            ck.require(bool(utc), "C20.R4", hd, e, ok="converted to UTC before formatting", bad="http_date formats the local wall-clock time without converting to UTC (the string says GMT)", sink="http_date:utc")
        ck.require(bool(ok), "C20.R4", hd, r.expr, ok="strftime", bad="http_date does not format with strftime", sink="http_date:strftime")
    tzp = ph.params[1]
    for r in [n for n in pl.cfg.nodes if n.kind == "return"]:
        e = pl.expand(r.expr, r)
        ok = isinstance(e, ast.Call) and call_name(e) == "astimezone" and e.args and dotted(e.args[0]) == tzp
        ck.require(bool(ok), "C20.R4", ph, r.expr, ok="converted to the document's zone", bad="parse_http_date does not convert the instant to the requested zone with astimezone(tz)", sink="parse:astimezone")
        if ok:
            inner = e.func.value
            loc = isinstance(inner, ast.Call) and call_name(inner) == "localize" and is_utc(inner.func.value) and inner.args
            loc2 = isinstance(inner, ast.Call) and call_name(inner) == "replace" and any(k.arg == "tzinfo" and is_utc(k.value) for k in inner.keywords)
            ck.require(bool(loc or loc2), "C20.R4", ph, inner, ok="the parsed naive time is interpreted as UTC", bad="the parsed time is not localised as UTC before conversion (GMT strings would be read as local time)", sink="parse:utc")
            sp = inner.args[0] if loc else (inner.func.value if loc2 else None)
            if isinstance(sp, ast.Call) and call_name(sp) == "strptime" and len(sp.args) == 2:
                try:
                    fmt_in = repo.fold(ph, sp.args[1])
                except (ValueError, TypeError):
                    pass
                ck.require(dotted(sp.args[0]) == ph.params[0], "C20.R4", ph, sp, ok="parses the given string", bad="strptime is not applied to the given string", sink="parse:arg")
    ck.require(fmt_out is not None and fmt_out == fmt_in, "C20.R4", ph, f"formats {fmt_out!r} / {fmt_in!r}", ok="formatting and parsing use the same format",
               bad=f"http_date formats with {fmt_out!r} but parse_http_date parses {fmt_in!r}: format(parse(x)) is not the identity", sink="formats:agree")
    if fmt_out:
        ck.require("%H:%M:%S" in fmt_out and fmt_out.endswith("GMT") and all(x in fmt_out for x in ("%d", "%b", "%Y")), "C20.R4", hd, fmt_out, ok="RFC-1123: 24-hour time to the second, GMT",
                   bad=f"the format {fmt_out!r} is not RFC-1123 (%d %b %Y %H:%M:%S GMT): times are ambiguous or lose precision", sink="formats:rfc1123")


# ----------------------------------------------------------------------------
# R5 parse_dates
# ----------------------------------------------------------------------------

def rule_parse_dates(ck):
    repo = ck.repo
    f = repo.fn("parse_dates")
    fl = flow_of(f)
    cfg = fl.cfg
    doc = f.params[0]
    loops = [n for n in cfg.nodes if n.kind == "for" and canon(n.stmt.iter) in (doc, f"{doc}.keys()", f"list({doc})", f"list({doc}.keys())", f"{doc}.items()", f"list({doc}.items())")]
    ck.require(len(loops) == 1, "C20.R5", f, loops[0].stmt.iter if loops else "for field in doc", ok="every field visited", bad="parse_dates does not visit every field of the document", sink="parse_dates:iter")
    if len(loops) != 1:
        return
    lp = loops[0]
    inner = cfg.loop_region(lp)
    esc = [n for n in inner if n.kind in ("break", "continue", "return") and not [t for t, lab in cfg.edges_dominating(n) if t.kind == "for" and t is not lp and lab]]
    ck.require(not esc, "C20.R5", f, esc[0].stmt if esc else lp.stmt.iter, ok="no field skipped", bad="fields can be skipped (break/continue/return in the field loop)", sink="parse_dates:no-skip")
    items_form = ".items()" in canon(lp.stmt.iter)
    key = f"__key__({doc})" if items_form else f"__elem__({doc})"
    field_val = {f"{doc}[{key}]", f"__val__({doc})"}
    tz_want = f"pytz.timezone({doc}['timezone'])"

    def is_field(e, n):
        return canon(fl.expand(e, n)) in field_val

    def tz_ok(e, n):
        return canon(fl.expand(e, n)) == tz_want
    calls = [(n, c) for n, c in calls_in(fl, "parse_http_date")]
    ck.require(len(calls) == 2, "C20.R5", f, "parse_http_date call sites", ok="scalar fields and time-series entries both converted", bad=f"{len(calls)} parse_http_date call sites (scalar fields and the time series need one each)",
               sink="parse_dates:sites")
    for n, c in calls:
        ck.require(len(c.args) == 2 and tz_ok(c.args[1], n), "C20.R5", f, c, ok="converted into the document's zone", bad="parse_http_date is not given the document's time zone (pytz.timezone(doc['timezone']))",
                   sink="parse_dates:tz-arg")
    # scalar store: doc[field] = parse_http_date(doc[field], tz) for every string field
    st = [n for n in inner if n.kind == "stmt" and isinstance(n.stmt, ast.Assign) and isinstance(n.stmt.targets[0], ast.Subscript)
          and canon(fl.expand(n.stmt.targets[0], n)) in field_val]
    ok = bool(st)
    for n in st:
        v = fl.expand(n.stmt.value, n)
        ok = ok and isinstance(v, ast.Call) and call_name(v) == "parse_http_date" and len(v.args) == 2 and canon(v.args[0]) in field_val and canon(v.args[1]) == tz_want
    ck.require(ok, "C20.R5", f, st[0].stmt if st else f"{doc}[field] = dt", ok="string fields replaced by their parsed datetime", bad="string fields are not replaced by parse_http_date(doc[field], tz)", sink="parse_dates:scalar")
    for n in st:
        facts = facts_at(fl, n)
        isstr = [(a, t) for a, t in facts if isinstance(a, ast.Call) and call_name(a) == "isinstance" and len(a.args) == 2 and dotted(a.args[1]) == "str" and is_field(a.args[0], n)]
        other = [(a, t) for a, t in facts if (a, t) not in isstr]
        ck.require(bool(isstr) and all(t for a, t in isstr) and not other, "C20.R5", f, n.stmt, ok="for every string field", bad="the scalar conversion is not applied to every string field"
                   + (f" (additional condition `{src(other[0][0], 40)}`)" if other else ""), sink="parse_dates:scalar-guard")
    for t in ast.walk(f.node):
        if isinstance(t, ast.Try):
            for h in t.handlers:
                ck.require(h.type is not None and dotted(h.type) == "ValueError", "C20.R5", f, h, ok="only non-date strings (ValueError) are skipped", bad="parse_dates swallows more than ValueError", sink="parse_dates:except")
    # time series: <field value>['timestamps'] = [parse_http_date(ts, tz) for ts in <field value>['timestamps']]
    ts_targets = {f"{v}['timestamps']" for v in field_val}
    ts = [n for n in inner if n.kind == "stmt" and isinstance(n.stmt, ast.Assign) and isinstance(n.stmt.targets[0], ast.Subscript) and canon(fl.expand(n.stmt.targets[0], n)) in ts_targets]
    ck.require(len(ts) == 1, "C20.R5", f, ts[0].stmt if ts else "doc[field]['timestamps'] = [...]", bad=f"{len(ts)} stores of converted time-series timestamps", sink="parse_dates:ts-store")
    for n in ts:
        v = fl.expand(n.stmt.value, n)
        ok = isinstance(v, ast.ListComp) and len(v.generators) == 1 and not v.generators[0].ifs and canon(v.generators[0].iter) in ts_targets and \
            isinstance(v.elt, ast.Call) and call_name(v.elt) == "parse_http_date" and len(v.elt.args) == 2 and dotted(v.elt.args[0]) == dotted(v.generators[0].target) and canon(v.elt.args[1]) == tz_want
        ck.require(bool(ok), "C20.R5", f, n.stmt.value, ok="every time-series timestamp converted by the same function, one by one", bad=f"time-series timestamps are converted by `{src(n.stmt.value, 80)}`, not by "
                   f"parse_http_date(ts, tz) applied to each entry: entries on the other side of a DST change get the wrong offset", sink="parse_dates:ts-each")
        facts = facts_at(fl, n)
        isd = [(a, t) for a, t in facts if isinstance(a, ast.Call) and call_name(a) == "isinstance" and len(a.args) == 2 and dotted(a.args[1]) == "dict" and is_field(a.args[0], n) and t]
        has = [(a, t) for a, t in facts if (c := cmp_norm(a, t)) and c[1] == "in" and isinstance(c[0], ast.Constant) and c[0].value == "timestamps" and is_field(c[2], n)]
        # an `elif` after the string test adds the (implied) fact `not isinstance(value, str)`
        implied = [(a, t) for a, t in facts if isinstance(a, ast.Call) and call_name(a) == "isinstance" and len(a.args) == 2 and dotted(a.args[1]) == "str" and not t]
        other = [(a, t) for a, t in facts if (a, t) not in isd and (a, t) not in has and (a, t) not in implied]
        ck.require(bool(isd) and bool(has) and not other, "C20.R5", f, n.stmt, ok="for every nested time series", bad="the time-series conversion is not applied to every dict field with 'timestamps'"
                   + (f" (additional condition `{src(other[0][0], 40)}`)" if other else ""), sink="parse_dates:ts-guard")


def run(ck):
    ck.attempt(rule_validate)
    ck.attempt(rule_pagination)
    ck.attempt(rule_params)
    ck.attempt(rule_verbatim_and_local)
    ck.attempt(rule_formats)
    ck.attempt(rule_parse_dates)

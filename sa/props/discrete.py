"""Typestate analysis of the finite-rate (discrete) feasible-rate search, shared by C07 (safety) and C08 (maximality).

Abstract state carried along every CFG path of `discrete_max_feasible_rate`:

    val        what the working copy holds at the station: init | cand | zero | other
    chk        what is known about that working copy: U (unchecked) | F (checked feasible) | I (checked infeasible)
    pending    how many times the candidate index moved down since the last candidate was written (0, 1, 2+)
    top        the candidate index is known to be len(levels) - 1 on this path
    exhausted  the candidates are known to be used up (index < 0 edge, or the exhaustion edge of a for loop)

Obligations:
    * a `return` hands out the working copy's entry only in (cand, F) or zero - never an unchecked or infeasible candidate
      (C07: safe), never the untouched starting value;
    * literal 0 is written / returned only when the candidates are exhausted (C08: a feasible level is not given up);
    * the first candidate is the last (largest) of the ascending list, every move of the index is by exactly -1 and every
      index position is written before it is stepped over (C08: no level is skipped, so the first feasible one is the largest);
    * the working copy is a copy of the caller's schedule, and the feasibility call that counts is the one on that copy.

Recognised loop idioms: index walked down in a `while` (today's code), `for i in range(len(L) - 1, -1, -1)` /
`reversed(range(len(L)))`, and element loops over `reversed(L)` / `L[::-1]`.  Anything else is ANALYSIS-ERROR."""
import ast

from ..core import AnalysisError, dotted, call_name, src
from ..flow import edge_facts, linear, Lin
from ..rules import flow_of, canon, cmp_norm, mutating_calls, bind_args

FEAS = "infrastructure_constraints_feasible"
COPIES = ("copy(%s)", "%s.copy()", "np.copy(%s)", "np.array(%s)", "deepcopy(%s)", "copy.copy(%s)", "copy.deepcopy(%s)", "np.array(%s, copy=True)")


def _forward(cfg, init, transfer):
    """set-of-states forward dataflow; transfer(node, state) -> iterable of successor states"""
    IN = {n: set() for n in cfg.nodes}
    IN[cfg.entry] = {init}
    work = [cfg.entry]
    OUT = {}
    while work:
        n = work.pop()
        out = set()
        for s in IN[n]:
            out |= set(transfer(n, s))
        if OUT.get(n) == out:
            continue
        OUT[n] = out
        for m in n.succ:
            if not out <= IN[m]:
                IN[m] |= out
                work.append(m)
    return IN


def rule_discrete_search(ck, rid_safe="C07.R3", rid_max=None, which=("safe", "max")):
    repo = ck.repo
    df = repo.fn("SortedSchedulingAlgo.discrete_max_feasible_rate")
    fl = flow_of(df)
    cfg = fl.cfg
    rid_max = rid_max or rid_safe
    station, levels, sched, infra = df.params[:4]
    feas_fn = repo.fn(FEAS)

    def rid_of(kind):
        return rid_safe if kind == "safe" else rid_max

    def req(kind, cond, node, ok, bad, sink):
        if kind in which:
            ck.require(cond, rid_of(kind), df, node, ok=ok, bad=bad, sink=sink)

    # -- the working copy: a local whose every definition is a copy of the caller's schedule
    copies = {}
    for n in cfg.nodes:
        for nm, how in fl._defs.get(n, {}).items():
            if how[0] == "assign" and canon(how[1]) in [c % sched for c in COPIES]:
                copies.setdefault(nm, []).append(n)
    stores = [n for n in cfg.nodes if n.kind == "stmt" and isinstance(n.stmt, ast.Assign) and isinstance(n.stmt.targets[0], ast.Subscript)]
    arrs = {dotted(n.stmt.targets[0].value) for n in stores}
    req("safe", sched not in arrs, next((n.stmt for n in stores if dotted(n.stmt.targets[0].value) == sched), df.node),
        "the caller's schedule is never written", "the search writes candidates into the caller's schedule instead of a copy", "discrete:writes-caller-schedule")
    aliases = {nm for n in cfg.nodes for nm, how in fl._defs.get(n, {}).items() if how[0] == "assign" and canon(how[1]) == sched}
    for a in sorted(x for x in arrs if x in aliases):
        req("safe", False, next(n.stmt for n in stores if dotted(n.stmt.targets[0].value) == a), "",
            f"`{a}` is the caller's schedule itself, not a copy: the candidates tried are left in the shared schedule", "discrete:writes-caller-schedule")
        copies.setdefault(a, [n for n in cfg.nodes if a in fl._defs.get(n, {})])
    work = [a for a in arrs if a in copies]
    if len(work) != 1:
        raise AnalysisError(f"discrete_max_feasible_rate: working copy of the schedule not identified (written arrays {sorted(x for x in arrs if x)}, copies {sorted(copies)})")
    new = work[0]
    alldefs = [n for n in cfg.nodes if new in fl._defs.get(n, {})]
    req("safe", all(n in copies[new] for n in alldefs), df.node, "the working copy is only ever a copy of the schedule",
        f"`{new}` is rebound to something other than a copy of the schedule", "discrete:copy")

    # -- loop idiom: index variable or element variable
    idx_vars, elem_vars, ascending = set(), {}, []
    for n in stores:
        if dotted(n.stmt.targets[0].value) != new:
            continue
        v = n.stmt.value
        if isinstance(v, ast.Subscript) and dotted(v.value) == levels and isinstance(v.slice, ast.Name):
            idx_vars.add(v.slice.id)
    for n in cfg.nodes:
        if n.kind == "for" and isinstance(n.stmt.target, ast.Name):
            it = canon(n.stmt.iter)
            L = levels
            if it in (f"reversed({L})", f"{L}[::-1]", f"sorted({L}, reverse=True)", f"reversed(sorted({L}))"):
                elem_vars[n.stmt.target.id] = n
            elif it in (f"range(len({L}) - 1, -1, -1)", f"reversed(range(len({L})))", f"range(len({L}))[::-1]"):
                idx_vars.add(n.stmt.target.id)
                elem_vars["#" + n.stmt.target.id] = n      # index bound by a descending for loop
            elif it in (L, f"sorted({L})", f"iter({L})"):
                elem_vars[n.stmt.target.id] = n
                ascending.append(n)
            elif it in (f"range(len({L}))", f"range(0, len({L}))"):
                idx_vars.add(n.stmt.target.id)
                elem_vars["#" + n.stmt.target.id] = n
                ascending.append(n)
    if len(idx_vars) + len([k for k in elem_vars if not k.startswith("#")]) != 1:
        raise AnalysisError(f"discrete_max_feasible_rate: candidate walk not recognised (index variables {sorted(idx_vars)}, element loops {sorted(elem_vars)})")
    idx = next(iter(idx_vars)) if idx_vars else None
    for_idx = idx is not None and ("#" + idx) in elem_vars
    elem = next((k for k in elem_vars if not k.startswith("#")), None)

    for n in ascending:
        req("max", False, n.stmt.iter, "", "the candidate levels are tried from the smallest up: the first feasible one found is the smallest, not the largest", "discrete:start")

    def is_cand(v):
        if idx is not None:
            return isinstance(v, ast.Subscript) and dotted(v.value) == levels and canon(v.slice) == idx
        return isinstance(v, ast.Name) and v.id == elem

    def feas_truth(node):
        """truth of the feasibility call on the working copy known on this edge node, or None"""
        if node.kind != "edge" or node.test.kind != "test":
            return None
        for a, t in edge_facts(node.test.expr, node.label):
            if isinstance(a, ast.Call) and call_name(a) == FEAS:
                b = bind_args(a, feas_fn, method=False)
                if dotted(b.get(feas_fn.params[0])) == new and dotted(b.get(feas_fn.params[1])) == infra:
                    return t
        return None

    def idx_negative(node):
        if node.kind != "edge" or node.test.kind != "test" or idx is None:
            return False
        for a, t in edge_facts(node.test.expr, node.label):
            c = cmp_norm(a, t)
            if not c:
                continue
            l, op, r = canon(c[0]), c[1], canon(c[2])
            if (l == idx and op == "<" and r == "0") or (l == idx and op == "<=" and r == "-1") or (l == idx and op == "==" and r == "-1"):
                return True
        return False

    def idx_zero(node):
        """the edge establishes that the index stands on the lowest level (idx == 0 / idx <= 0 / idx < 1)"""
        if node.kind != "edge" or node.test.kind != "test" or idx is None:
            return False
        for a, t in edge_facts(node.test.expr, node.label):
            c = cmp_norm(a, t)
            if not c:
                continue
            l, op, r = canon(c[0]), c[1], canon(c[2])
            if (l == idx and op in ("==", "<=") and r == "0") or (l == idx and op == "<" and r == "1") or (l == "0" and op == "==" and r == idx):
                return True
        return False

    problems = []      # (kind, node, message, sink)
    seen = set()

    def flag(kind, node, msg, sink):
        k = (kind, id(node), sink)
        if k not in seen:
            seen.add(k)
            problems.append((kind, node, msg, sink))

    n_ret = [0]
    n_store = [0]

    def transfer(n, s):
        val, chk, pending, exhausted, top = s
        if n.kind == "edge":
            if n.test.kind == "for":
                if n.test in elem_vars.values():
                    if n.label is False:
                        return [(val, chk, pending, True, top)]
                return [s]
            t = feas_truth(n)
            if t is not None:
                chk = "F" if t else "I"
            if idx_negative(n):
                exhausted = True
            if idx_zero(n) and pending == 0 and chk == "I" and val == "cand":
                exhausted = True          # the candidate just refused *is* the lowest level: nothing is left to try
            return [(val, chk, pending, exhausted, top)]
        if n.kind == "stmt":
            st = n.stmt
            # index updates
            if idx is not None and not for_idx:
                tg = st.targets if isinstance(st, ast.Assign) else [st.target] if isinstance(st, (ast.AugAssign, ast.AnnAssign)) else []
                if any(isinstance(t, ast.Name) and t.id == idx for t in tg):
                    if isinstance(st, ast.AugAssign) and isinstance(st.op, ast.Sub) and canon(st.value) == "1" or \
                            isinstance(st, ast.Assign) and linear(st.value, norm=canon) == Lin({idx: 1}, -1):
                        if pending >= 1 and val != "init":
                            flag("max", st, f"`{src(st)}`: the candidate index moves down again before the level at the previous position was tried "
                                 "(a level is skipped, the largest feasible one can be missed)", "discrete:step")
                        return [(val, chk, min(pending + 1, 2), exhausted, False)]
                    if isinstance(st, ast.Assign) and linear(fl.expand(st.value, n), norm=canon) == Lin({f"len({levels})": 1}, -1):
                        if val != "init":
                            flag("max", st, "the candidate index is reset to the top inside the search", "discrete:step")
                        return [(val, chk, 0, exhausted, True)]
                    flag("max", st, f"`{src(st)}`: the search must start at the last (largest) candidate and step down by exactly 1", "discrete:step")
                    return [(val, chk, 2, exhausted, False)]
            if isinstance(st, ast.Assign) and isinstance(st.targets[0], ast.Subscript) and dotted(st.targets[0].value) == new:
                n_store[0] += 1
                at_station = canon(st.targets[0].slice) == station
                v = st.value
                if not at_station:
                    flag("safe", st, f"the working copy is written at `{canon(st.targets[0].slice)}`, not at the station being scheduled", "discrete:candidate")
                    return [("other", "U", pending, exhausted, top)]
                if isinstance(v, ast.Constant) and v.value == 0 and not isinstance(v.value, bool):
                    if not exhausted:
                        flag("max", st, "the search falls back to 0 while candidate levels remain untried", "discrete:fallback")
                    return [("zero", "U", pending, exhausted, top)]
                if is_cand(v):
                    if idx is not None and not for_idx:
                        if val == "init":
                            if not top:
                                flag("max", st, "the discrete search does not start at the last (largest) candidate level", "discrete:start")
                        elif pending != 1:
                            flag("max", st, f"the candidate written is not the next lower level (index moved {pending} time(s) since the last candidate)", "discrete:step")
                    if exhausted:
                        flag("safe", st, "a candidate is read with an index that is known to be negative (wraps to the largest level)", "discrete:candidate")
                    return [("cand", "U", 0, exhausted, top)]
                # the top level written before the search starts (levels[len(levels) - 1] / levels[-1]): the first candidate, unchecked
                if val == "init" and isinstance(v, ast.Subscript) and canon(v.value) == levels and (
                        linear(fl.expand(v.slice, n), norm=canon) == Lin({f"len({levels})": 1}, -1) or canon(v.slice) == "-1"):
                    return [("cand", "U", 0, exhausted, True)]
                flag("safe", st, f"`{canon(v)[:60]}` is written into the working copy: not a candidate level at the current position, not 0", "discrete:candidate")
                return [("other", "U", pending, exhausted, top)]
            # other mutation of the working copy
            for e in [getattr(st, "value", None)]:
                if e is not None and any(p == new for p, m, c in mutating_calls(e)):
                    return [("other", "U", pending, exhausted, top)]
            return [s]
        if n.kind == "return":
            n_ret[0] += 1
            e = n.expr
            ce = canon(e) if e is not None else "None"
            from_copy = ce == f"{new}[{station}]"
            zero_lit = isinstance(e, ast.Constant) and e.value == 0 and not isinstance(e.value, bool)
            same_as_cand = e is not None and is_cand(e) and pending == 0
            if zero_lit:
                if not exhausted and val != "zero":
                    flag("max", n.stmt, "returns 0 while candidate levels remain untried", "discrete:fallback")
            elif from_copy or same_as_cand:
                if val == "zero" and from_copy:
                    pass
                elif val == "cand" and chk == "F":
                    pass
                elif val == "cand":
                    flag("safe", n.stmt, f"a candidate level is returned that was {'found infeasible' if chk == 'I' else 'never checked for feasibility'} on some path "
                         "(e.g. the lowest level is handed out when nothing fits)", "discrete:return")
                elif val == "init":
                    flag("max", n.stmt, "the starting value of the schedule can be returned without any candidate having been tried", "discrete:return")
                else:
                    flag("safe", n.stmt, "the value returned is not a checked candidate level or the fallback 0", "discrete:return")
            else:
                flag("safe", n.stmt, f"the discrete search returns `{ce[:60]}`: only the candidate just found feasible (or 0) may be returned", "discrete:return")
            return []
        return [s]

    _forward(cfg, ("init", "U", 0, False, False), transfer)
    if n_ret[0] < 1 or n_store[0] < 1:
        raise AnalysisError("discrete_max_feasible_rate: no return / candidate store reached by the analysis")
    kinds_ok = {"safe": "every returned level was written at the station and found feasible on that path, or is the fallback 0",
                "max": "candidates are tried from the largest down, one position at a time, and 0 only after the last one failed"}
    for kind in which:
        bad = [p for p in problems if p[0] == kind]
        if not bad:
            ck.holds(rid_of(kind), df, f"typestate over {len(cfg.nodes)} CFG nodes, {n_store[0]} store transitions, {n_ret[0]} return(s)", kinds_ok[kind])
        for _, node, msg, sink in bad:
            ck.violation(rid_of(kind), df, node, msg, sink=sink)

"""C08 - priority allocation: greedy grants the max feasible rate; round robin stops when blocked (structural part)."""
import ast

from ..core import AnalysisError, dotted, call_name, src, walk_local, const_value
from ..flow import linear, Lin, leaves
from ..rules import anchored_fn, flow_of, calls_in, bind_args, canon as _canon, facts_at, cmp_norm, alts_deep
from ..units import check_units
from ..tables import UNITS
from .c07 import canon, is_feasible_call

EXPLANATION = ("The five sort functions are folded into a table (key expression, direction): FCFS arrival ascending, LCFS arrival "
               "descending, EDF estimated departure ascending, LLF key = estimated_departure - current_time - remaining_amp_periods / "
               "max_pilot_signal(station) ascending and dimensionally periods, LRPT key = remaining_amp_periods / max_pilot_signal "
               "descending; both allocation loops iterate the result of self._sort_fn(active_sessions, interface), contain no "
               "break/continue/early return (every session is served, earlier grants stay in the shared array); the discrete search "
               "starts at the last (largest) candidate and steps down by exactly 1, the continuous search tries ub first and then "
               "bisects [lb, ub] (the feasible-edge invariant is C07's); in round robin a session is taken from the left, its level index "
               "advances by exactly 1 only on the feasible edge, it is re-appended to the right exactly when it advanced, nothing else "
               "ends the while loop, and a session leaves the queue only when its index is at its last level or the next level was "
               "infeasible; the uncontrolled baseline writes [max_pilot_signal(station)] for each active session and nothing else."
               ' Added in round 3: feasibility-oracle rules (shared with C06), one fresh infrastructure description per call (shared with C07), per-station accessor table (shared with C13), the baseline mapping judged on its expanded comprehension.')
EXPLANATION += " Added in rounds 4-5: stateless-view and escape rules (an allocation that trims level ladders in place must not be trimming the network's); lowest-level exhaustion in the typestate of the finite-rate search."
NOT_DECIDED = ("that the granted rate is numerically the largest feasible one within the bisection tolerance (a statement about every "
               "alternative value); behaviour under ties of the priority key")


def xp(fl, node, text):
    """canonical form of the source text `text` expanded at `node` (reference patterns are expanded like the code they are compared with)"""
    return canon(fl.expand(ast.parse(text, mode="eval").body, node))


def sort_call(fl, f):
    rets = [n for n in fl.cfg.nodes if n.kind == "return"]
    if len(rets) != 1:
        raise AnalysisError(f"{f.qual}: expected a single return")
    r = rets[0]
    e = r.expr
    revs = False
    # recognised descending idioms: reverse=True, [::-1], .reverse() before return, reversed(...)
    if isinstance(e, ast.Subscript) and isinstance(e.slice, ast.Slice) and e.slice.step is not None and canon(e.slice.step) == "-1" and e.slice.lower is None and e.slice.upper is None:
        e, revs = e.value, True
    if isinstance(e, ast.Call) and call_name(e) == "list" and e.args and isinstance(e.args[0], ast.Call) and call_name(e.args[0]) == "reversed":
        e, revs = e.args[0].args[0], True
    ex = fl.expand(e, r)
    inplace_rev = False
    if isinstance(e, ast.Name):
        for n, c in calls_in(fl, "reverse"):
            if dotted(c.func.value) == e.id and fl.cfg.dominates(n, r):
                inplace_rev = not inplace_rev
        for n, c in calls_in(fl, "sort"):
            if dotted(c.func.value) == e.id:
                raise AnalysisError(f"{f.qual}: in-place sort idiom not recognised")
    if not (isinstance(ex, ast.Call) and call_name(ex) == "sorted" and ex.args):
        raise AnalysisError(f"{f.qual}: sort idiom not recognised: {src(r.expr)}")
    key = next((k.value for k in ex.keywords if k.arg == "key"), None)
    rev = next((k.value for k in ex.keywords if k.arg == "reverse"), None)
    desc = False
    if rev is not None:
        try:
            desc = bool(const_value(rev))
        except (ValueError, TypeError):
            raise AnalysisError(f"{f.qual}: non-literal reverse=")
    desc = desc ^ revs ^ inplace_rev
    return r, ex, key, desc


def key_expr(repo, f, fl, key, r):
    """(parameter name, body expression of the key function)"""
    if key is None:
        return None, None
    if isinstance(key, ast.Lambda):
        return key.args.args[0].arg, key.body
    if isinstance(key, ast.Call) and call_name(key) == "attrgetter" and key.args and isinstance(key.args[0], ast.Constant):
        return "x", ast.Attribute(value=ast.Name(id="x", ctx=ast.Load()), attr=key.args[0].value, ctx=ast.Load())
    if isinstance(key, ast.Name):
        inner = repo.fn(f"{f.qual}.{key.id}", optional=True)
        if inner is not None:
            il = flow_of(inner)
            rets = [n for n in il.cfg.nodes if n.kind == "return"]
            if len(rets) == 1:
                return inner.params[0], il.expand(rets[0].expr, rets[0])
    raise AnalysisError(f"{f.qual}: key idiom not recognised: {src(key)}")


SORTS = {
    "first_come_first_served": ("arrival", False),
    "last_come_first_served": ("arrival", True),
    "earliest_deadline_first": ("estimated_departure", False),
}


def rule_sorts(ck):
    repo = ck.repo
    for name, (attr, want_desc) in SORTS.items():
        f = repo.fn(name)
        fl = flow_of(f)
        r, ex, key, desc = sort_call(fl, f)
        p, body = key_expr(repo, f, fl, key, r)
        ck.require(canon(ex.args[0]) == f.params[0], "C08.R1", f, ex.args[0], ok="sorts the given sessions", bad="the sort does not range over the given session list", sink=f"{name}:input")
        ok = isinstance(body, ast.Attribute) and body.attr == attr and dotted(body.value) == p
        ck.require(ok, "C08.R1", f, key if key is not None else ex, ok=f"key = {attr}", bad=f"{name} must sort by the session's {attr}; key is `{src(body) if body is not None else None}`", sink=f"{name}:key")
        ck.require(desc == want_desc, "C08.R1", f, ex, ok=f"{'descending' if want_desc else 'ascending'}", bad=f"{name} must sort {'descending' if want_desc else 'ascending'}",
                   sink=f"{name}:direction")
    # least laxity first
    f = repo.fn("least_laxity_first")
    fl = flow_of(f)
    r, ex, key, desc = sort_call(fl, f)
    p, body = key_expr(repo, f, fl, key, r)
    iface = f.params[1]
    ck.require(canon(ex.args[0]) == f.params[0] and not desc, "C08.R1", f, ex, ok="ascending laxity over the given sessions", bad="LLF must sort the given sessions by ascending laxity", sink="llf:direction")
    l = linear(body, norm=canon)
    ratio = f"{iface}.remaining_amp_periods({p}) / {iface}.max_pilot_signal({p}.station_id)"
    want = Lin({f"{p}.estimated_departure": 1, f"{iface}.current_time": -1, ratio: -1})
    ck.require(l == want, "C08.R1", f, body, ok="laxity = estimated_departure - current_time - remaining_amp_periods / max_pilot",
               bad=f"laxity is `{src(body, 100)}`; it must be estimated_departure - current_time - remaining_amp_periods(ev)/max_pilot_signal(ev.station_id)", sink="llf:key")
    check_units(ck, "C08.R1", repo.fn("least_laxity_first.laxity"), UNITS["least_laxity_first.laxity"])
    # largest remaining processing time
    f = repo.fn("largest_remaining_processing_time")
    fl = flow_of(f)
    r, ex, key, desc = sort_call(fl, f)
    p, body = key_expr(repo, f, fl, key, r)
    iface = f.params[1]
    ck.require(canon(ex.args[0]) == f.params[0] and desc, "C08.R1", f, ex, ok="descending remaining processing time", bad="LRPT must sort the given sessions descending", sink="lrpt:direction")
    ratio = f"{iface}.remaining_amp_periods({p}) / {iface}.max_pilot_signal({p}.station_id)"
    ck.require(linear(body, norm=canon) == Lin({ratio: 1}), "C08.R1", f, body, ok="key = remaining_amp_periods / max_pilot",
               bad=f"the LRPT key is `{src(body, 100)}`; it must be remaining_amp_periods(ev) / max_pilot_signal(ev.station_id) (amp-periods, not kWh: voltages differ)", sink="lrpt:key")
    inner = repo.fn("largest_remaining_processing_time.remaining_processing_time", optional=True)
    if inner is not None:         # the key written as a lambda is decided by the exact form above
        check_units(ck, "C08.R1", inner, UNITS["largest_remaining_processing_time.remaining_processing_time"])
    elif not isinstance(key, ast.Lambda):
        raise AnalysisError("largest_remaining_processing_time: key function not found")


def rule_queue_order(ck):
    repo = ck.repo
    for q, kind in (("SortedSchedulingAlgo.sorting_algorithm", "greedy"), ("RoundRobin.round_robin", "rr")):
        f = anchored_fn(repo, q, ("schedule", "queue"), loops_over=("queue",) if kind == "greedy" else None)
        fl = flow_of(f)
        cfg = fl.cfg
        sess = f.params[1]
        want = f"self._sort_fn({sess}, self.interface)"
        def allocates(lp):
            reg = cfg.loop_region(lp)
            return any(n.kind == "stmt" and isinstance(n.stmt, (ast.Assign, ast.AugAssign)) and any(
                isinstance(t, ast.Subscript) and dotted(t.value) in ("schedule", "allowable_pilots", "rate_idx")
                for t in (n.stmt.targets if isinstance(n.stmt, ast.Assign) else [n.stmt.target])) for n in reg)
        loops = [n for n in cfg.nodes if n.kind == "for" and allocates(n)]
        ck.floor("C08.R2", len(loops), 1 if kind == "rr" else 2, f"session loops in {q}")
        for lp in loops:
            itx = fl.expand(lp.stmt.iter, lp)
            it = _canon(itx)
            ok = it in (want, f"deque({want})")
            if not ok:
                # a list derived element by element from the sorted queue (same order, nothing dropped) is the queue with extra data
                from ..flow import _strip_seq
                e_ = _strip_seq(itx)
                if isinstance(e_, (ast.ListComp, ast.GeneratorExp)) and len(e_.generators) == 1 and not e_.generators[0].ifs and \
                        _canon(_strip_seq(e_.generators[0].iter)) in (want, f"deque({want})"):
                    ok = True
            if not ok and isinstance(itx, ast.Call) and call_name(itx) == "zip" and itx.args:
                # zip(queue, <lists built element by element from the same queue>): walks the queue in its order
                from ..flow import _strip_seq

                def from_queue(a_):
                    a_ = _strip_seq(a_)
                    if _canon(a_) in (want, f"deque({want})"):
                        return True
                    return isinstance(a_, (ast.ListComp, ast.GeneratorExp)) and len(a_.generators) == 1 and not a_.generators[0].ifs and \
                        _canon(_strip_seq(a_.generators[0].iter)) in (want, f"deque({want})")
                ok = _canon(_strip_seq(itx.args[0])) in (want, f"deque({want})") and all(from_queue(a_) for a_ in itx.args[1:])
            ck.require(ok, "C08.R2", f, lp.stmt.iter, ok="iterates the sorted queue", bad=f"the loop iterates `{it[:80]}`, not the queue returned by the sort function: priority order is ignored",
                       sink=f"{kind}:iter")
            body = cfg.loop_region(lp)
            esc = [n for n in body if n.kind in ("break", "continue", "return")]
            ck.require(not esc, "C08.R2", f, esc[0].stmt if esc else lp.stmt.iter, ok="every session of the queue is served (no break/continue/return)",
                       bad=f"`{src(esc[0].stmt, 40) if esc else ''}` inside the allocation loop: lower-priority sessions can be skipped although capacity remains", sink=f"{kind}:loop-escape")
        # the schedule array is created once (not reset between iterations)
        inits = [n for n in cfg.nodes if n.kind == "stmt" and isinstance(n.stmt, (ast.Assign, ast.AnnAssign)) and
                 any(dotted(t) == "schedule" for t in (n.stmt.targets if isinstance(n.stmt, ast.Assign) else [n.stmt.target]))]
        ok = len(inits) == 1 and not [t for t, lab in cfg.edges_dominating(inits[0]) if t.kind in ("for",) or isinstance(t.stmt, ast.While)]
        ck.require(ok, "C08.R2", f, inits[0].stmt if inits else "schedule", ok="one shared schedule array: earlier grants stay fixed", bad="the schedule array is re-created inside a loop: earlier grants are lost",
                   sink=f"{kind}:shared-array")
        if kind == "rr":
            dq = [n for n in cfg.nodes if n.kind == "stmt" and isinstance(n.stmt, ast.Assign) and any(dotted(t) == "queue" for t in n.stmt.targets)]
            ck.require(len(dq) == 1 and _canon(fl.expand(dq[0].stmt.value, dq[0])) == f"deque({want})", "C08.R2", f, dq[0].stmt if dq else "queue = deque(sorted)",
                       ok="round-robin queue starts in priority order", bad="the round-robin deque is not built from the sorted sessions", sink="rr:queue-init")


def rule_search_direction(ck):
    repo = ck.repo
    df = repo.fn("SortedSchedulingAlgo.discrete_max_feasible_rate")
    fl = flow_of(df)
    cfg = fl.cfg
    levels = df.params[1]
    # largest level first, one position at a time, 0 only after the last candidate failed, and what is returned was found feasible
    from .discrete import rule_discrete_search
    rule_discrete_search(ck, rid_safe="C08.R3", rid_max="C08.R3", which=("safe", "max"))
    # the candidates passed by the caller are ascending: allowable levels are stored sorted (C13-R5) and filtered in order
    sa = anchored_fn(repo, "SortedSchedulingAlgo.sorting_algorithm", ("schedule", "queue"), loops_over=("queue",))
    sl = flow_of(sa)
    for n, c in calls_in(sl, "discrete_max_feasible_rate"):
        b = bind_args(c, df, method=False)
        ex = sl.expand(b[levels], n)
        ok = isinstance(ex, ast.ListComp) and len(ex.generators) == 1 and dotted(ex.elt) == dotted(ex.generators[0].target)
        ck.require(ok, "C08.R3", sa, c, ok="candidates keep the EVSE's ascending order (filter only)", bad="the candidate list is re-ordered or transformed before the search", sink="discrete:order-kept")
    # continuous: ub first, then bisection over [lb, ub]
    mf = anchored_fn(repo, "SortedSchedulingAlgo.max_feasible_rate", (), nested=True)
    ml = flow_of(mf)
    # the working copy of the schedule the candidate rate is written into, whatever it is called
    if not [nm for nd in ml.cfg.nodes for nm, how in ml._defs.get(nd, {}).items() if how[0] == "assign" and how[1] is not None
            and canon(how[1]) in ("copy(schedule)", "schedule.copy()", "np.copy(schedule)", "np.array(schedule)", "deepcopy(schedule)")]:
        raise AnalysisError("SortedSchedulingAlgo.max_feasible_rate was restructured: no working copy of the schedule (copy(schedule)) the candidate rate is written into")
    rets = [n for n in ml.cfg.nodes if n.kind == "return"]
    ubr = [n for n in rets if canon(n.expr) == "ub"]
    bis = [n for n in rets if isinstance(n.expr, ast.Call) and call_name(n.expr) == "bisection"]
    ck.require(len(ubr) == 1 and len(bis) == 1, "C08.R3", mf, "ub first, else bisection", ok="tries ub, otherwise bisects", bad=f"{len(ubr)} `return ub` and {len(bis)} bisection returns",
               sink="continuous:shape")
    if ubr and bis:
        from .c07 import facts_through_temps
        ck.require(any(is_feasible_call(a) and not t for a, t in facts_through_temps(ml, bis[0])), "C08.R3", mf, bis[0].stmt, ok="bisection only when ub itself is infeasible",
                   bad="the bisection is not on the infeasible edge of the ub check (the full bound would never be granted)", sink="continuous:bisect-edge")
    from .c07 import bisection_roles
    bi, bl, lo, hi = bisection_roles(repo)
    stops = [n for n in bl.cfg.nodes if n.kind == "return" and canon(n.expr) == lo]
    ok = False
    for n in stops:
        for a, t in facts_at(bl, n):
            c = cmp_norm(bl.expand(a, n), t)
            if c and c[1] in ("<=", "<") and linear(c[0], norm=canon) - linear(c[2], norm=canon) == Lin({hi: 1, lo: -1, "eps": -1}):
                ok = True
    ck.require(ok, "C08.R3", bi, stops[0].stmt if stops else "return _lb", ok="stops when the interval is no wider than eps", bad="the bisection does not stop on `_ub - _lb <= eps`",
               sink="continuous:stop")
    for n, c in calls_in(flow_of(anchored_fn(repo, "SortedSchedulingAlgo.sorting_algorithm", ("schedule", "queue"), loops_over=("queue",))), "max_feasible_rate"):
        eps = next((k.value for k in c.keywords if k.arg == "eps"), None)
        try:
            v = const_value(eps) if eps is not None else const_value(mf.defaults()["eps"])
        except (ValueError, TypeError, KeyError):
            v = None
        ck.require(v is not None and 0 < v <= 0.01, "C08.R3", mf, c, ok=f"bisection tolerance {v} A", bad=f"bisection tolerance {v} is not in (0, 0.01]", sink="continuous:eps")


def rule_round_robin(ck):
    repo = ck.repo
    f = anchored_fn(repo, "RoundRobin.round_robin", ("schedule", "queue", "rate_idx", "allowable_pilots"))
    fl = flow_of(f)
    cfg = fl.cfg
    wh = [n for n in cfg.nodes if n.kind == "test" and isinstance(n.stmt, ast.While)]
    if len(wh) != 1:
        raise AnalysisError("round_robin: expected one while loop")
    w = wh[0]
    c = cmp_norm(w.expr)
    ok = (c and c[1] == "<" and canon(c[0]) == "0" and canon(c[2]) == "len(queue)") or canon(w.expr) == "queue" or \
        (c and c[1] == "!=" and {canon(c[0]), canon(c[2])} == {"0", "len(queue)"})
    ck.require(bool(ok), "C08.R4", f, w.expr, ok="runs until the queue is empty", bad="the round-robin loop does not run until the queue is empty", sink="rr:while")
    body = cfg.loop_region(w)
    esc = [n for n in body if n.kind in ("break", "return")]
    ck.require(not esc, "C08.R4", f, esc[0].stmt if esc else w.expr, ok="only an empty queue ends the loop", bad=f"`{src(esc[0].stmt, 40) if esc else ''}` ends the whole round robin when one session is blocked: "
               f"the other sessions stop being raised", sink="rr:loop-escape")
    pops = [(n, c_) for n, c_ in calls_in(fl) if n in body and call_name(c_) in ("popleft", "pop") and dotted(c_.func.value) == "queue"]
    ck.require(len(pops) == 1 and call_name(pops[0][1]) == "popleft" and all(cfg.dominates(pops[0][0], n) for n in body if n.kind in ("stmt",) and n is not pops[0][0]),
               "C08.R4", f, pops[0][1] if pops else "queue.popleft()", ok="takes the session at the head (left) first", bad="sessions are not taken from the left end of the queue once per round", sink="rr:popleft")
    apps = [(n, c_) for n, c_ in calls_in(fl) if n in body and call_name(c_) in ("append", "appendleft", "insert", "extend") and dotted(c_.func.value) == "queue"]
    ck.require(len(apps) == 1 and call_name(apps[0][1]) == "append" and apps[0][1].args and canon(apps[0][1].args[0]) == canon(fl.expand(ast.Name(id="session", ctx=ast.Load()), apps[0][0])) or
               (len(apps) == 1 and call_name(apps[0][1]) == "append" and dotted(apps[0][1].args[0]) == "session"),
               "C08.R4", f, apps[0][1] if apps else "queue.append(session)", ok="re-queued at the tail (right)", bad="the raised session is not re-appended at the right end (round-robin fairness / priority order)", sink="rr:append")
    # what one iteration does to the level index, the schedule slot and the queue, on every path through the loop body (sa/props/rrstate.py):
    # raised by exactly one level after the oracle accepted exactly that schedule and re-queued / left and dropped after a refusal / dropped
    # at the last level - however the tentative store, the revert or a probe on a copy are written
    from .rrstate import check_iteration
    sess_defs = [n for n in body if n.kind == "stmt" and isinstance(n.stmt, ast.Assign) and isinstance(n.stmt.value, ast.Call) and call_name(n.stmt.value) == "popleft"
                 and isinstance(n.stmt.targets[0], ast.Name)]
    ivars = [n for n in body if n.kind == "stmt" and isinstance(n.stmt, ast.Assign) and isinstance(n.stmt.targets[0], ast.Name)
             and isinstance(n.stmt.value, ast.Call) and call_name(n.stmt.value) == "get_station_index"]
    if len(sess_defs) != 1 or len(ivars) != 1:
        raise AnalysisError("round_robin: the dequeued session / its station index are not bound once in the loop body")
    names = {"out": "schedule", "idx": "rate_idx", "ladders": "allowable_pilots", "queue": "queue", "session": sess_defs[0].stmt.targets[0].id,
             "ivar": ivars[0].stmt.targets[0].id}
    n_paths = check_iteration(ck, "C08.R4", f, fl, w, names)
    ck.count("paths through one round-robin iteration interpreted", n_paths)
    i_defs = ivars
    ck.require(len(i_defs) == 1 and canon(fl.expand(i_defs[0].stmt.value, i_defs[0])) == "infrastructure.get_station_index(session.station_id)", "C08.R4", f,
               i_defs[0].stmt if i_defs else "i = ...", ok="works on the dequeued session's own station", bad="the station index is not that of the dequeued session", sink="rr:station")


def rule_uncontrolled(ck):
    repo = ck.repo
    f = repo.fn("UncontrolledCharging.schedule")
    fl = flow_of(f)
    cfg = fl.cfg
    sess = f.params[1]
    # the returned mapping, def-use expanded: a dict filled in a loop over the active sessions expands to the comprehension it computes
    rets = [n for n in cfg.nodes if n.kind == "return"]
    ck.require(len(rets) >= 1, "C08.R5", f, "return schedule", bad="the baseline returns nothing", sink="uncontrolled:return")
    for r in rets:
        e = fl.expand(r.expr, r) if r.expr is not None else None
        if not isinstance(e, ast.DictComp):
            raise AnalysisError(f"UncontrolledCharging.schedule: construction of the returned mapping not recognised: {src(r.stmt)}")
        g = e.generators[0] if len(e.generators) == 1 else None
        ok = g is not None and canon(g.iter) == sess and not g.ifs and isinstance(g.target, ast.Name)
        ck.require(ok, "C08.R5", f, r.stmt, ok="one entry per active session, unconditionally, nothing for other stations",
                   bad="the baseline does not give exactly every active session an entry", sink="uncontrolled:all")
        if not ok:
            continue
        v_ = g.target.id
        key, v = canon(e.key), e.value
        ok = key == f"{v_}.station_id" and isinstance(v, ast.List) and len(v.elts) == 1 and canon(v.elts[0]) == f"self.interface.max_pilot_signal({v_}.station_id)"
        ck.require(ok, "C08.R5", f, r.stmt, ok="station -> [its maximum pilot]", bad=f"the baseline stores `{canon(v)[:60]}` under `{key}`; it must be [max_pilot_signal(station)] under the session's station",
                   sink="uncontrolled:value")
    init = repo.fn("UncontrolledCharging.__init__")
    il = flow_of(init)
    mr = [n for n in il.cfg.nodes if n.kind == "stmt" and isinstance(n.stmt, ast.Assign) and any(dotted(t) == "self.max_recompute" for t in n.stmt.targets)]
    ck.require(bool(mr) and all(canon(n.stmt.value) == "1" for n in mr), "C08.R5", init, mr[0].stmt if mr else "self.max_recompute = 1", ok="recomputed every period (one-period schedules)",
               bad="the one-period baseline schedule is not recomputed every period", sink="uncontrolled:recompute")


def run(ck):
    ck.attempt(rule_sorts)
    ck.attempt(rule_queue_order)
    ck.attempt(rule_search_direction)
    ck.attempt(rule_round_robin)
    ck.attempt(rule_uncontrolled)
    # the per-station facts a scheduler asks for (maximum / minimum pilot, allowable levels, voltage, phase) are those of the station
    # it names (shared with C13)
    from .c13 import rule_accessors
    ck.attempt(rule_accessors, rid="C08.R8")
    # "the largest pilot that is feasible": the feasibility oracle the searches consult lets a constraint row pass only on its mode's
    # own comparison and answers True only after every row (rules of the algorithm-side checker, shared with C06 / C07)
    from .c06 import rule_utils, rule_row_acceptance
    ck.attempt(rule_utils)
    ck.attempt(rule_row_acceptance, rid="C08.R6")
    # every call allocates on a fresh description of the infrastructure obtained from the interface (no state carried from an
    # earlier call: trimmed level ladders, stale limits) and on the preprocessed sessions (shared with C07)
    from .c07 import rule_pipeline
    ck.attempt(rule_pipeline, rid="C08.R7")
    # "feasible given the pilots already granted": the description the allocation works on is the network's present one (no memo on the
    # interface) and is the caller's own copy - an allocation that trims level ladders in place must not be trimming the network's
    from .c05 import rule_stateless_view, rule_escape
    ck.attempt(rule_stateless_view, rid="C08.R9")
    ck.attempt(rule_escape, rid="C08.R9")
    # "each receives the largest pilot that is feasible": the preprocessing that decides which sessions are served at all converts
    # energy, current and time exactly (unit rules of C07)
    from .c07 import rule_units
    ck.attempt(rule_units, rid="C08.R10")
    # "the largest pilot that is feasible": the oracle the searches ask applies the same default tolerances as the network that judges the
    # result (sibling-defaults rule of C06; reports under its C06 ids)
    from .c06 import rule_defaults
    ck.attempt(rule_defaults)



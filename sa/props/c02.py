"""C02 - energy ledger: recorded rates, EV energy and battery charge agree (structural part)."""
import ast

from ..core import AnalysisError, dotted, call_name, src, walk_local
from ..flow import leaves, linear, Lin, edge_facts
from ..rules import (inline_helpers, flow_of, state_writes, facts_at, calls_in, bind_args, canon, lin, is_lin, cmp_norm, collect_list,
                     who_writes, who_calls, elem_symbols)
from ..units import check_units
from ..tables import UNITS

EXPLANATION = ("One ledger, decided structurally: (R1) dimension-and-scale inference over EV.charge and the three battery "
               "routines (energy increments are kWh, stored power kW, returned rate A); (R2) in EV.charge the energy "
               "increment, the stored rate and the return value are all the result of the one battery.charge(pilot, voltage, "
               "period) call, and in each battery routine the stored charge, stored power and returned rate share one "
               "definition of the granted power; (R3) package-wide who-writes of _energy_delivered, _current_charge, "
               "charging_rates, peak; (R4) who-calls chain charge <- set_pilot <- update_pilots <- run/step; (R5) argument "
               "binding of update_pilots -> set_pilot with the same station index for pilot, voltage and EVSE; (R6) "
               "current_charging_rates has one element per EVSE, the connected EV's rate under a None-guard and literal 0 "
               "otherwise; (R7) both recording writes store that vector at column exactly = period counter, the aggregate "
               "is a sum of it and peak = max(previous peak, aggregate)."
               ' Added in round 3: aggregate power / current as defined (shared with C18), the ledger starts at zero, the loop-structure rules of C01 incl. array growth; generic well-formedness of every analysed function.'
               ' Added after the mutation matrix: the stored gain, the reported power and the returned rate carry the same energy as identities between source expressions (term rewriting) for all three battery routines; generic rules G1-G3.')
EXPLANATION += " Added in rounds 4-5: when the measured rates are kept in an attribute, every caller of the EVSE-level unplug() clears the station's slot on the same path (cache coherence); generic rules G4 / G5."
NOT_DECIDED = "float equality of the three stored totals over a run"

ALLOWED_WRITERS = {
    "_energy_delivered": {"EV.__init__", "EV.charge", "EV.reset", "EV._from_dict"},
    "_current_charge": {"Battery.__init__", "Battery.charge", "Battery.reset", "Battery._from_dict_helper",
                        "Linear2StageBattery._charge", "Linear2StageBattery._charge_stepwise"},
    "_current_charging_rate": {"EV.__init__", "EV.charge", "EV._from_dict"},
    "charging_rates": {"Simulator.__init__", "Simulator.run", "Simulator.step", "Simulator._store_actual_charging_rates",
                       "Simulator._from_dict"},
    "peak": {"Simulator.__init__", "Simulator._store_actual_charging_rates", "Simulator._from_dict"},
}


def rule_units(ck, rid="C02.R1"):
    repo = ck.repo
    for q in ("EV.charge", "Battery.charge", "Linear2StageBattery._charge", "Linear2StageBattery._charge_stepwise"):
        check_units(ck, rid, repo.fn(q), UNITS[q])


def _store_value(n):
    s = n.stmt
    if isinstance(s, ast.AugAssign):
        return ast.BinOp(left=s.target, op=s.op, right=s.value)
    return s.value


def rule_same_value(ck, rid="C02.R2"):
    repo = ck.repo
    ev = repo.fn("EV.charge")
    fl = flow_of(ev)
    pilot, voltage, period = ev.params[1:4]
    bat = [(n, c) for n, c in calls_in(fl, "charge") if canon(c.func.value) == "self._battery"]
    ck.require(len(bat) == 1, rid, ev, bat[0][1] if bat else "self._battery.charge(...)", bad=f"{len(bat)} battery.charge calls in EV.charge", sink="battery-call-count")
    if len(bat) != 1:
        return
    bn, bc = bat[0]
    b = bind_args(bc, repo.fn("Battery.charge"))
    ok = all(k in b and canon(fl.expand(b[k], bn)) == v for k, v in (("pilot", pilot), ("voltage", voltage), ("period", period)))
    ck.require(ok, rid, ev, bc, ok="battery.charge(pilot, voltage, period) bound by name", bad="battery.charge must receive (pilot, voltage, period) unchanged",
               sink="battery-binding")
    call_s = canon(bc)
    writes = state_writes(fl)
    inc = [(n, t) for n, k, p, t in writes if p == "self._energy_delivered"]
    rate = [(n, t) for n, k, p, t in writes if p == "self._current_charging_rate"]
    def increment_of(n):
        """the amount added to _energy_delivered by the store at n (x += e, or x = x + e possibly through a temporary), else None"""
        st = n.stmt
        if isinstance(st, ast.AugAssign) and isinstance(st.op, ast.Add):
            return fl.expand(st.value, n)
        if isinstance(st, ast.Assign):
            v = fl.expand(st.value, n)
            if isinstance(v, ast.BinOp) and isinstance(v.op, ast.Add):
                if canon(v.left) == "self._energy_delivered":
                    return v.right
                if canon(v.right) == "self._energy_delivered":
                    return v.left
        return None
    ck.require(len(inc) == 1 and increment_of(inc[0][0]) is not None, rid, ev,
               inc[0][1] if inc else "self._energy_delivered += ...", ok="energy is accumulated once per call",
               bad="EV.charge must add to _energy_delivered exactly once", sink="energy-increment")
    for n, t in inc:
        e = increment_of(n)
        if e is None:
            continue
        holder = "__RATE__"
        rest = canon(e).replace(call_s, holder)
        lv = {x for x in leaves(ast.parse(rest, mode="eval").body)} if holder in rest else set()
        ck.require(holder in rest and lv == {holder, voltage, period}, rid, ev, n.stmt,
                   ok="increment = (rate the battery reports) x voltage x period only",
                   bad=f"the energy increment must be computed from the battery's reported rate, voltage and period (depends on {sorted(leaves(e))})",
                   sink="energy-from-reported-rate")
    for n, t in rate:
        ck.require(canon(fl.expand(n.stmt.value, n)) == call_s, rid, ev, n.stmt, ok="stored rate is the rate the battery reports",
                   bad="_current_charging_rate must be the value returned by battery.charge", sink="rate-from-battery")
    ck.require(len(rate) == 1, rid, ev, "self._current_charging_rate = charge_rate", bad="EV.charge must record the charging rate once", sink="rate-store")
    for r in [n for n in fl.cfg.nodes if n.kind == "return"]:
        ck.require(r.expr is not None and canon(fl.expand(r.expr, r)) == call_s, rid, ev, r.stmt, ok="returned rate is the battery's",
                   bad="EV.charge must return the value returned by battery.charge", sink="return-from-battery")
    # every normal path performs increment + store
    for what, lst in (("energy increment", inc), ("rate store", rate)):
        ck.require(fl.cfg.exit not in fl.cfg.reach(fl.cfg.entry, avoid={n for n, _ in lst}), rid, ev, what, ok=f"{what} on every path",
                   bad=f"a path through EV.charge skips the {what}", sink=f"every-path:{what}")

    # battery routines: charge, power and returned rate share one definition of the granted power
    for q in ("Battery.charge", "Linear2StageBattery._charge", "Linear2StageBattery._charge_stepwise"):
        f = repo.fn(q)
        bfl = flow_of(f, track_self=True)
        p_ = f.params[1]
        w = state_writes(bfl)
        ch = [(n, t) for n, k, pth, t in w if pth == "self._current_charge"]
        pw = [(n, t) for n, k, pth, t in w if pth == "self._current_charging_power"]
        rets = [n for n in bfl.cfg.nodes if n.kind == "return" and n.expr is not None and not (isinstance(n.expr, ast.Constant))]
        ck.require(bool(ch) and bool(pw) and bool(rets), rid, f, q, bad="battery routine must update charge, power and return a rate", sink="sinks-exist")
        if not (ch and pw and rets):
            continue
        common = None
        for n, t in ch:
            d = bfl.used_defs(_store_value(n), n)
            common = d if common is None else (common & d)
        for n, t in pw:
            d = bfl.used_defs(_store_value(n), n)
            # the zero-pilot shortcut stores literal 0
            if isinstance(n.stmt, ast.Assign) and isinstance(n.stmt.value, ast.Constant):
                continue
            common &= d
        for r in rets:
            common &= bfl.used_defs(r.expr, r)
        covering = []
        for nm, d in common:
            how = bfl.def_how(d, nm)
            val = how[1] if how[0] in ("assign", "unpack", "iter") else how[2]
            lv = leaves(bfl.expand(val, d))
            if p_ in lv:
                covering.append(nm)
        ck.require(bool(covering), rid, f, rets[0].stmt, ok=f"stored charge, stored power and returned rate all derive from `{sorted(set(covering))[0] if covering else ''}`",
                   bad="stored charge, stored power and the returned rate do not share one definition of the granted power", sink="one-power-definition")


def rule_ledger_start(ck, rid="C02.R3"):
    """a new session has received nothing: EV.__init__ sets the delivered energy and the reported rate to the literal 0 on every path"""
    repo = ck.repo
    init = repo.fn("EV.__init__")
    fl = flow_of(init)
    for attr in ("self._energy_delivered", "self._current_charging_rate"):
        st = [(n, t) for n, k, p, t in state_writes(fl) if p == attr and k == "assign"]
        ok = bool(st) and all(isinstance(n.stmt.value, ast.Constant) and n.stmt.value.value == 0 and not isinstance(n.stmt.value.value, bool) for n, _ in st) \
            and fl.cfg.exit not in fl.cfg.reach(fl.cfg.entry, avoid={n for n, _ in st})
        ck.require(ok, rid, init, st[0][1] if st else f"{attr} = 0", ok=f"{attr.split('.')[1]} starts at 0",
                   bad=f"a new EV does not start with {attr.split('.')[1]} = 0: the ledger is off from the first period", sink=f"ledger-start:{attr.split('.')[1]}")


def rule_gain_identity(ck, rid="C02.R2"):
    """the charge a battery routine stores and the power / rate it reports describe the same energy, as an *identity* between source
    expressions (term rewriting, sa/cas.py):  new charge - old charge == reported power x period/60  and  returned rate == reported
    power x 1000 / voltage.  The post-charge quantity the routine computed (final SoC / granted power) is kept symbolic."""
    from .. import cas
    repo = ck.repo
    S = cas.sp()
    T, V, C, q0, X = S.symbols("T V C q0 X", positive=True)
    n_id = 0
    for q in ("Battery.charge", "Linear2StageBattery._charge", "Linear2StageBattery._charge_stepwise"):
        f = repo.fn(q)
        fl = flow_of(f)
        pilot, voltage, period = f.params[1:4]
        w = state_writes(fl)
        ch = [n for n, k, p, t in w if p == "self._current_charge"]
        pw = [n for n, k, p, t in w if p == "self._current_charging_power" and not (isinstance(n.stmt, ast.Assign) and isinstance(n.stmt.value, ast.Constant))]
        rets = [n for n in fl.cfg.nodes if n.kind == "return" and n.expr is not None and not isinstance(n.expr, ast.Constant)]
        if not (ch and pw and rets):
            continue
        # locals that have several reaching definitions at the stores (the post-charge quantity computed piecewise) stay symbolic;
        # everything with a single definition is expanded
        multi = set()
        for n in ch + pw + rets:
            v_ = n.stmt.value if n.kind == "stmt" else n.expr
            seen_defs = {}
            for nm, d in fl.used_defs(v_, n):
                seen_defs.setdefault(nm, set()).add(d)
            for x in ast.walk(v_):
                if isinstance(x, ast.Name) and len(fl.defs_at(n, x.id)) > 1:
                    multi.add(x.id)
            multi |= {nm for nm, ds in seen_defs.items() if len(ds) > 1}
        cand = sorted(multi)[0] if multi else "__no_local__"
        if len(multi) > 1:
            # keep the one the stored charge is computed from
            for n in ch:
                names = [x.id for x in ast.walk(n.stmt.value) if isinstance(x, ast.Name) and x.id in multi]
                if names:
                    cand = names[0]
        env = {cand: X, period: T, voltage: V, "self._capacity": C, "self._current_charge": q0, "self._soc": q0 / C, "self.soc": q0 / C}
        fl.keep = {cand}
        # a clamp (min / max of several bounds) is one opaque positive quantity for this identity: the same symbol wherever it occurs
        opaque = {}
        for n_ in fl.cfg.nodes:
            for e_ in fl.cfg.node_exprs(n_):
                for c_ in [x for x in ast.walk(fl.expand(e_, n_) if not isinstance(e_, ast.stmt) else e_) if isinstance(x, ast.Call) and call_name(x) in
                           ("min", "max", "minimum", "maximum", "clip")]:
                    k_ = canon(c_) if isinstance(e_, ast.stmt) else canon(c_)
                    opaque.setdefault(k_, S.Symbol(f"m{len(opaque)}", positive=True))
        for n_ in ch + pw + rets:
            v_ = n_.stmt.value if n_.kind == "stmt" else n_.expr
            for c_ in [x for x in ast.walk(fl.expand(v_, n_)) if isinstance(x, ast.Call) and call_name(x) in ("min", "max", "minimum", "maximum", "clip")]:
                opaque.setdefault(canon(c_), S.Symbol(f"m{len(opaque)}", positive=True))
        env.update(opaque)
        try:
            for n in ch:
                st = n.stmt
                new = fl.expand(st.value, n)
                gain = cas.to_sympy(new, env) - q0 if isinstance(st, ast.Assign) else cas.to_sympy(new, env)
                for pn in pw:
                    env2 = dict(env)
                    P_ = cas.to_sympy(fl.expand(pn.stmt.value, pn), env2)
                    z = cas.is_zero(gain - P_ * T / 60)
                    n_id += 1
                    if z is None:
                        raise AnalysisError(f"{q}: energy identity not decided by the algebra system")
                    ck.require(z, rid, f, pn.stmt, ok="stored gain == reported power x period/60 (identity)",
                               bad=f"the charge gained (`{src(st, 50)}`) is not the reported power x period/60 (`{src(pn.stmt, 60)}`): battery charge and delivered energy drift apart",
                               sink=f"{q}:gain-vs-power")
                for r in rets:
                    env3 = dict(env)
                    env3["self._current_charging_power"] = cas.to_sympy(fl.expand(pw[-1].stmt.value, pw[-1]), env)
                    R_ = cas.to_sympy(fl.expand(r.expr, r), env3)
                    z = cas.is_zero(R_ * V / 1000 * T / 60 - gain)
                    n_id += 1
                    if z is None:
                        raise AnalysisError(f"{q}: rate identity not decided by the algebra system")
                    ck.require(z, rid, f, r.stmt, ok="returned rate x voltage x period == stored gain (identity)",
                               bad=f"the returned rate `{src(r.expr, 50)}` does not carry the energy that was stored", sink=f"{q}:gain-vs-rate")
        finally:
            fl.keep = set()
    ck.floor(rid, n_id, 6, "energy identities of the battery routines")


def rule_single_writers(ck, rid="C02.R3"):
    repo = ck.repo
    n = 0
    for attr, allowed in ALLOWED_WRITERS.items():
        for f, kind, path, node in who_writes(repo, attr):
            n += 1
            ck.require(f.qual in allowed, rid, f, node, ok=f"{attr} written by its owner", bad=f"`{path}` is written in {f.qual}, outside the ledger's owners {sorted(allowed)}",
                       sink=f"writer:{attr}:{f.qual}")
    ck.floor(rid, n, 15, "writer sites of the ledger attributes")


def rule_call_chain(ck, rid="C02.R4"):
    repo = ck.repo
    allowed = {"charge": {"BaseEVSE.set_pilot", "EV.charge", "Linear2StageBattery.charge"},
               "set_pilot": {"ChargingNetwork.update_pilots"},
               "update_pilots": {"Simulator.run", "Simulator.step"}}
    n = 0
    for name, ok in allowed.items():
        for f, c in who_calls(repo, name):
            n += 1
            q = f.qual if f else "<module>"
            ck.require(q in ok, rid, f or "module", c, ok=f"{name} called from {q}", bad=f"{name}() is also called from {q}: an EV could be charged more than once per period",
                       sink=f"caller:{name}:{q}")
    ck.floor(rid, n, 4, "call sites of charge/set_pilot/update_pilots")
    # Linear2StageBattery.charge dispatches to exactly one of its two routines
    f = repo.fn("Linear2StageBattery.charge")
    fl = flow_of(f)
    for r in [x for x in fl.cfg.nodes if x.kind == "return"]:
        cs = [c for c in ast.walk(r.expr) if isinstance(c, ast.Call) and call_name(c) in ("_charge", "_charge_stepwise")]
        ck.require(len(cs) == 1 and [canon(a) for a in cs[0].args] == f.params[1:4], rid, f, r.stmt, ok="delegates once with (pilot, voltage, period)",
                   bad="Linear2StageBattery.charge must delegate once with unchanged arguments", sink="dispatch")



def rule_connected_charged(ck, rid="C02.R10"):
    """every accepted pilot reaches the connected EV: in BaseEVSE.set_pilot the only way to finish normally without calling
    self._ev.charge(pilot, voltage, period) is through an edge on which no EV is connected.  (A pilot of 0 is a pilot: the EV's
    reported rate must become what its battery returns for it, otherwise the previous period's rate is recorded again.)"""
    repo = ck.repo
    n = 0
    for ci in [repo.cls("BaseEVSE")] + list(repo.subclasses("BaseEVSE")):
        f = ci.methods.get("set_pilot")
        if f is None or "/tests/" in f.module:
            continue
        fl = flow_of(inline_helpers(repo, f))
        cfg = fl.cfg
        calls = [(nd, c) for nd, c in calls_in(fl, "charge") if isinstance(c.func, ast.Attribute) and canon(fl.expand(c.func.value, nd)) in ("self._ev", "self.ev")]
        if not calls:
            if ci.name == "BaseEVSE":
                ck.violation(rid, f, f.node, "set_pilot never charges the connected EV", sink="set_pilot:no-charge")
            continue
        n += 1
        for nd, c in calls:
            b = bind_args(c, repo.fn("EV.charge"), method=True)
            ok = [canon(fl.expand(b.get(p, ast.Constant(None)), nd)) for p in ("pilot", "voltage", "period")] == f.params[1:4]
            ck.require(ok, rid, f, c, ok="the EV is charged with the pilot, voltage and period that were set", bad="EV.charge is not called with (pilot, voltage, period) unchanged",
                       sink="set_pilot:charge-args")
        no_ev = set()
        for e in cfg.nodes:
            if e.kind == "edge" and e.test.kind == "test":
                for a, t in edge_facts(e.test.expr, e.label):
                    cn = cmp_norm(fl.expand(a, e.test), t)
                    if cn and canon(cn[0]) in ("self._ev", "self.ev") and canon(cn[2]) == "None" and cn[1] in ("is", "=="):
                        no_ev.add(e)
        skip = cfg.exit in cfg.reach(cfg.entry, avoid={nd for nd, c in calls} | no_ev | {cfg.raise_exit})
        ck.require(not skip, rid, f, calls[0][1], ok="every accepted pilot is passed on to the connected EV",
                   bad=f"{f.qual} can finish normally with an EV connected and without calling its charge(): for that pilot the EV keeps reporting the rate of an "
                       "earlier period, which is then recorded again", sink="set_pilot:skips-charge", positive=True)
    ck.floor(rid, n, 1, "set_pilot implementations")

def rule_binding(ck, rid="C02.R5"):
    repo = ck.repo
    up = repo.fn("ChargingNetwork.update_pilots")
    fl = flow_of(up)
    period = up.params[3]
    sp = calls_in(fl, "set_pilot")
    if len(sp) != 1:
        ck.violation(rid, up, "set_pilot", f"{len(sp)} set_pilot call sites", sink="set_pilot-count")
        return
    n, c = sp[0]
    b = bind_args(c, repo.fn("BaseEVSE.set_pilot"))
    pv = fl.expand(b["pilot"], n) if "pilot" in b else None
    vv = fl.expand(b["voltage"], n) if "voltage" in b else None
    idx = canon(pv.slice.elts[0]) if isinstance(pv, ast.Subscript) and isinstance(pv.slice, ast.Tuple) else None
    ok = isinstance(vv, ast.Subscript) and canon(vv.value) == "self._voltages" and idx is not None and canon(vv.slice) == idx
    ck.require(ok, rid, up, c, ok="voltage = self._voltages[n] with the same station index n as the pilot row",
               bad=f"the voltage passed must be self._voltages[<same station index as the pilot row>]; got {src(vv) if vv is not None else None}", sink="voltage-index")
    ck.require("period" in b and canon(fl.expand(b["period"], n)) == period, rid, up, c, ok="period forwarded", bad="period must be forwarded unchanged", sink="period-forward")


def rule_vacancy(ck, rid="C02.R6"):
    repo = ck.repo
    f = repo.fn("ChargingNetwork.current_charging_rates")
    fl = flow_of(f)
    rets = [n for n in fl.cfg.nodes if n.kind == "return"]
    if len(rets) != 1:
        raise AnalysisError("current_charging_rates: expected one return")
    r = rets[0]
    # stored-vector form: the network keeps the measured rates in an attribute and hands out (a copy of) it.  "The recorded rate of a
    # station is zero in every period in which no EV is connected" then needs the slot of a station to be cleared wherever a station
    # is vacated: every caller of the EVSE-level unplug() clears the slot on the same path (cache coherence, package-wide)
    e0 = fl.expand(r.expr, r)
    while isinstance(e0, ast.Call) and ((call_name(e0) in ("copy", "tolist") and isinstance(e0.func, ast.Attribute) and not e0.args) or
                                        (call_name(e0) in ("array", "asarray", "list", "copy", "deepcopy") and len(e0.args) == 1)):
        e0 = e0.func.value if (isinstance(e0.func, ast.Attribute) and not e0.args) else e0.args[0]
    d0 = dotted(e0)
    if d0 is not None and d0.startswith("self.") and d0.count(".") == 1:
        attr = d0.split(".")[1]
        from ..rules import who_calls
        sites = 0
        for g, c in who_calls(repo, "unplug"):
            if g is None or "/tests/" in g.module or c.args or c.keywords:
                continue
            if isinstance(c.func, ast.Attribute) and isinstance(c.func.value, ast.Call) and call_name(c.func.value) == "super":
                continue
            sites += 1
            gfl = flow_of(g)
            cnode = next((n for n, cc in calls_in(gfl, "unplug") if cc is c), None)
            clears = [n for n, k, p, t in state_writes(gfl) if p == f"self.{attr}" and k == "subassign" and isinstance(n.stmt, ast.Assign)
                      and isinstance(n.stmt.value, ast.Constant) and n.stmt.value.value == 0]
            ok = cnode is not None and clears and (any(gfl.cfg.dominates(x, cnode) for x in clears) or
                                                  gfl.cfg.exit not in gfl.cfg.reach(cnode, avoid=set(clears) | {gfl.cfg.raise_exit}))
            ck.require(bool(ok), rid, g, c, ok=f"the station's slot of {attr} is cleared where the station is vacated",
                       bad=f"{g.qual} vacates a station (EVSE.unplug()) without clearing its slot in `{attr}`, the stored vector "
                           f"current_charging_rates hands out: the vacant station keeps reporting the departed EV's last rate", sink=f"vacate-clears:{g.qual}")
        ck.floor(rid, sites, 1, "call sites of the EVSE-level unplug()")
        return
    # preallocated form: `rates = np.zeros(<number of EVSEs>)`, then one slot written per connected EVSE.  The slot must be the EVSE's own
    # position: the loop counter of an enumeration of self._EVSEs, or the registered index of the EVSE's / the dictionary key's station id.
    # An index taken from the *EV* (ev.station_id) is what the EV claims, not where it is attached.
    if isinstance(e0, ast.Call) and call_name(e0) in ("zeros", "zeros_like") and isinstance(r.expr, ast.Name):
        vec = r.expr.id
        size = canon(e0.args[0]) if e0.args else ""
        ck.require(size in ("len(self._EVSEs)", "len(self.station_ids)", "len(self._EVSEs.values())", "len(self._EVSEs.keys())", "self._voltages.size", "len(self._voltages)",
                            "self._voltages", "len(self._station_ids_dict)"), rid, f, e0, ok="one slot per registered EVSE, zero until written",
                   bad=f"the preallocated vector has size `{size}`, not one slot per registered EVSE", sink="one-per-evse")
        stores = [n for n in fl.cfg.nodes if n.kind == "stmt" and isinstance(n.stmt, ast.Assign) and len(n.stmt.targets) == 1
                  and isinstance(n.stmt.targets[0], ast.Subscript) and dotted(n.stmt.targets[0].value) == vec]
        others = [n for n, k, p, t in state_writes(fl, roots=(vec,)) if n not in stores]
        if not stores or others:
            raise AnalysisError(f"current_charging_rates: how `{vec}` is filled is not recognised")
        for sn in stores:
            loops = [t for t, lab in fl.cfg.edges_dominating(sn) if t.kind == "for" and lab is True]
            if len(loops) != 1:
                raise AnalysisError(f"current_charging_rates: slot store `{src(sn.stmt)[:60]}` is not inside exactly one loop")
            lp = loops[0].stmt
            it = lp.iter
            counter = evse = key = None
            if isinstance(it, ast.Call) and call_name(it) == "enumerate" and it.args and isinstance(lp.target, ast.Tuple) and len(lp.target.elts) == 2 \
                    and not it.keywords and len(it.args) == 1:
                counter = dotted(lp.target.elts[0])
                inner_t, it = lp.target.elts[1], it.args[0]
            else:
                inner_t = lp.target
            ic = canon(it)
            if ic in ("self._EVSEs.values()",):
                evse = dotted(inner_t)
            elif ic in ("self._EVSEs.items()",) and isinstance(inner_t, ast.Tuple) and len(inner_t.elts) == 2:
                key, evse = dotted(inner_t.elts[0]), dotted(inner_t.elts[1])
            elif ic in ("self._EVSEs", "self._EVSEs.keys()", "self.station_ids"):
                key = dotted(inner_t)
            else:
                raise AnalysisError(f"current_charging_rates: the filling loop does not walk the registered EVSEs: {ic}")
            idx = fl.expand(sn.stmt.targets[0].slice, sn)
            ix = canon(idx)
            own = {counter} if counter else set()
            # the loop variables as the expansion writes them (iteration over the dictionary is rewritten to its key list)
            evse_x = canon(fl.expand(ast.Name(id=evse, ctx=ast.Load()), sn)) if evse else None
            key_x = canon(fl.expand(ast.Name(id=key, ctx=ast.Load()), sn)) if key else None
            for ev_ in [x for x in (evse, evse_x) if x]:
                own |= {f"self._station_ids_dict[{ev_}.station_id]", f"self.station_ids.index({ev_}.station_id)", f"self._station_ids_dict[{ev_}._station_id]"}
            for k_ in [x for x in (key, key_x) if x]:
                own |= {f"self._station_ids_dict[{k_}]", f"self.station_ids.index({k_})"}
            if evse_x and evse_x.startswith("self._EVSEs[") and evse_x.endswith("]"):
                k_ = evse_x[len("self._EVSEs["):-1]          # the EVSE registered under key k_: its own station id is k_
                own |= {f"self._station_ids_dict[{k_}]", f"self.station_ids.index({k_})"}
            val = fl.expand(sn.stmt.value, sn)
            vc = canon(val)
            who = evse_x or evse or (f"self._EVSEs[{key_x or key}]" if key else "?")
            by_ev = any(isinstance(x, ast.Attribute) and x.attr in ("station_id", "_station_id") and canon(x.value) in (f"{who}.ev", f"{who}._ev") for x in ast.walk(idx))
            if by_ev:
                ck.violation(rid, f, sn.stmt, f"the slot is chosen by the *EV's* station id (`{ix[:70]}`), not by the EVSE the EV is attached to: an EV whose "
                             "station id differs from the EVSE it is plugged into has its rate recorded in another station's row", sink="slot-by-ev-id", positive=True)
            elif ix not in own:
                raise AnalysisError(f"current_charging_rates: slot index `{ix[:70]}` not recognised as the EVSE's own position")
            else:
                ck.holds(rid, f, sn.stmt, "each EVSE writes its own slot")
            guard = any((c := cmp_norm(fl.expand(a, sn), t)) and canon(c[0]) in (f"{who}.ev", f"{who}._ev") and canon(c[2]) == "None" and c[1] in ("is not", "!=")
                        for a, t in facts_at(fl, sn))
            ck.require(vc in (f"{who}.ev.current_charging_rate", f"{who}._ev.current_charging_rate", f"{who}.ev._current_charging_rate") and guard, rid, f, sn.stmt,
                       ok="connected: the EV's current charging rate, read under a None-guard",
                       bad="a connected station must report evse.ev.current_charging_rate under an `ev is not None` guard", sink="connected-rate")
        return
    elems = collect_list(fl, r.expr, r)
    if elems is None:
        raise AnalysisError(f"current_charging_rates: construction not recognised: {src(r.expr)}")
    SRC = ("self._EVSEs",)

    def rate_of(e, evse):
        return canon(e) == f"{evse}.ev.current_charging_rate"

    def notnone(test, evse):
        c = cmp_norm(test)
        return c and canon(c[0]) == f"{evse}.ev" and canon(c[2]) == "None" and c[1] in ("is not", "!=")

    def isnone(test, evse):
        c = cmp_norm(test)
        return c and canon(c[0]) == f"{evse}.ev" and canon(c[2]) == "None" and c[1] in ("is", "==")
    if len(elems) == 1 and isinstance(elems[0][0], ast.IfExp):
        elt, it = elems[0]
        ok_it = it is not None and canon(it) in SRC
        syms = elem_symbols(elt)
        evse = next(iter(syms)) if len(syms) == 1 else "?"
        if notnone(elt.test, evse):
            a, z = elt.body, elt.orelse
        elif isnone(elt.test, evse):
            a, z = elt.orelse, elt.body
        else:
            a = z = None
        ck.require(ok_it, rid, f, r.expr, ok="one element per registered EVSE, unfiltered", bad="the vector must have one entry per EVSE in registration order", sink="one-per-evse")
        ck.require(a is not None and rate_of(a, evse), rid, f, elt, ok="connected: the EV's current charging rate, read under a None-guard",
                   bad="a connected station must report evse.ev.current_charging_rate under an `ev is not None` guard", sink="connected-rate")
        ck.require(z is not None and isinstance(z, ast.Constant) and z.value == 0, rid, f, elt, ok="vacant: literal 0",
                   bad="a vacant station must report the literal 0", sink="vacant-zero")
        return
    # loop form: two appends on complementary edges of one `ev is None` test
    zero = [e for e, it in elems if isinstance(e, ast.Constant) and e.value == 0]
    rates = [e for e, it in elems if isinstance(e, ast.Attribute) and e.attr == "current_charging_rate"]
    its = {canon(it.args[0]) if isinstance(it, ast.Call) and call_name(it) == "__filtered__" else canon(it) for e, it in elems if it is not None}
    ok = len(elems) == 2 and len(zero) == 1 and len(rates) == 1 and len(its) == 1 and next(iter(its)) in SRC
    if ok:
        syms = elem_symbols(rates[0])
        evse = next(iter(syms)) if len(syms) == 1 else "?"
        ok = rate_of(rates[0], evse)
        # the two appends must sit on the two edges of one None test of evse.ev
        apps = [(n, c) for n, c in calls_in(fl, "append")]
        tests = []
        for n, c in apps:
            for t, lab in fl.cfg.edges_dominating(n):
                if t.kind == "test":
                    e = fl.expand(t.expr, t)
                    if notnone(e, evse):
                        tests.append((t, lab, isinstance(c.args[0], ast.Constant)))
                    elif isnone(e, evse):
                        tests.append((t, not lab, isinstance(c.args[0], ast.Constant)))
        ok = ok and len(tests) == 2 and tests[0][0] is tests[1][0] and {(x[1], x[2]) for x in tests} == {(True, False), (False, True)}
    ck.require(ok, rid, f, r.expr, ok="loop form: rate under not-None, literal 0 otherwise, one entry per EVSE",
               bad="current_charging_rates must give the connected EV's rate (None-guarded) and literal 0 for vacant stations, one entry per EVSE",
               sink="vacancy-loop-form")


def rule_recording(ck, rid="C02.R7"):
    repo = ck.repo
    f = repo.fn("Simulator._store_actual_charging_rates")
    fl = flow_of(f)
    VEC = "self.network.current_charging_rates"
    stores = [(n, t) for n, k, p, t in state_writes(fl) if p == "self.charging_rates" and k == "subassign"]
    ck.require(len(stores) >= 1, rid, f, "self.charging_rates[:, t] = rates", bad="rates are not recorded", sink="record-exists")
    for n, t in stores:
        sl = t.slice
        ok = isinstance(sl, ast.Tuple) and len(sl.elts) == 2 and isinstance(sl.elts[0], ast.Slice) and sl.elts[0].lower is None and sl.elts[0].upper is None \
            and not isinstance(sl.elts[1], ast.Slice) and is_lin(fl, sl.elts[1], n, {"self._iteration": 1})
        ck.require(ok, rid, f, t, ok="column = exactly the current period, all stations", bad="rates must be stored at charging_rates[:, self._iteration] (offset 0)",
                   sink="record-column")
        vx = fl.expand(n.stmt.value, n)
        changed_ = True
        while changed_:          # copies and transposes of a vector hold the same numbers in the same order
            changed_ = False
            if isinstance(vx, ast.Attribute) and vx.attr == "T":
                vx, changed_ = vx.value, True
            elif isinstance(vx, ast.Call) and call_name(vx) in ("array", "asarray", "copy", "deepcopy", "ravel", "flatten", "transpose", "squeeze", "asanyarray") \
                    and not vx.keywords and ((len(vx.args) == 1 and isinstance(vx.func, ast.Attribute) and dotted(vx.func.value) in ("np", "numpy", "copy"))
                                             or (len(vx.args) == 1 and isinstance(vx.func, ast.Name))
                                             or (not vx.args and isinstance(vx.func, ast.Attribute))):
                vx, changed_ = (vx.args[0] if vx.args else vx.func.value), True
        v = canon(vx)
        ck.require(v in (VEC, VEC + ".T"), rid, f, n.stmt, ok="what is stored is the network's rate vector", bad=f"the stored vector must be network.current_charging_rates; got {v}",
                   sink="record-vector")
    ck.require(fl.cfg.exit not in fl.cfg.reach(fl.cfg.entry, avoid={n for n, _ in stores}), rid, f, "record on every path", ok="recorded on both the fits and the grow branch",
               bad="a path through _store_actual_charging_rates does not record the rates", sink="record-every-path")
    pk = [(n, t) for n, k, p, t in state_writes(fl) if p == "self.peak"]
    ck.require(len(pk) == 1, rid, f, pk[0][1] if pk else "self.peak = max(self.peak, agg)", bad="peak must be updated exactly once", sink="peak-store")
    for n, t in pk:
        e = fl.expand(n.stmt.value, n)
        ok = isinstance(e, ast.Call) and call_name(e) in ("max", "maximum") and len(e.args) == 2
        agg_ok = prev_ok = False
        if ok:
            for a in e.args:
                if canon(a) == "self.peak":
                    prev_ok = True
                elif isinstance(a, ast.Call) and call_name(a) in ("sum", "nansum") and VEC in canon(a) and "axis" not in canon(a):
                    agg_ok = True
        ck.require(ok and prev_ok, rid, f, n.stmt, ok="peak is a running maximum", bad="peak must be max(previous peak, aggregate): the previous peak is dropped", sink="peak-running-max")
        ck.require(ok and agg_ok, rid, f, n.stmt, ok="the aggregate is the sum of the recorded vector", bad="the aggregate compared with the peak must be the *sum* of the recorded rate vector",
                   sink="peak-aggregate-sum")
        ck.require(fl.cfg.exit not in fl.cfg.reach(fl.cfg.entry, avoid={n}), rid, f, n.stmt, ok="peak updated every period", bad="a path skips the peak update", sink="peak-every-path")


def rule_record_before_hook(ck, rid="C02.R7h"):
    """the rates of a period are recorded right after the pilots were applied: nothing that can change which EV is connected
    (the network's post-charging hook, event processing, plug/unplug) runs between update_pilots and the recording."""
    repo = ck.repo
    for q in ("Simulator.run", "Simulator.step"):
        f = inline_helpers(repo, repo.fn(q))
        fl = flow_of(f)
        cfg = fl.cfg
        ups = [n for n, c in calls_in(fl, "update_pilots")]
        recs = [n for n, c in calls_in(fl, "_store_actual_charging_rates")]
        ck.require(len(ups) == 1 and len(recs) == 1, rid, f, "update_pilots / _store_actual_charging_rates", bad=f"{len(ups)} update_pilots and {len(recs)} recording calls in {q}",
                   sink=f"{f.name}:counts")
        if len(ups) != 1 or len(recs) != 1:
            continue
        u, r = ups[0], recs[0]
        between = cfg.reach(u, avoid={r}) & {n for n in cfg.nodes if r in cfg.reach(n)}
        bad = []
        for n, c in calls_in(fl):
            if n in between and n is not u and call_name(c) in ("post_charging_update", "_process_event", "plugin", "unplug", "get_current_events", "run", "_update_schedules"):
                bad.append(c)
        ck.require(cfg.dominates(u, r) and not bad, rid, f, bad[0] if bad else "record after pilots", ok="recorded immediately after the pilots were applied",
                   bad=f"`{src(bad[0], 50) if bad else 'recording'}` runs between applying the pilots and recording the rates: an EV removed there has its last "
                       f"period recorded as 0 A although it received energy", sink=f"{f.name}:between")


def run(ck):
    ck.attempt(rule_record_before_hook)
    ck.attempt(rule_units)
    ck.attempt(rule_same_value)
    ck.attempt(rule_gain_identity)
    ck.attempt(rule_single_writers)
    ck.attempt(rule_ledger_start)
    ck.attempt(rule_call_chain)
    from .c01 import rule_loop
    ck.attempt(rule_loop, rid="C02.R4o")
    ck.attempt(rule_binding)
    ck.attempt(rule_connected_charged)
    # the recorded rates are kept as given (no integer storage): rule of C04 applied to charging_rates
    from .c04 import rule_float_storage
    ck.attempt(rule_float_storage, rid="C02.R11", attrs=("charging_rates",))
    ck.attempt(rule_vacancy)
    ck.attempt(rule_recording)
    from .c18 import rule_energy_totals, rule_current_power
    ck.attempt(rule_energy_totals, rid="C02.R8")
    # "total energy delivered equals the time-integral of recorded aggregate power": aggregate power / current as defined (shared with C18)
    ck.attempt(rule_current_power, rid_c="C02.R8c", rid_p="C02.R8p")


_run_before_pairing = run


def run(ck):
    _run_before_pairing(ck)
    # "total energy delivered equals the integral of recorded aggregate power": the totals are sums over the session history, so every
    # plugged-in session must be recorded there under its own session id - keyed by anything else (the station, say) a later session
    # overwrites an earlier one and its energy drops out of the total (pairing rule of C01)
    from .c01 import rule_pairing
    ck.attempt(rule_pairing, rid="C02.R9")
    # "total energy ... recorded rates": a trajectory reloaded from JSON keeps every row with its station (mapping order survives the text
    # form: rule of C09 on to_json / from_json)
    from .c09 import rule_json_order
    ck.attempt(rule_json_order, rid="C02.R12")


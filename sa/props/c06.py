"""C06 - the feasibility check matches the phasor definition; all three checkers agree (structural part)."""
import ast

from ..core import AnalysisError, dotted, call_name, src, walk_local, const_value
from ..flow import edge_facts, linear, Lin, leaves
from ..rules import flow_of, calls_in, bind_args, canon, facts_at, cmp_norm, alts_deep, specialise, path_feasible, gexpand, flow_expand_atom
from ..flow import edge_facts
from ..nullflow import Spec, analyse, _use_kind
from ..shapes import Shapes
from .c04 import densified_in_station_order

EXPLANATION = ("Sibling agreement of the three feasibility checkers (ChargingNetwork.is_feasible/constraint_current, "
               "algorithms.utils.infrastructure_constraints_feasible, Interface.is_feasible): in both implementations the compared bound "
               "is limits + an element-wise maximum of the absolute tolerance and relative tolerance x limits (per constraint, no "
               "reduction), compared non-strictly with the bound on the greater side; the folded default tolerances of the two "
               "implementations are equal; both convert the per-station phase vector with deg2rad (network: exp(1j*.), algorithm side: "
               "cos and sin and a norm over the 2-axis); in linear mode both apply the absolute value to the coefficient operand of the "
               "product (conservative), never to the signed sum; by symbolic shape inference the quantity compared keeps the period "
               "axis in every branch of both implementations (every constraint and every period is checked; no reduction over time); "
               "the algorithm-side copy returns False only under a failed comparison and True only after the loop over all rows; "
               "Interface.is_feasible densifies in network station order, substitutes the network's tolerance only when the argument is "
               "None (not by truthiness) and binds (matrix, linear, violation_tolerance, relative_tolerance) by name; a network without "
               "constraints returns True before constraint_current is reached, and no Interface path forwards a None constraint matrix."
               " Added in round 3: a constraint row is passed over only on the passing edge of the comparison of the call's own mode (decision table of the algorithm-side checker, modes by specialisation); constraint_current is analysed per mode by specialisation of its gated result.")
EXPLANATION += ' Added in rounds 4-5: the infrastructure description used by the interface-side and algorithm-side checks is computed from the network as it is now (stateless-view rule shared with C05).'
NOT_DECIDED = "numeric equality of the phasor magnitude computed by the two implementations within floating-point error near the limit"

COEF = ("constraint_matrix",)
SCHED = ("rates", "schedule_matrix", "input_schedule")


def mentions_any(e, names):
    for c in ast.walk(e):
        if isinstance(c, ast.Attribute) and c.attr in names:
            return True
        if isinstance(c, ast.Name) and c.id in names:
            return True
    return False


def is_abs(e):
    return isinstance(e, ast.Call) and call_name(e) in ("abs", "absolute", "fabs")


def products(e):
    """MatMult / Mult nodes combining a coefficient-derived and a schedule-derived operand: [(node, coef side, sched side)]"""
    out = []
    for c in ast.walk(e):
        if isinstance(c, ast.BinOp) and isinstance(c.op, (ast.MatMult, ast.Mult)):
            for a, b in ((c.left, c.right), (c.right, c.left)):
                if mentions_any(a, COEF) and not mentions_any(a, SCHED) and mentions_any(b, SCHED):
                    out.append((c, a, b))
        if isinstance(c, ast.Call) and call_name(c) in ("dot", "matmul") and len(c.args) == 2:
            a, b = c.args
            if mentions_any(a, COEF) and not mentions_any(a, SCHED) and mentions_any(b, SCHED):
                out.append((c, a, b))
    return out


def check_linear_abs(ck, f, ex, where, side):
    """R4: in linear mode |c| . s  (abs on the coefficient operand), never abs(c . s) alone."""
    ps = products(ex)
    ck.require(bool(ps), "C06.R4", f, where, ok="coefficient x schedule product found", bad="linear branch: no product of constraint coefficients and schedule found",
               sink=f"{side}:linear:product")
    for node, a, b in ps:
        good = is_abs(a) or any(is_abs(x) and mentions_any(x, COEF) and not mentions_any(x, SCHED) for x in ast.walk(a) if isinstance(x, ast.Call)) \
            and not any(isinstance(x, ast.BinOp) and isinstance(x.op, (ast.Sub, ast.USub)) for x in ast.walk(a))
        ck.require(good, "C06.R4", f, node, ok="|coefficients| x schedule: conservative for non-negative schedules",
                   bad=f"linear mode multiplies the *signed* coefficients `{src(a, 50)}` with the schedule (abs, if any, is applied to the sum): "
                       f"mixed-sign rows cancel, so the relaxation is not conservative and the siblings disagree", sink=f"{side}:linear:abs-on-coefficients")
        babs = [x for x in ast.walk(b) if is_abs(x)]
        ck.note(f"{side} linear: schedule operand {'is' if babs else 'is not'} abs-wrapped") if False else None


def check_tolerance(ck, f, bound, side, limits_names, abs_names, rel_names, shp=None):
    """R1: bound == limits + maximum(abs tol, rel tol * limits) element-wise."""
    alts = alts_deep(bound)
    ok_all = True
    for b in alts[:8]:
        ok = False
        why = f"bound `{src(b, 90)}` is not limits + maximum(abs tol, rel tol x limits)"
        core = b
        # strip tile(...).T wrappers and [j] indexing
        changed = True
        while changed:
            changed = False
            if isinstance(core, ast.Attribute) and core.attr == "T":
                core, changed = core.value, True
            elif isinstance(core, ast.Call) and call_name(core) in ("tile", "broadcast_to", "repeat") and core.args:
                core, changed = core.args[0], True
            elif isinstance(core, ast.Call) and call_name(core) == "reshape" and isinstance(core.func, ast.Attribute) and dotted(core.func.value) not in ("np", "numpy"):
                core, changed = core.func.value, True
            elif isinstance(core, ast.Subscript) and any((isinstance(x, ast.Constant) and x.value is None) or dotted(x) in ("np.newaxis", "numpy.newaxis")
                                                         for x in (core.slice.elts if isinstance(core.slice, ast.Tuple) else [core.slice])):
                core, changed = core.value, True          # x[:, np.newaxis]: the same values as a column
        if isinstance(core, ast.BinOp) and isinstance(core.op, ast.Add):
            for lim, tol in ((core.left, core.right), (core.right, core.left)):
                lim0 = lim.value if isinstance(lim, ast.Subscript) else lim
                tol0 = tol.value if isinstance(tol, ast.Subscript) else tol
                if not (dotted(lim0) and dotted(lim0).split(".")[-1] in limits_names):
                    continue
                if isinstance(lim, ast.Subscript) != isinstance(tol, ast.Subscript):
                    continue
                if isinstance(lim, ast.Subscript) and canon(lim.slice) != canon(tol.slice):
                    why = "limit and tolerance are indexed by different constraint indices"
                    continue
                if isinstance(tol0, ast.Call) and call_name(tol0) in ("maximum", "fmax") and len(tol0.args) == 2:
                    a_ok = r_ok = False
                    for x in tol0.args:
                        names = {c.id for c in ast.walk(x) if isinstance(c, ast.Name)} | {c.attr for c in ast.walk(x) if isinstance(c, ast.Attribute)}
                        red = [c for c in ast.walk(x) if isinstance(c, ast.Call) and call_name(c) in ("max", "min", "amax", "amin", "sum", "mean", "norm")]
                        if isinstance(x, ast.BinOp) and isinstance(x.op, ast.Mult) and names & set(rel_names) and names & set(limits_names) and not red:
                            r_ok = True
                        elif names & set(abs_names) and not (names & set(limits_names)) and not red:
                            a_ok = True
                    if a_ok and r_ok:
                        ok = True
                    else:
                        why = f"tolerance `{src(tol0, 80)}` is not maximum(absolute tolerance, relative tolerance x limits) element-wise"
                elif isinstance(tol0, ast.Call) and call_name(tol0) in ("minimum", "fmin", "min"):
                    why = "the *smaller* of the two tolerances is used"
                else:
                    why = f"tolerance term `{src(tol0, 80)}` is not an element-wise maximum (a scalar/reduced tolerance applies one constraint's tolerance to all)"
        ck.require(ok, "C06.R1", f, b, ok="bound = limit + max(abs tol, rel tol x limit), per constraint", bad=why, sink=f"{side}:tolerance-formula")
        ok_all = ok_all and ok
    return ok_all


def rule_utils(ck):
    repo = ck.repo
    f = repo.fn("infrastructure_constraints_feasible")
    fl = flow_of(f)
    cfg = fl.cfg
    rates, infra, lin_p, vt, rt = f.params[:5]
    env = {rates: ("N", "T"), f"{infra}.constraint_matrix": ("C", "N"), f"{infra}.phases": ("N",), f"{infra}.constraint_limits": ("C",),
           f"{infra}.voltages": ("N",), vt: (), rt: (), f"__elem__({infra}.constraint_matrix)": ("N",), f"__idx__({infra}.constraint_matrix)": ()}
    sh = Shapes(env)

    def truth_const(e):
        return isinstance(e, ast.Constant) and isinstance(e.value, bool)
    rets = [n for n in cfg.nodes if n.kind == "return"]
    falses, trues = [], []
    for r in rets:
        if truth_const(r.expr):
            (trues if r.expr.value else falses).append(r)
        else:
            raise AnalysisError(f"infrastructure_constraints_feasible: return form not recognised: {src(r.stmt)}")
    ck.floor("C06.R5", len(falses), 1, "rejecting returns of the algorithm-side checker")
    modes_seen = set()
    for r in falses:
        cmp_atom = None
        for a, t in facts_at(fl, r):
            ax = a
            if isinstance(ax, ast.Call) and call_name(ax) == "all" and not t:
                cmp_atom, neg = ax, False
            if isinstance(ax, ast.Call) and call_name(ax) == "any" and t and ax.args:
                # np.any(np.logical_not(x <= y)) / np.any(~(x <= y)) / np.any(x > y)
                cmp_atom, neg = ax, True
        if cmp_atom is None:
            ck.violation("C06.R5", f, r.stmt, "a `return False` that is not the failed-comparison edge of np.all(<currents> <= <limit + tol>): the check "
                         "rejects without a violated constraint", sink="utils:reject-edge")
            continue
        loops = [t for t, lab in cfg.edges_dominating(r) if t.kind == "for" and lab is True]
        it_ok = len(loops) == 1 and canon(fl.expand(loops[0].stmt.iter, loops[0])) in (f"enumerate({infra}.constraint_matrix)",)
        ck.require(it_ok, "C06.R5", f, loops[0].stmt.iter if loops else r.stmt, ok="one iteration per constraint row, all rows",
                   bad="the per-constraint loop does not enumerate every row of the constraint matrix", sink="utils:rows")
        fl.gated = True
        try:
            inner0 = fl.expand(cmp_atom.args[0], r) if cmp_atom.args else None
        finally:
            fl.gated = False
        if inner0 is not None and neg:
            x0 = inner0
            if isinstance(x0, ast.Call) and call_name(x0) == "logical_not" and x0.args:
                inner0 = x0.args[0]
            elif isinstance(x0, ast.UnaryOp) and isinstance(x0.op, (ast.Invert, ast.Not)):
                inner0 = x0.operand
            else:
                c0 = cmp_norm(x0, False)
                inner0 = ast.Compare(left=c0[0], ops=[{"<": ast.Lt(), "<=": ast.LtE()}[c0[1]]], comparators=[c0[2]]) if c0 and c0[1] in ("<", "<=") else None
        for mode in (True, False):
            menv = {lin_p: mode}
            if not path_feasible(fl, r, menv):
                continue
            modes_seen.add(mode)
            side = f"utils:{'linear' if mode else 'phasor'}"
            inner = specialise(inner0, menv) if inner0 is not None else None
            c = cmp_norm(inner) if inner is not None else None
            if c is None or c[1] not in ("<=", "<"):
                raise AnalysisError(f"infrastructure_constraints_feasible: comparison not recognised: {src(cmp_atom)}")
            x, op, bound = c
            bound_is_rhs = mentions_any(bound, ("constraint_limits",)) and not mentions_any(x, ("constraint_limits",))
            ck.require(op == "<=" and bound_is_rhs, "C06.R1", f, cmp_atom, ok="currents <= limit + tolerance (non-strict)",
                       bad=f"the comparison must be non-strict with the bound on the greater side; got `{src(inner, 80)}`", sink=f"{side}:comparison")
            check_tolerance(ck, f, bound, side, ("constraint_limits",), (vt,), (rt,))
            idx_ok = all(canon(s_.slice) == f"__idx__({infra}.constraint_matrix)" for s_ in ast.walk(bound) if isinstance(s_, ast.Subscript)
                         and dotted(s_.value) and dotted(s_.value).endswith("constraint_limits"))
            ck.require(idx_ok, "C06.R5", f, bound, ok="row j is compared with limit j", bad="the limit is not indexed by the row counter of the loop", sink=f"{side}:row-index")
            for xa in alts_deep(x, limit=8):
                s = sh.of(xa)
                ck.count("shape inferences", 1)
                ck.require(s == ("T",), "C06.R5", f, xa, ok="the compared currents keep the period axis: every period is checked separately",
                           bad=f"the compared quantity has shape {s} instead of one value per period (T): a reduction collapses the time axis, so "
                               f"feasibility of a multi-period schedule is not decided per period (disagrees with the network-side check)",
                           sink=f"{side}:per-period")
                if mode:
                    check_linear_abs(ck, f, xa, cmp_atom, "utils")
                else:
                    has = {nm: any(isinstance(q, ast.Call) and call_name(q) == nm for q in ast.walk(xa)) for nm in ("cos", "sin", "norm", "deg2rad")}
                    ck.require(has["deg2rad"], "C06.R3", f, xa, ok="phases converted with deg2rad", bad="the algorithm-side check uses the phase angles without deg2rad",
                               sink="utils:deg2rad")
                    for q in ast.walk(xa):
                        if isinstance(q, ast.Call) and call_name(q) == "deg2rad":
                            ck.require(bool(q.args) and canon(q.args[0]) == f"{infra}.phases", "C06.R3", f, q, ok="of the per-station phase vector",
                                       bad="deg2rad is not applied to infrastructure.phases", sink="utils:deg2rad-arg")
                    ck.require(has["cos"] and has["sin"] and has["norm"], "C06.R3", f, xa, ok="real and imaginary parts, then a norm",
                               bad=f"the phasor magnitude needs cos, sin and a norm; present: {has}", sink="utils:cos-sin-norm")
                    ps = products(xa)
                    ck.require(bool(ps), "C06.R3", f, xa, ok="coefficient x schedule product", bad="no product of coefficients and schedule", sink="utils:phasor:product")
    ck.require(modes_seen == {True, False}, "C06.R5", f, "both modes", ok="both the phase-aware and the linear mode reject on a violated constraint",
               bad=f"modes with a rejecting path: {sorted(modes_seen)}", sink="utils:both-modes")
    for t in trues:
        loops = [x for x, lab in cfg.edges_dominating(t) if x.kind == "for" and lab is True]
        ck.require(not loops, "C06.R5", f, t.stmt, ok="True only after every row was checked", bad="`return True` inside the per-constraint loop: later constraints are never checked",
                   sink="utils:early-true")
        conds = [(x, lab) for x, lab in cfg.edges_dominating(t) if x.kind == "test"]
        extra = []
        for x, lab in conds:
            v = [specialise(fl.expand(x.expr, x), {lin_p: m}) for m in (True, False)]
            if all(isinstance(q, ast.Constant) for q in v):
                continue             # a pure function of the mode flag
            extra.append(x)
        ck.require(not extra, "C06.R5", f, extra[0].expr if extra else t.stmt, ok="no shortcut acceptance",
                   bad=f"the checker accepts on a shortcut condition `{src(extra[0].expr, 70) if extra else ''}` without evaluating the constraints", sink="utils:shortcut-true")
    return f


def rule_row_acceptance(ck, rid="C06.R5"):
    """a constraint row is passed over (the iteration completes, the function can still answer True) only on the passing edge of the
    comparison that belongs to the mode of the call: phase-aware -> the phasor magnitude (cos, sin, norm), linear -> |coefficients| x
    schedule.  A cheaper screen that lets a row through in the other mode's terms makes the checkers disagree (signed or negative
    entries).  Decided on the decision table of the function (every syntactic path, loop body entered once)."""
    from .. import pathtab
    repo = ck.repo
    f = repo.fn("infrastructure_constraints_feasible")
    fl = flow_of(f)
    lin_p = f.params[2]
    rows = [r for r in pathtab.table(fl) if r.end == "return" and isinstance(r.value, ast.Constant) and r.value.value is True
            and any(k.startswith("iterates ") and "constraint_matrix" in k and t for k, t, _, _ in r.facts)]
    if not rows:
        ck.error(rid, "infrastructure_constraints_feasible: no accepting path through the per-constraint loop found (idiom not recognised)")
        return

    def holds_everywhere(atom, truth):
        """the elementwise comparison known to hold for every period when `atom` has truth value `truth`: all(X) true; any(not X) false"""
        if not (isinstance(atom, ast.Call) and atom.args):
            return None
        nm = call_name(atom)
        x = atom.args[0]
        if nm == "all" and truth:
            return x
        if nm == "any" and not truth:
            if isinstance(x, ast.Call) and call_name(x) == "logical_not" and x.args:
                return x.args[0]
            if isinstance(x, ast.UnaryOp) and isinstance(x.op, (ast.Invert, ast.Not)):
                return x.operand
            c0 = cmp_norm(x, False)
            if c0 and c0[1] in ("<", "<="):
                return ast.Compare(left=c0[0], ops=[{"<": ast.Lt(), "<=": ast.LtE()}[c0[1]]], comparators=[c0[2]])
        return None

    def kind(cmp_):
        """'phasor' / 'linear' / 'other' for a comparison <x> <= <bound>"""
        c = cmp_norm(cmp_)
        if not c or c[1] not in ("<=", "<"):
            return "other"
        x = c[0]
        names = {call_name(q) for q in ast.walk(x) if isinstance(q, ast.Call)}
        if {"cos", "sin"} <= names and ("norm" in names or "hypot" in names or "sqrt" in names):
            return "phasor"
        if "abs" in names and not ({"cos", "sin", "exp"} & names):
            row = (f"__elem__({f.params[1]}.constraint_matrix)", f"__item__(__elem__(enumerate({f.params[1]}.constraint_matrix)), 1)")
            inner_abs = any(isinstance(q, ast.Call) and call_name(q) == "abs" and q.args and any(isinstance(z, (ast.Name, ast.Call)) and canon(z) in row
                            for z in ast.walk(q.args[0])) and not any(isinstance(z, ast.BinOp) and isinstance(z.op, ast.MatMult) for z in ast.walk(q.args[0]))
                            for q in ast.walk(x))
            return "linear" if inner_abs else "other"
        return "other"

    def passed_on(r, mode):
        """kinds of the comparisons known to hold on this path, each test re-expanded with gated phis and folded under the path's mode"""
        out = []
        for tn, lab in r.tests:
            ge = specialise(gexpand(fl, tn.expr, tn), {lin_p: mode})
            for a, t in edge_facts(ge, lab):
                cmp_ = holds_everywhere(a, t)
                if cmp_ is not None:
                    out.append(kind(cmp_))
        return out
    def feasible_under(r, mode):
        for tn, lab in r.tests:
            ge = specialise(gexpand(fl, tn.expr, tn), {lin_p: mode})
            if isinstance(ge, ast.Constant) and isinstance(ge.value, bool) and ge.value != bool(lab):
                return False
        return True
    n_checked = 0
    seen_bad = set()
    for r in rows:
        for mode in (True, False):
            if not feasible_under(r, mode):
                continue
            want = "linear" if mode else "phasor"
            passed = passed_on(r, mode)
            n_checked += 1
            if want not in passed and (mode, tuple(passed)) not in seen_bad:
                seen_bad.add((mode, tuple(passed)))
                ck.violation(rid, f, r.describe(220), f"in {'linear' if mode else 'phase-aware'} mode a constraint row is accepted on this path without passing the "
                             f"{want} comparison (comparisons passed: {passed or 'none'}): the algorithm-side check can accept what the network-side check rejects",
                             sink=f"utils:row-accepted-without-{want}")
    if n_checked == 0:
        ck.error(rid, "infrastructure_constraints_feasible: the accepting paths do not branch on the `linear` flag (mode idiom not recognised)")
    elif not any(o["rule"] == rid and o["verdict"] == "violation" and "row-accepted" in o.get("key", "") for o in ck.obligations):
        ck.holds(rid, f, "row acceptance", f"on all {n_checked} accepting path(s) the row passed its mode's own comparison")


def rule_network(ck):
    repo = ck.repo
    g = repo.fn("ChargingNetwork.is_feasible")
    gl = flow_of(g)
    cfg = gl.cfg
    sm, lin_p, vt, rt = g.params[1:5]
    h = repo.fn("ChargingNetwork.constraint_current")
    hl = flow_of(h)
    hsched, hcons, htimes, hlin = h.params[1:5]
    # ---- constraint_current
    henv = {"self.constraint_matrix": ("C", "N"), "self._phase_angles": ("N",), hsched: ("N", "T"), "self.magnitudes": ("C",),
            htimes: ("T",), "__phi__": None}
    hsh = Shapes(henv)
    rets = [n for n in hl.cfg.nodes if n.kind == "return"]
    ck.floor("C06.R4", len(rets), 1, "returns of constraint_current")
    modes = set()
    for r in rets:
        for mode in (True, False):
            menv = {hlin: mode}
            if not path_feasible(hl, r, menv):
                continue
            modes.add(mode)
            gex = specialise(gexpand(hl, r.expr, r), menv)
            for ex in alts_deep(gex)[:8]:
                # selected rows: constraint_indices is a list -> keeps the C axis
                hsh.env["self.constraint_matrix[constraint_indices]"] = ("C", "N")
                ex2 = _strip_index_lists(ex)
                s = hsh.of(ex2)
                ck.count("shape inferences", 1)
                ck.require(s == ("C", "T"), "C06.R5", h, r.expr, ok="aggregate currents keep (constraint, period) axes",
                           bad=f"constraint_current returns shape {s}, not one value per constraint and period", sink=f"net:{'linear' if mode else 'phasor'}:shape")
                if mode:
                    check_linear_abs(ck, h, ex, r.expr, "net")
                else:
                    d2r = [q for q in ast.walk(ex) if isinstance(q, ast.Call) and call_name(q) == "deg2rad"]
                    ck.require(bool(d2r) and all(q.args and canon(q.args[0]) == "self._phase_angles" for q in d2r), "C06.R3", h, r.expr,
                               ok="phase angles converted with deg2rad", bad="the network-side phasor sum uses the phase angles without deg2rad(self._phase_angles)",
                               sink="net:deg2rad")
                    ex_ok = any(isinstance(q, ast.Call) and call_name(q) == "exp" and q.args and any(isinstance(z, ast.Constant) and isinstance(z.value, complex)
                                                                                                       for z in ast.walk(q.args[0])) for q in ast.walk(ex))
                    ck.require(ex_ok, "C06.R3", h, r.expr, ok="unit phasors exp(1j*angle)", bad="no complex exponential exp(1j*angle) in the phase-aware sum", sink="net:exp")
                    # the rotation is by +angle: exp(1j * rad).  exp(-1j * rad) gives the complex conjugate of every constraint current (same
                    # magnitudes, mirrored phases) - the values handed out as complex currents are then not the phasor sums
                    for q in [q for q in ast.walk(ex) if isinstance(q, ast.Call) and call_name(q) == "exp" and q.args]:
                        coef, rest, todo, known = 1, 0, [(q.args[0], 1)], True
                        while todo:
                            t_, sg = todo.pop()
                            if isinstance(t_, ast.UnaryOp) and isinstance(t_.op, ast.USub):
                                todo.append((t_.operand, -sg))
                            elif isinstance(t_, ast.UnaryOp) and isinstance(t_.op, ast.UAdd):
                                todo.append((t_.operand, sg))
                            elif isinstance(t_, ast.BinOp) and isinstance(t_.op, ast.Mult):
                                coef *= sg
                                todo.append((t_.left, 1))
                                todo.append((t_.right, 1))
                            elif isinstance(t_, ast.Constant) and isinstance(t_.value, (int, float, complex)) and not isinstance(t_.value, bool):
                                coef *= sg * t_.value
                            elif isinstance(t_, ast.Call) and call_name(t_) in ("deg2rad", "radians"):
                                coef *= sg
                                rest += 1
                            else:
                                known = False
                        if known and rest == 1 and isinstance(coef, complex):
                            ck.require(coef == 1j, "C06.R3", h, q, ok="rotation by +angle: exp(1j * angle)",
                                       bad=f"the unit phasors are exp({coef} * angle): every complex constraint current comes out as the conjugate / scaled value of the phasor sum",
                                       sink="net:exp-sign", positive=True)
                    ps = products(ex)
                    ck.require(bool(ps), "C06.R3", h, r.expr, ok="coefficient x phasor schedule product", bad="no product of coefficients and schedule", sink="net:phasor:product")
    ck.require(modes == {True, False}, "C06.R4", h, "both modes", bad=f"constraint_current modes found: {sorted(modes)}", sink="net:modes")
    # ---- is_feasible
    rets = [n for n in cfg.nodes if n.kind == "return"]
    cc = calls_in(gl, "constraint_current")
    ck.require(len(cc) == 1, "C06.R7", g, cc[0][1] if cc else "self.constraint_current(...)", bad=f"{len(cc)} constraint_current call sites", sink="net:cc-count")
    empties = []
    for r in rets:
        if isinstance(r.expr, ast.Constant) and r.expr.value is True:
            good = False
            from ..rules import emptiness
            if any(emptiness(gl, r, cont) == "empty" for cont in ("self.magnitudes", "self.constraint_index", "self.constraint_matrix")):
                good = True
            for a, t in facts_at(gl, r):
                a = gl.expand(a, r)
                c = cmp_norm(a, t)
                s = canon(a)
                if (s in ("len(self.magnitudes)", "self.magnitudes.size", "len(self.constraint_index)") and not t) or \
                        (c and c[1] == "==" and {canon(c[0]), canon(c[2])} & {"len(self.magnitudes)", "self.magnitudes.size", "len(self.constraint_index)"}
                         and {canon(c[0]), canon(c[2])} & {"0"}) or (c and c[1] == "is" and canon(c[0]) == "self.constraint_matrix"):
                    good = True
            ck.require(good, "C06.R7", g, r.stmt, ok="accepts outright only when there are no constraints", bad="`return True` that is not the no-constraints case",
                       sink="net:true-guard")
            if good:
                empties.append(r)
    ck.require(bool(empties), "C06.R7", g, "if not len(self.magnitudes): return True", ok="constraint-free network accepts every schedule",
               bad="no early acceptance for a network without constraints: constraint_current would index a None matrix", sink="net:empty-accept")
    for n, c in cc:
        # every path to the call passes a test that excludes the empty case
        reach_wo = cfg.reach(cfg.entry, avoid={e for e in cfg.nodes if e.kind == "edge" and e.test.kind == "test" and
                                               any(canon(a) in ("len(self.magnitudes)", "self.magnitudes.size", "len(self.constraint_index)") and t or
                                                   ((cn := cmp_norm(a, t)) and cn[1] in ("!=", "<", "is not") and
                                                    ({canon(cn[0]), canon(cn[2])} & {"len(self.magnitudes)", "self.magnitudes.size", "self.constraint_matrix"}))
                                                   for a, t in edge_facts(e.test.expr, e.label))})
        # the early return form: the call is not reachable from the empty edge
        guarded = n not in reach_wo or all(n not in cfg.reach(e) for e in empties) and bool(empties) and all(
            cfg.dominates([x for x in cfg.nodes if x.kind == "test" and e in cfg.reach(x)][-1], n) for e in empties)
        ck.require(guarded, "C06.R7", g, c, ok="constraint_current is only reached when constraints exist",
                   bad="constraint_current can be reached on a network without constraints (matrix is None)", sink="net:cc-guard")
        b = bind_args(c, h, method=True)
        ck.require(canon(gl.expand(b.get(hsched, ast.Constant(None)), n)) == sm and canon(b.get(hlin, ast.Constant(None))) == lin_p, "C06.R6", g, c,
                   ok="schedule and linear flag forwarded by name", bad="is_feasible does not forward (schedule_matrix, linear=linear) to constraint_current", sink="net:cc-args")
        for extra in (hcons, htimes):
            ck.require(extra not in b, "C06.R5", g, c, ok=f"{extra}: all", bad=f"feasibility is checked on a subset ({extra} given)", sink=f"net:cc-{extra}")
    finals = [r for r in rets if r not in empties and not (isinstance(r.expr, ast.Constant))]
    ck.require(len(finals) >= 1, "C06.R5", g, "return np.all(...)", bad="no comparison-based return", sink="net:final")
    env = {"self.magnitudes": ("C",), sm: ("N", "T"), vt: (), rt: (), "self.violation_tolerance": (), "self.relative_tolerance": (),
           "#" + f"{sm}.shape[1]": "T"}
    gsh = Shapes(env, calls={"constraint_current": ("C", "T")})
    for r in finals:
        for ex in alts_deep(gl.expand(r.expr, r))[:16]:
            if not (isinstance(ex, ast.Call) and call_name(ex) == "all" and ex.args):
                ck.violation("C06.R5", g, r.expr, f"the verdict must be np.all(<bound> >= |currents|) over every constraint and period; got `{src(ex, 80)}`",
                             sink="net:all")
                continue
            c = cmp_norm(ex.args[0])
            if c is None or c[1] not in ("<=", "<"):
                raise AnalysisError(f"ChargingNetwork.is_feasible: comparison not recognised: {src(ex.args[0])}")
            x, op, bound = c
            ck.require(op == "<=" and mentions_any(bound, ("magnitudes",)) and not mentions_any(x, ("magnitudes",)), "C06.R1", g, ex.args[0],
                       ok="|currents| <= limit + tolerance (non-strict)", bad=f"the comparison must be non-strict with the bound on the greater side; got `{src(ex.args[0], 80)}`",
                       sink="net:comparison")
            check_tolerance(ck, g, bound, "net", ("magnitudes",), (vt, "violation_tolerance"), (rt, "relative_tolerance"))
            ck.require(is_abs(x) and x.args and isinstance(x.args[0], ast.Call) and call_name(x.args[0]) == "constraint_current", "C06.R5", g, x,
                       ok="magnitude of the aggregate currents", bad="the compared quantity is not abs(constraint_current(...))", sink="net:abs-currents")
            sx, sb = gsh.of(x), gsh.of(_strip_index_lists(bound))
            ck.count("shape inferences", 2)
            ck.require(sx == ("C", "T"), "C06.R5", g, x, ok="one value per constraint and period", bad=f"aggregate side has shape {sx}", sink="net:shape-x")
            ck.require(sb in (("C", "T"), ("C", "1"), ("C", 1)), "C06.R5", g, bound, ok="bound broadcast per constraint over periods",
                       bad=f"bound side has shape {sb}: it must be one limit per constraint, repeated over the periods", sink="net:shape-bound")
    # tolerance defaulting: only on `is None`
    for p, attr in ((vt, "self.violation_tolerance"), (rt, "self.relative_tolerance")):
        _default_only_on_none(ck, g, gl, p, (attr,), "net")
    return g, h


def _strip_index_lists(e):
    """X[constraint_indices] with a list index keeps the axis: replace by X for shape purposes."""
    import copy

    class T(ast.NodeTransformer):
        def visit_Subscript(self, n):
            self.generic_visit(n)
            if isinstance(n.slice, ast.Name) and n.slice.id in ("constraint_indices",):
                return n.value
            if isinstance(n.slice, ast.Call) and call_name(n.slice) in ("__phi__", "list"):
                return n.value
            if isinstance(n.slice, ast.ListComp):
                return n.value
            return n
    return T().visit(copy.deepcopy(e))


def _default_only_on_none(ck, f, fl, p, defaults, side):
    """every store to parameter p inside f is on the `p is None` edge and stores one of `defaults`."""
    for n in fl.cfg.nodes:
        if n.kind == "stmt" and isinstance(n.stmt, ast.Assign) and any(dotted(t) == p for t in n.stmt.targets):
            v = n.stmt.value
            on_none = any((c := cmp_norm(a, t)) and c[1] == "is" and dotted(c[0]) == p and isinstance(c[2], ast.Constant) and c[2].value is None
                          for a, t in facts_at(fl, n))
            good = on_none and canon(v) in defaults
            if not good and not on_none:
                # the same thing computed elsewhere (a helper spliced in, a temporary): the stored value, as a function of the
                # argument, must be the default for None and the argument itself otherwise - an explicit 0 included
                try:
                    gx = gexpand(fl, v, n)
                    res = [canon(specialise(gx, {p: k})) for k in (None, 0, 7.5)]
                    good = res[0] in defaults and res[1] == "0" and res[2] == "7.5"
                except AnalysisError:
                    good = False
            ck.require(good, "C06.R6", f, n.stmt, ok=f"{p} defaults to the network's value only when it is None",
                       bad=f"`{src(n.stmt, 70)}`: the tolerance argument is replaced other than on `{p} is None` (an explicit 0 must be honoured)",
                       sink=f"{side}:default:{p}")


def rule_interface(ck, g):
    repo = ck.repo
    f = repo.fn("Interface.is_feasible")
    fl = flow_of(f)
    cfg = fl.cfg
    lc, lin_p, vt, rt = f.params[1:5]
    calls = [(n, c) for n, c in calls_in(fl, "is_feasible")
             if isinstance(c.func, ast.Attribute) and canon(flow_expand_atom(fl, c.func.value, n)) == "self._simulator.network"]
    ck.require(len(calls) == 1, "C06.R6", f, calls[0][1] if calls else "network.is_feasible(...)", bad=f"{len(calls)} delegations to network.is_feasible", sink="iface:delegate")
    for n, c in calls:
        b = bind_args(c, g, method=True)
        gp = g.params[1:5]
        for mine, theirs in zip((None, lin_p, vt, rt), gp):
            if mine is None:
                continue
            a = b.get(theirs)
            ex = fl.expand(a, n) if a is not None else None
            names = {x.id for x in ast.walk(ex) if isinstance(x, ast.Name)} if ex is not None else set()
            ok = ex is not None and mine in names and not any(isinstance(x, ast.BoolOp) for x in ast.walk(ex))
            ck.require(ok, "C06.R6", f, a if a is not None else c, ok=f"{theirs} <- {mine}",
                       bad=f"network.is_feasible parameter {theirs} is bound to `{src(ex, 60) if ex is not None else 'nothing'}`, not to this call's {mine} "
                           f"(or it is defaulted by truthiness)", sink=f"iface:arg:{theirs}")
        a = b.get(gp[0])
        if a is not None:
            dn = [x for x in cfg.nodes if x.kind == "stmt" and isinstance(x.stmt, ast.Assign) and any(dotted(t) == dotted(a) for t in x.stmt.targets)]
            if len(dn) != 1:
                raise AnalysisError("Interface.is_feasible: schedule matrix definition not recognised")
            densified_in_station_order(ck, "C06.R6", f, fl, dn[0].stmt.value, dn[0], lc, ("self._simulator.network.station_ids",))
    _default_only_on_none(ck, f, fl, vt, ("self._violation_tolerance", "self._simulator.network.violation_tolerance"), "iface")
    _default_only_on_none(ck, f, fl, rt, ("self._relative_tolerance", "self._simulator.network.relative_tolerance"), "iface")
    for q, want in (("Interface._violation_tolerance", "self._simulator.network.violation_tolerance"),
                    ("Interface._relative_tolerance", "self._simulator.network.relative_tolerance")):
        m = repo.fn(q)
        ml = flow_of(m)
        for r in [x for x in ml.cfg.nodes if x.kind == "return"]:
            ck.require(canon(ml.expand(r.expr, r)) == want, "C06.R6", m, r.expr, ok=f"= {want}", bad=f"{q} must return {want}", sink=f"iface:{m.name}")
    # empty mapping accepted, unequal lengths rejected
    rets = [x for x in cfg.nodes if x.kind == "return" and isinstance(x.expr, ast.Constant) and x.expr.value is True]
    for r in rets:
        ok = any((c := cmp_norm(a, t)) and c[1] == "==" and {canon(c[0]), canon(c[2])} == {f"len({lc})", "0"} for a, t in facts_at(fl, r)) or \
            any(canon(a) == lc and not t for a, t in facts_at(fl, r))
        ck.require(ok, "C06.R6", f, r.stmt, ok="only the empty schedule is accepted without asking the network", bad="Interface.is_feasible accepts without delegating on a non-empty schedule",
                   sink="iface:true-guard")


def rule_defaults(ck):
    repo = ck.repo
    net = repo.fn("ChargingNetwork.__init__")
    ut = repo.fn("infrastructure_constraints_feasible")
    for p in ("violation_tolerance", "relative_tolerance"):
        try:
            a, b = const_value(net.defaults()[p]), const_value(ut.defaults()[p])
        except KeyError:
            raise AnalysisError(f"default of {p} not found in one of the siblings")
        ck.require(a == b, "C06.R2", ut, f"{p}: network {a} / algorithm side {b}", ok="default tolerances agree",
                   bad=f"default {p} differs between ChargingNetwork ({a}) and infrastructure_constraints_feasible ({b}): the siblings disagree near a limit",
                   sink=f"defaults:{p}")
    # the network stores its constructor tolerances under the names the checks read
    fl = flow_of(net)
    for p in ("violation_tolerance", "relative_tolerance"):
        st = [n for n in fl.cfg.nodes if n.kind == "stmt" and isinstance(n.stmt, (ast.Assign, ast.AnnAssign)) and
              any(dotted(t) == f"self.{p}" for t in (n.stmt.targets if isinstance(n.stmt, ast.Assign) else [n.stmt.target]))]
        ck.require(bool(st) and all(canon(fl.expand(n.stmt.value, n)) == p for n in st), "C06.R2", net, st[0].stmt if st else f"self.{p} = {p}",
                   ok=f"self.{p} is the constructor argument", bad=f"ChargingNetwork does not store {p} as given", sink=f"defaults:store:{p}")


def rule_none_matrix(ck):
    """R7: no Interface method forwards or dereferences the Optional network.constraint_matrix unguarded."""
    repo = ck.repo
    spec = Spec(attrs={"constraint_matrix"}, sinks={"InfrastructureInfo": {0, "constraint_matrix"}, "Constraint": {0}}, names=())
    iface = repo.cls("Interface")
    n = 0
    for name, m in sorted(iface.methods.items()):
        if not any(isinstance(x, ast.Attribute) and x.attr == "constraint_matrix" for x in ast.walk(m.node)):
            continue
        fl = flow_of(m)
        for r in analyse(fl, spec):
            k = r["key"]
            if "infrastructure_info" in k or "InfrastructureInfo" in k:
                continue        # attribute of the (validated) InfrastructureInfo object, not the network's Optional
            n += 1
            ck.require(r["guarded"], "C06.R7", m, r["use"], ok=r["how"], bad=f"`{k}` may be None here (network without constraints): {r['how']}",
                       sink=f"{name}:{k}:{_use_kind(r['use'])}")
    ck.floor("C06.R7", n, 1, "uses of the Optional constraint matrix in Interface")



def rule_linear_abs(ck, rid="C06.R9"):
    """`the linear mode is conservative`: with linear=True the quantity compared with the limits is |A| . rates - every coefficient enters
    through its absolute value, so currents of opposite sign cannot cancel.  Decided on whatever shape the check has (per-row loops, one
    vectorised expression): every comparison against the limits that is reachable with linear=True, specialised under linear=True,
    must apply abs to (something built from) the constraint matrix before it meets the rates."""
    from ..rules import gexpand, specialise
    repo = ck.repo
    n = 0
    for qual, lin_name, mat_keys in (("infrastructure_constraints_feasible", None, ("constraint_matrix",)),):
        f = repo.fn(qual)
        fl = flow_of(f)
        lin_p = lin_name or f.params[2]
        limit_keys = ("constraint_limits", "magnitudes")
        for node in fl.cfg.nodes:
            for e in fl.cfg.node_exprs(node):
                for c in [e] + list(walk_local(e)):
                    if not (isinstance(c, ast.Compare) and len(c.ops) == 1 and isinstance(c.ops[0], (ast.Lt, ast.LtE, ast.Gt, ast.GtE))):
                        continue
                    sides = [c.left, c.comparators[0]]
                    ex = [gexpand(fl, x, node) for x in sides]
                    has_lim = [any(k in src(x) for k in limit_keys) for x in ex]
                    if has_lim[0] == has_lim[1]:
                        continue
                    q = ex[1] if has_lim[0] else ex[0]
                    if not any(k in src(q) for k in mat_keys):
                        continue
                    # reachable with linear=True?
                    if any(dotted(a) == lin_p and t is False for a, t in facts_at(fl, node)):
                        continue
                    ql = specialise(q, {lin_p: True})
                    # judged only when the quantity is written out in terms the rule reads: numpy / builtin operations over the matrix, the
                    # phases and the rates.  A call of anything else (a selected function object, a helper that was not inlined) is not
                    # read - the per-row rules (R1-R5) are the ones that must recognise the shape then
                    known_calls = {"abs", "absolute", "fabs", "hypot", "norm", "stack", "vstack", "array", "asarray", "cos", "sin", "deg2rad", "radians", "zeros",
                                   "zeros_like", "dot", "matmul", "sqrt", "square", "sum", "tile", "maximum", "minimum", "max", "min", "float", "len", "transpose",
                                   "real", "imag", "exp", "multiply", "einsum", "atleast_2d", "reshape", "where", "full", "ones", "copy", "__elem__", "__idx__", "__item__", "enumerate"}
                    if any(isinstance(x, ast.Call) and (call_name(x) not in known_calls or not isinstance(x.func, (ast.Name, ast.Attribute))
                                                      or (isinstance(x.func, ast.Attribute) and isinstance(x.func.value, ast.Call)))
                           for x in ast.walk(ql)) or any(isinstance(x, ast.Call) and call_name(x) in ("__gamma__", "__phi__", "__loop__") for x in ast.walk(ql)):
                        continue
                    n += 1
                    ok = False
                    for x in ast.walk(ql):
                        if isinstance(x, ast.Call) and call_name(x) in ("abs", "absolute", "fabs") and x.args and any(k in src(x.args[0]) for k in mat_keys):
                            # the abs must be on the coefficients alone, not on the product with the rates
                            if f.params[0] not in {y.id for y in ast.walk(x.args[0]) if isinstance(y, ast.Name)}:
                                ok = True
                    ck.require(ok, rid, f, c, ok="linear mode: coefficients enter through their absolute value",
                               bad=f"with linear=True the current compared with the limit is `{src(ql)[:110]}`: the coefficients are not taken in absolute value before "
                                   "they are combined with the rates, so currents with opposite signs cancel and the linear check is no longer conservative",
                               sink="linear-abs", positive=True)
    ck.count("comparisons against the limits read in linear mode", n)

def run(ck):
    ck.attempt(rule_utils)
    ck.attempt(rule_row_acceptance)
    g, h = rule_network(ck)
    ck.attempt(rule_interface, g)
    ck.attempt(rule_defaults)
    ck.attempt(rule_none_matrix)
    # "the interface-side and algorithm-side checks agree with the network-side one": they work on the description the interface builds,
    # which must be computed from the network as it is now (shared with C05)
    from .c05 import rule_stateless_view
    ck.attempt(rule_stateless_view, rid="C06.R8")
    ck.attempt(rule_linear_abs)

"""C14 - battery models follow their documented charging laws (partial, structural)."""
import ast

from ..core import AnalysisError, dotted, call_name, src, walk_local
from ..rules import flow_of, state_writes, facts_at, canon, cmp_norm, calls_in
from ..units import check_units
from ..tables import UNITS
from .c03 import rule_ideal

EXPLANATION = ("(R1) the ideal law: the granted power is exactly min(pilot x voltage / 1000, max power, fill rate) (operand "
               "coverage + units); (R2) dimensional consistency of every formula of the continuous and the stepwise two-stage "
               "routines (SoC quantities never mixed with kWh, both exp() arguments dimensionless, kW/kWh/A/min conversions); "
               "(R3) zero pilot: the `pilot == 0` return precedes every update of the stored charge and reports rate 0 and "
               "power 0; (R4) reset restores the initial (or the validated given) charge and zero power on every path, and "
               "EV.reset zeroes the delivered energy and resets its battery; (R5) the region tests and the pieces of the "
               "continuous closed form agree on the pilot-adjusted breakpoint (decided on expanded expressions with only that "
               "variable kept symbolic); (R6) the pilot's SoC rate is capped by the maximum SoC rate on every path to a use.")
NOT_DECIDED = ("agreement of the closed form with the differential law, the period-splitting identity T = T/2 + T/2 and "
               "monotonicity in pilot and T: identities of real analysis, not visible in the shape of the code "
               "(e.g. a flipped branch condition between the crossing and non-crossing closed forms is NOT detected)")


def rule_units(ck, rid="C14.R2"):
    repo = ck.repo
    for q in ("Battery.charge", "Linear2StageBattery._charge", "Linear2StageBattery._charge_stepwise"):
        check_units(ck, rid, repo.fn(q), UNITS[q])


def rule_zero_pilot(ck, rid="C14.R3"):
    repo = ck.repo
    f = repo.fn("Linear2StageBattery._charge")
    fl = flow_of(f)
    pilot = f.params[1]
    zero_rets = []
    for n in fl.cfg.nodes:
        if n.kind == "return":
            for a, t in facts_at(fl, n):
                c = cmp_norm(a, t)
                if c and c[1] == "==" and {canon(c[0]), canon(c[2])} == {pilot, "0"}:
                    zero_rets.append(n)
    ck.require(len(zero_rets) >= 1, rid, f, "if pilot == 0: return 0", ok="zero pilot short-circuits", bad="the zero-pilot shortcut is gone (the closed form divides by the pilot's SoC rate)",
               sink="zero-pilot-return")
    charge_writes = [n for n, k, p, t in state_writes(fl) if p == "self._current_charge"]
    for r in zero_rets:
        ck.require(isinstance(r.expr, ast.Constant) and r.expr.value == 0, rid, f, r.stmt, ok="a zero pilot delivers nothing (rate 0)", bad="the zero-pilot branch must return 0",
                   sink="zero-pilot-rate")
        before = [w for w in charge_writes if r in fl.cfg.reach(w)]
        ck.require(not before, rid, f, r.stmt, ok="the stored charge is untouched on the zero-pilot path", bad="the stored charge is updated before the zero-pilot return",
                   sink="zero-pilot-after-update")
        pw = [n for n, k, p, t in state_writes(fl) if p == "self._current_charging_power" and fl.cfg.dominates(n, r)
              and isinstance(n.stmt, ast.Assign) and isinstance(n.stmt.value, ast.Constant) and n.stmt.value.value == 0]
        ck.require(bool(pw), rid, f, r.stmt, ok="power reported as 0", bad="the zero-pilot branch must set the charging power to 0", sink="zero-pilot-power")
    for w in charge_writes:
        ok = any((c := cmp_norm(a, t)) and c[1] == "!=" and {canon(c[0]), canon(c[2])} == {pilot, "0"} for a, t in facts_at(fl, w))
        ck.require(ok, rid, f, w.stmt, ok="charge updated only for a non-zero pilot", bad="the charge update is reachable with a zero pilot (division by the pilot's SoC rate)",
                   sink="update-with-zero-pilot")


def rule_reset(ck, rid="C14.R4"):
    repo = ck.repo
    f = repo.fn("Battery.reset")
    fl = flow_of(f)
    param = f.params[1]
    ch = [(n, t) for n, k, p, t in state_writes(fl) if p == "self._current_charge"]
    pw = [(n, t) for n, k, p, t in state_writes(fl) if p == "self._current_charging_power"]
    ck.require(fl.cfg.exit not in fl.cfg.reach(fl.cfg.entry, avoid={n for n, _ in ch}), rid, f, "self._current_charge = ...", ok="charge restored on every path",
               bad="a path through reset leaves the stored charge unchanged", sink="reset-charge-every-path")
    for n, t in ch:
        v = canon(fl.expand(n.stmt.value, n))
        dflt = any((c := cmp_norm(a, tr)) and canon(c[0]) == param and c[1] in ("is", "==") and canon(c[2]) == "None" for a, tr in facts_at(fl, n))
        ok = (v == "self._init_charge" and dflt) or (v == param and not dflt)
        ck.require(ok, rid, f, n.stmt, ok="initial charge by default, the given charge otherwise", bad=f"reset must restore self._init_charge (default) or the given charge; stores {v}",
                   sink="reset-charge-value")
    ok = bool(pw) and all(isinstance(n.stmt.value, ast.Constant) and n.stmt.value.value == 0 for n, _ in pw) and \
        fl.cfg.exit not in fl.cfg.reach(fl.cfg.entry, avoid={n for n, _ in pw})
    ck.require(ok, rid, f, pw[0][1] if pw else "self._current_charging_power = 0", ok="power zeroed on every path", bad="reset must set the charging power to 0 on every path",
               sink="reset-power")
    e = repo.fn("EV.reset")
    efl = flow_of(e)
    en = [(n, t) for n, k, p, t in state_writes(efl) if p == "self._energy_delivered"]
    ok = bool(en) and all(isinstance(n.stmt, ast.Assign) and isinstance(n.stmt.value, ast.Constant) and n.stmt.value.value == 0 for n, _ in en) and \
        efl.cfg.exit not in efl.cfg.reach(efl.cfg.entry, avoid={n for n, _ in en})
    ck.require(ok, rid, e, en[0][1] if en else "self._energy_delivered = 0", ok="delivered energy zeroed", bad="EV.reset must zero the delivered energy", sink="ev-reset-energy")
    rs = [(n, c) for n, c in calls_in(efl, "reset") if canon(c.func.value) == "self._battery"]
    ok = bool(rs) and efl.cfg.exit not in efl.cfg.reach(efl.cfg.entry, avoid={n for n, _ in rs})
    ck.require(ok, rid, e, rs[0][1] if rs else "self._battery.reset()", ok="battery reset too", bad="EV.reset must reset its battery", sink="ev-reset-battery")


def rule_breakpoint(ck, rid="C14.R5"):
    """the region test of the two-stage closed form and the formulas it guards use the same breakpoint (the pilot-adjusted
    transition state of charge): a piecewise solution whose test and pieces disagree on the breakpoint is not a solution of the law.
    Decided on def-use-expanded expressions in which only the adjusted breakpoint is kept symbolic, so temporaries, extracted helpers
    (inlined) and conditional-expression forms of the same law are read alike."""
    from ..flow import leaves
    repo = ck.repo
    f = repo.fn("Linear2StageBattery._charge")
    fl = flow_of(f)
    cfg = fl.cfg
    NOM = "self._transition_soc"
    need = {NOM, f.params[1], "self._max_power"}
    # the pilot-adjusted breakpoint: the variable derived from the nominal breakpoint, the pilot and the maximum power (not from the SoC)
    adj = {}
    for n in cfg.nodes:
        for nm, how in fl._defs.get(n, {}).items():
            if how[0] == "assign" and not isinstance(how[1], ast.Name):
                lv = leaves(fl.expand(how[1], n), calls=False)
                if NOM in lv and not ({"self._soc", "self.soc", "self._current_charge"} & lv):
                    adj.setdefault(nm, []).append((n, how[1], lv))
    # further temporaries derived from it (e.g. a ramp width) are candidates too: the breakpoint is the one not defined through another
    names = set(adj)
    last = {nm for nm in names if not any(isinstance(x, ast.Name) and x.id in names and x.id != nm for _, v, _ in adj[nm] for x in ast.walk(v))}
    if len(last) != 1:
        raise AnalysisError(f"_charge: pilot-adjusted breakpoint not identified (candidates {sorted(names)})")
    adjn = next(iter(last))
    for n, v, lv in adj[adjn]:
        ck.require(need <= lv, rid, f, n.stmt, ok="adjusted breakpoint depends on the nominal breakpoint, the pilot and the maximum power",
                   bad=f"the pilot-adjusted breakpoint does not depend on {sorted(need - lv)}", sink="breakpoint:definition")

    def syms(e):
        out = set()
        for x in ast.walk(e):
            d = dotted(x)
            if d in (adjn, NOM) and isinstance(x, (ast.Name, ast.Attribute)):
                out.add(d)
        return out

    def has_soc(e):
        return any(dotted(x) in ("self._soc", "self.soc") for x in ast.walk(e))
    fl.keep = {adjn}
    try:
        regions = []        # (report node, expanded test, [expanded guarded expressions])
        for t in cfg.nodes:
            if t.kind == "test":
                te = fl.expand(t.expr, t)
                if has_soc(te) and syms(te):
                    inside = []
                    for e in [s for s in t.succ if s.kind == "edge"]:
                        for n in cfg.nodes:
                            if cfg.dominates(e, n):
                                inside += [fl.expand(x, n) for x in cfg.node_exprs(n) if isinstance(x, ast.expr)]
                                if n.kind == "stmt" and isinstance(n.stmt, (ast.Assign, ast.AugAssign, ast.Return, ast.Expr)) and getattr(n.stmt, "value", None) is not None:
                                    inside.append(fl.expand(n.stmt.value, n))
                    regions.append((t.expr, te, inside))
        for n in cfg.nodes:
            for x in cfg.node_exprs(n):
                for ie in ast.walk(x):
                    if isinstance(ie, ast.IfExp):
                        te = fl.expand(ie.test, n)
                        if has_soc(te) and syms(te):
                            regions.append((ie, te, [fl.expand(ie.body, n), fl.expand(ie.orelse, n)]))
    finally:
        fl.keep = set()
    ck.floor(rid, len(regions), 1, "region tests comparing the state of charge with a transition point in _charge")
    for rep, te, inside in regions:
        own = syms(te)
        ins = set()
        for e in inside:
            ins |= syms(e)
        ck.require(own == {adjn} and ins <= own, rid, f, rep, ok=f"test and guarded formulas agree on the breakpoint {sorted(own)}",
                   bad=f"the region test uses {sorted(own)} as breakpoint and the formulas it guards use {sorted(ins)}: the closed form is the solution of the law only "
                       f"with the pilot-adjusted breakpoint `{adjn}` in both; pilots below the maximum are charged with the wrong branch between the two values",
                   sink="breakpoint:agree")


def run(ck):
    rule_breakpoint(ck)
    # the documented law charges at min(pilot, maximum) in the constant-power region: the pilot's SoC rate is capped before every use
    from .c03 import rule_pilot_cap
    rule_pilot_cap(ck, rid="C14.R6")
    rule_ideal(ck, rid="C14.R1")
    rule_units(ck)
    rule_zero_pilot(ck)
    rule_reset(ck)

"""C14 - battery models follow their documented charging laws (partial, structural)."""
import ast

from ..core import AnalysisError, dotted, call_name, src, walk_local
from ..rules import flow_of, state_writes, facts_at, canon, cmp_norm, calls_in
from ..units import check_units
from ..tables import UNITS
from .c03 import rule_ideal

EXPLANATION = ("(R1) the ideal law: the granted power is exactly min(pilot x voltage / 1000, max power, fill rate) (operand "
               "coverage + units); (R2) dimensional consistency of every formula of the continuous and the stepwise two-stage "
               "routines (SoC quantities never mixed with kWh, both exp() arguments dimensionless, kW/kWh/A/min conversions); "
               "(R3) zero pilot: the `pilot == 0` return precedes every update of the stored charge and reports rate 0 and "
               "power 0; (R4) reset restores the initial (or the validated given) charge and zero power on every path, and "
               "EV.reset zeroes the delivered energy and resets its battery; (R5) the region tests and the pieces of the "
               "continuous closed form agree on the pilot-adjusted breakpoint (decided on expanded expressions with only that "
               "variable kept symbolic); (R6) the pilot's SoC rate is capped by the maximum SoC rate on every path to a use; (R7) "
               "agreement of the continuous closed form with the documented differential law, by computer algebra (sympy) on the expanded "
               "source expressions: the adjusted breakpoint solves M(1-P)/(1-ts) = D; the constant piece satisfies s(0)=s, s'=D; the "
               "ramp-down piece s(0)=s, s'=D(1-s)/(1-P); the crossing piece s(tau1)=P at tau1=(P-s)/D and the same equation; the tests "
               "selecting the pieces are the predicates s < P and s + D <= P up to a positive factor."
               ' Added in round 3: reset is decided on its decision table and covers every attribute a charge routine writes.'
               ' Added after the mutation matrix: energy identities of the three routines and exact clamp operands (shared with C02 / C03).')
EXPLANATION += ' Added in rounds 4-5: no path of reset stores anything but itself into the remembered initial charge.'
NOT_DECIDED = ("uniqueness of the solution of the law (hence the period-splitting identity T = T/2 + T/2 and monotonicity in pilot and "
               "T) is the Picard-Lindelof theorem, taken from analysis: R7 decides that each piece *is* a solution with the right entry "
               "value and is selected by the right region predicate; the legacy stepwise routine is one Euler step by design and is only "
               "checked for units and clamps; floating-point error of exp")


def rule_units(ck, rid="C14.R2"):
    repo = ck.repo
    for q in ("Battery.charge", "Linear2StageBattery._charge", "Linear2StageBattery._charge_stepwise"):
        check_units(ck, rid, repo.fn(q), UNITS[q])


def rule_zero_pilot(ck, rid="C14.R3"):
    repo = ck.repo
    f = repo.fn("Linear2StageBattery._charge")
    fl = flow_of(f)
    pilot = f.params[1]
    zero_rets = []
    for n in fl.cfg.nodes:
        if n.kind == "return":
            for a, t in facts_at(fl, n):
                c = cmp_norm(a, t)
                if c and c[1] == "==" and {canon(c[0]), canon(c[2])} == {pilot, "0"}:
                    zero_rets.append(n)
    ck.require(len(zero_rets) >= 1, rid, f, "if pilot == 0: return 0", ok="zero pilot short-circuits", bad="the zero-pilot shortcut is gone (the closed form divides by the pilot's SoC rate)",
               sink="zero-pilot-return")
    charge_writes = [n for n, k, p, t in state_writes(fl) if p == "self._current_charge"]
    for r in zero_rets:
        ck.require(isinstance(r.expr, ast.Constant) and r.expr.value == 0, rid, f, r.stmt, ok="a zero pilot delivers nothing (rate 0)", bad="the zero-pilot branch must return 0",
                   sink="zero-pilot-rate")
        before = [w for w in charge_writes if r in fl.cfg.reach(w)]
        ck.require(not before, rid, f, r.stmt, ok="the stored charge is untouched on the zero-pilot path", bad="the stored charge is updated before the zero-pilot return",
                   sink="zero-pilot-after-update")
        pw = [n for n, k, p, t in state_writes(fl) if p == "self._current_charging_power" and fl.cfg.dominates(n, r)
              and isinstance(n.stmt, ast.Assign) and isinstance(n.stmt.value, ast.Constant) and n.stmt.value.value == 0]
        ck.require(bool(pw), rid, f, r.stmt, ok="power reported as 0", bad="the zero-pilot branch must set the charging power to 0", sink="zero-pilot-power")
    for w in charge_writes:
        ok = any((c := cmp_norm(a, t)) and c[1] == "!=" and {canon(c[0]), canon(c[2])} == {pilot, "0"} for a, t in facts_at(fl, w))
        ck.require(ok, rid, f, w.stmt, ok="charge updated only for a non-zero pilot", bad="the charge update is reachable with a zero pilot (division by the pilot's SoC rate)",
                   sink="update-with-zero-pilot")


def rule_reset(ck, rid="C14.R4"):
    repo = ck.repo
    f = repo.fn("Battery.reset")
    fl = flow_of(f)
    param = f.params[1]
    from .. import pathtab
    rows = [r for r in pathtab.table(fl) if r.end != "raise"]
    ck.floor(rid, len(rows), 2, "normally ending paths of Battery.reset")

    def is_default(k, a):
        return k == f"{param} is None"
    for r in rows:
        stores = [(k, st, node) for kind, k, st, node in r.effects if kind == "store" and k.startswith("self._current_charge = ")]
        vals = [k.split(" = ", 1)[1] for k, _, _ in stores]
        dflt = pathtab.implied(fl, r, is_default)
        want = "self._init_charge" if dflt is True else (param if dflt is False else None)
        ok = bool(vals) and want is not None and vals[-1] == want
        ck.require(ok, rid, f, stores[-1][1] if stores else "self._current_charge = ...", ok="initial charge by default, the given charge otherwise",
                   bad=f"reset must restore self._init_charge (no argument) or the given charge; on the path [{r.describe(80)}] the stored charge is {vals[-1] if vals else 'left unchanged'}",
                   sink="reset-charge-value")
        # "reset restores the initial state": the charge remembered from construction is what a later reset() goes back to, so no
        # reset may replace it (storing it onto itself on the default path of a shared helper is no change)
        inits = [(k.split(" = ", 1)[1], st) for kind, k, st, node in r.effects if kind in ("store", "mut") and k.startswith("self._init_charge")]
        changed = [(v, st) for v, st in inits if v != "self._init_charge"]
        ck.require(not changed, rid, f, changed[0][1] if changed else "self._init_charge", ok="the remembered initial charge is left alone",
                   bad=f"reset overwrites the charge remembered from construction with `{changed[0][0] if changed else ''}` on the path [{r.describe(80)}]: "
                       "reset(x) followed by reset() no longer returns to the initial state", sink="reset-keeps-init")
        pws = [k.split(" = ", 1)[1] for kind, k, st, node in r.effects if kind == "store" and k.startswith("self._current_charging_power = ")]
        ck.require(bool(pws) and pws[-1] == "0", rid, f, "self._current_charging_power = 0", ok="power zeroed on every path", bad="reset must set the charging power to 0 on every path",
                   sink="reset-power")
    # every piece of state a charging step changes is re-initialised by reset: attributes written by the charge routines of a battery
    # class are written by the reset of that class (the inherited Battery.reset or an override that calls it)
    for cname in ("Battery", "Linear2StageBattery"):
        ci = repo.cls(cname)
        written = {}
        for mname in ("charge", "_charge", "_charge_stepwise"):
            m = ci.methods.get(mname)
            if m is None:
                continue
            for n, k, p, t in state_writes(flow_of(m)):
                if p.startswith("self.") and p.count(".") == 1:
                    written.setdefault(p, (m, t))
        rm = repo.method(ci, "reset")
        reset_writes = {p for n, k, p, t in state_writes(flow_of(rm))}
        if rm.cls is not None and rm.cls.name != "Battery":
            # an override: what the base reset restores counts if the override calls it on every path
            sup = [n for n, c in calls_in(flow_of(rm), "reset") if isinstance(c.func.value, ast.Call) and call_name(c.func.value) == "super"]
            rfl = flow_of(rm)
            if sup and rfl.cfg.exit not in rfl.cfg.reach(rfl.cfg.entry, avoid=set(sup)):
                reset_writes |= {p for n, k, p, t in state_writes(fl)}
        for p, (m, t) in sorted(written.items()):
            ck.require(p in reset_writes, rid, m, t, ok=f"{p} is restored by reset", bad=f"{m.qual} changes {p}, which {rm.qual} never restores: after reset the battery "
                       f"does not behave like a fresh one", sink=f"reset-covers:{cname}:{p}")
    e = repo.fn("EV.reset")
    efl = flow_of(e)
    en = [(n, t) for n, k, p, t in state_writes(efl) if p == "self._energy_delivered"]
    ok = bool(en) and all(isinstance(n.stmt, ast.Assign) and isinstance(n.stmt.value, ast.Constant) and n.stmt.value.value == 0 for n, _ in en) and \
        efl.cfg.exit not in efl.cfg.reach(efl.cfg.entry, avoid={n for n, _ in en})
    ck.require(ok, rid, e, en[0][1] if en else "self._energy_delivered = 0", ok="delivered energy zeroed", bad="EV.reset must zero the delivered energy", sink="ev-reset-energy")
    rs = [(n, c) for n, c in calls_in(efl, "reset") if canon(c.func.value) == "self._battery"]
    ok = bool(rs) and efl.cfg.exit not in efl.cfg.reach(efl.cfg.entry, avoid={n for n, _ in rs})
    ck.require(ok, rid, e, rs[0][1] if rs else "self._battery.reset()", ok="battery reset too", bad="EV.reset must reset its battery", sink="ev-reset-battery")


def breakpoint_var(fl, f):
    """(name of the pilot-adjusted breakpoint variable, {candidate: [(node, value, leaves)]})"""
    from ..flow import leaves
    cfg = fl.cfg
    NOM = "self._transition_soc"
    need = {NOM, f.params[1], "self._max_power"}
    # the pilot-adjusted breakpoint: the variable derived from the nominal breakpoint, the pilot and the maximum power (not from the SoC)
    adj = {}
    for n in cfg.nodes:
        for nm, how in fl._defs.get(n, {}).items():
            if how[0] == "assign" and not isinstance(how[1], ast.Name):
                lv = leaves(fl.expand(how[1], n), calls=False)
                if NOM in lv and not ({"self._soc", "self.soc", "self._current_charge"} & lv):
                    adj.setdefault(nm, []).append((n, how[1], lv))
    # further temporaries derived from it (e.g. a ramp width) are candidates too: the breakpoint is the one not defined through another
    names = set(adj)
    last = {nm for nm in names if not any(isinstance(x, ast.Name) and x.id in names and x.id != nm for _, v, _ in adj[nm] for x in ast.walk(v))}
    if len(last) != 1:
        raise AnalysisError(f"_charge: pilot-adjusted breakpoint not identified (candidates {sorted(names)})")
    adjn = next(iter(last))
    return adjn, adj


def rule_breakpoint(ck, rid="C14.R5"):
    """the region test of the two-stage closed form and the formulas it guards use the same breakpoint (the pilot-adjusted
    transition state of charge): a piecewise solution whose test and pieces disagree on the breakpoint is not a solution of the law.
    Decided on def-use-expanded expressions in which only the adjusted breakpoint is kept symbolic, so temporaries, extracted helpers
    (inlined) and conditional-expression forms of the same law are read alike."""
    from ..flow import leaves
    repo = ck.repo
    f = repo.fn("Linear2StageBattery._charge")
    fl = flow_of(f)
    cfg = fl.cfg
    NOM = "self._transition_soc"
    need = {NOM, f.params[1], "self._max_power"}
    adjn, adj = breakpoint_var(fl, f)
    for n, v, lv in adj[adjn]:
        ck.require(need <= lv, rid, f, n.stmt, ok="adjusted breakpoint depends on the nominal breakpoint, the pilot and the maximum power",
                   bad=f"the pilot-adjusted breakpoint does not depend on {sorted(need - lv)}", sink="breakpoint:definition")

    def syms(e):
        out = set()
        for x in ast.walk(e):
            d = dotted(x)
            if d in (adjn, NOM) and isinstance(x, (ast.Name, ast.Attribute)):
                out.add(d)
        return out

    def has_soc(e):
        return any(dotted(x) in ("self._soc", "self.soc") for x in ast.walk(e))
    fl.keep = {adjn}
    try:
        regions = []        # (report node, expanded test, [expanded guarded expressions])
        for t in cfg.nodes:
            if t.kind == "test":
                te = fl.expand(t.expr, t)
                if has_soc(te) and syms(te):
                    inside = []
                    for e in [s for s in t.succ if s.kind == "edge"]:
                        for n in cfg.nodes:
                            if cfg.dominates(e, n):
                                inside += [fl.expand(x, n) for x in cfg.node_exprs(n) if isinstance(x, ast.expr)]
                                if n.kind == "stmt" and isinstance(n.stmt, (ast.Assign, ast.AugAssign, ast.Return, ast.Expr)) and getattr(n.stmt, "value", None) is not None:
                                    inside.append(fl.expand(n.stmt.value, n))
                    regions.append((t.expr, te, inside))
        for n in cfg.nodes:
            for x in cfg.node_exprs(n):
                for ie in ast.walk(x):
                    if isinstance(ie, ast.IfExp):
                        te = fl.expand(ie.test, n)
                        if has_soc(te) and syms(te):
                            regions.append((ie, te, [fl.expand(ie.body, n), fl.expand(ie.orelse, n)]))
    finally:
        fl.keep = set()
    ck.floor(rid, len(regions), 1, "region tests comparing the state of charge with a transition point in _charge")
    for rep, te, inside in regions:
        own = syms(te)
        ins = set()
        for e in inside:
            ins |= syms(e)
        ck.require(own == {adjn} and ins <= own, rid, f, rep, ok=f"test and guarded formulas agree on the breakpoint {sorted(own)}",
                   bad=f"the region test uses {sorted(own)} as breakpoint and the formulas it guards use {sorted(ins)}: the closed form is the solution of the law only "
                       f"with the pilot-adjusted breakpoint `{adjn}` in both; pilots below the maximum are charged with the wrong branch between the two values",
                   sink="breakpoint:agree")


def _split_ifexp(e, facts):
    """[(expr, [(atom, truth)...])] : the arms of (nested) conditional expressions with the facts selecting them"""
    from ..flow import edge_facts
    if isinstance(e, ast.IfExp):
        return _split_ifexp(e.body, facts + edge_facts(e.test, True)) + _split_ifexp(e.orelse, facts + edge_facts(e.test, False))
    return [(e, facts)]


def rule_law(ck, rid="C14.R7"):
    """the continuous two-stage closed form solves the documented law.  With s the state of charge, D the (capped) pilot rate in SoC per
    period, M the maximum rate, ts the nominal and P the pilot-adjusted breakpoint, the law is  ds/dtau = D for s < P,
    ds/dtau = D (1 - s)/(1 - P) for s >= P  (the ramp-down line M (1 - s)/(1 - ts) meets D at P).  Every piece of the source's closed
    form, read as a function of elapsed time tau (rate D -> D tau), must satisfy its differential equation and its initial / entry
    condition *as an identity* (computer algebra on the expanded source expressions), and the tests selecting a piece must be the
    region predicates s < P and s + D <= P up to a positive factor."""
    from .. import cas
    from .c03 import rate_vars
    repo = ck.repo
    f = repo.fn("Linear2StageBattery._charge")
    fl = flow_of(f)
    cfg = fl.cfg
    S = cas.sp()
    cand, maxn = rate_vars(fl, f)
    if len(cand) != 1:
        raise AnalysisError(f"_charge: pilot SoC rate not identified ({sorted(cand)})")
    dvar = next(iter(cand))
    pvar, adj = breakpoint_var(fl, f)
    # symbols: everything that lives below 1 is written 1 - (positive), rates are positive
    D, M, tau = S.symbols("D M tau", positive=True)
    u, v, w = S.symbols("u v w", positive=True)
    ts, P, s0 = 1 - u, 1 - v, 1 - w
    env = {dvar: D, maxn: M, pvar: P, "self._transition_soc": ts, "self._soc": s0, "self.soc": s0}
    from .c03 import capped_aliases
    alias = capped_aliases(fl, dvar, maxn)         # `capped = min(raw, maximum)`: the formulas are written over the capped rate
    for a_ in alias:
        env[a_] = D
    fl.keep = {dvar, maxn, pvar} | alias
    try:
        # (a) the adjusted breakpoint is where the ramp-down line meets the pilot rate
        for n, val, lv in adj[pvar]:
            pe = cas.to_sympy(fl.expand(val, n), env)
            z = cas.is_zero(M * (1 - pe) / (1 - ts) - D)
            if z is None:
                raise AnalysisError("_charge: identity for the adjusted breakpoint not decided by the algebra system")
            ck.require(z, rid, f, n.stmt, ok="adjusted breakpoint P solves M (1 - P)/(1 - ts) = D (the ramp-down line meets the pilot rate there)",
                       bad=f"`{src(n.stmt, 70)}`: the pilot-adjusted breakpoint is not the state of charge at which the ramp-down line M(1-s)/(1-ts) equals the pilot rate",
                       sink="law:breakpoint")
        # pieces: every definition of the variable(s) that hold a closed-form value
        pieces = []
        targets = set()
        for n in cfg.nodes:
            for nm, how in fl._defs.get(n, {}).items():
                if how[0] == "assign" and "exp(" in canon(fl.expand(how[1], n)) and nm not in (pvar,):
                    targets.add(nm)
        for n in cfg.nodes:
            for nm, how in fl._defs.get(n, {}).items():
                if nm in targets and how[0] == "assign":
                    if isinstance(how[1], ast.Name) and how[1].id in targets:
                        continue            # a copy of another closed-form variable (result variable of an inlined helper)
                    ex = fl.expand(how[1], n)
                    cs = canon(ex)
                    if "normal(" in cs or "abs(" in cs or "max(" in cs or "min(" in cs:
                        continue            # the noise clamp (C03.R3)
                    base = [(fl.expand(a, n), t) for a, t in facts_at(fl, n)]
                    for arm, facts in _split_ifexp(ex, base):
                        pieces.append((n, arm, facts))
    finally:
        fl.keep = set()
    ck.floor(rid, len(pieces), 3, "pieces of the continuous closed form")
    region_h = P - s0            # > 0  <=>  s < P
    inner_h = P - s0 - D         # >= 0 <=>  the whole period stays below P
    n_checked = 0
    for n, arm, facts in pieces:
        try:
            F1 = cas.to_sympy(arm, env)
        except AnalysisError as e:
            raise AnalysisError(f"_charge: piece `{canon(arm)[:50]}`: {e}")
        F = F1.subs(D, D * tau)
        # which region predicates select this piece
        sel = {}
        for a, t in facts:
            c = cmp_norm(a, t)
            if not c or c[1] not in ("<", "<="):
                continue
            try:
                g = cas.compare_term(c, env)
            except AnalysisError:
                continue            # a fact about something else (noise level, pilot sign, ...)
            if g is None:
                continue
            for name, h in (("region", region_h), ("inner", inner_h)):
                sg = cas.ratio_sign(g, h)
                if sg is not None:
                    sel[name] = sg
        kind = "ramp" if sel.get("region") == -1 else "constant" if (sel.get("region") == 1 and sel.get("inner") == 1) else \
            "crossing" if (sel.get("region") == 1 and sel.get("inner") == -1) else None
        if kind is None:
            ck.violation(rid, f, n.stmt, f"the piece `{canon(arm)[:60]}` is not selected by the region predicates of the law (soc < P, soc + D <= P): found {sel}", sink="law:selection")
            continue
        n_checked += 1
        if kind == "constant":
            ok = [cas.is_zero(F.subs(tau, 0) - s0), cas.is_zero(S.diff(F, tau) - D)]
            what = "s(0) = s and ds/dtau = D (constant-power region)"
        elif kind == "ramp":
            ok = [cas.is_zero(F.subs(tau, 0) - s0), cas.is_zero(S.diff(F, tau) - D * (1 - F) / (1 - P))]
            what = "s(0) = s and ds/dtau = D (1 - s)/(1 - P) (ramp-down region)"
        else:
            tau1 = (P - s0) / D
            ok = [cas.is_zero(F.subs(tau, tau1) - P), cas.is_zero(S.diff(F, tau) - D * (1 - F) / (1 - P))]
            what = "s = P when the breakpoint is reached and ds/dtau = D (1 - s)/(1 - P) afterwards (period crossing the breakpoint)"
        if any(o is None for o in ok):
            raise AnalysisError(f"_charge: identity for the {kind} piece not decided by the algebra system")
        ck.require(all(ok), rid, f, n.stmt, ok=f"{kind} piece satisfies {what}",
                   bad=f"the {kind} piece `{canon(arm)[:70]}` does not satisfy {what}: it is not the solution of the documented two-stage law "
                       f"({'initial/entry condition' if not ok[0] else 'differential equation'} fails)", sink=f"law:{kind}")
    ck.floor(rid, n_checked, 3, "pieces checked against the law")


def run(ck):
    ck.attempt(rule_breakpoint)
    ck.attempt(rule_law)
    # the documented law charges at min(pilot, maximum) in the constant-power region: the pilot's SoC rate is capped before every use
    from .c03 import rule_pilot_cap
    ck.attempt(rule_pilot_cap, rid="C14.R6")
    ck.attempt(rule_ideal, rid="C14.R1")
    ck.attempt(rule_units)
    ck.attempt(rule_zero_pilot)
    ck.attempt(rule_reset)
    # the stored gain, the reported power and the returned rate carry the same energy (identity, shared with C02); the clamp operands
    # of the ideal law are the documented quantities (shared with C03)
    from .c02 import rule_gain_identity
    ck.attempt(rule_gain_identity, rid="C14.R8")
    from .c03 import rule_exact_bounds
    ck.attempt(rule_exact_bounds, rid="C14.R9")

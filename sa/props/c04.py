"""C04 - applied pilots are exactly what the submitted schedules say (structural part)."""
import ast

from ..core import AnalysisError, dotted, call_name, src, walk_local
from ..flow import edge_facts, leaves, linear, Lin
from ..rules import (flow_of, state_writes, facts_at, calls_in, bind_args, canon, lin, is_lin, cmp_norm, collect_list,
                     region, in_loop_within, visits_all_stations, is_station_pos, is_evse_at, uncopy)
from ..nullflow import check_queue_timestamp

EXPLANATION = ("Static rules over Simulator._update_schedules, _increase_width and ChargingNetwork.update_pilots: no path from "
               "the entry to a rejection (raise) or to the empty-schedule return passes through a store to simulator state "
               "(validate-before-write); the matrix that is written is built by iterating the network's station list, taking "
               "the mapping's row when present and a zero row otherwise (so mapping order is irrelevant and omitted stations "
               "get 0); every store into pilot_signals is the block [:, t : t+len) with t exactly the period counter, on both "
               "the fits and the grow branch, and the grown width covers t+len; every normal path other than the empty-schedule "
               "return performs that block write (an infeasible schedule only warns); _increase_width returns its argument or a "
               "fresh array into which the old content was copied; every arithmetic use of the queue's last timestamp is "
               "guarded against the empty queue; update_pilots sends column i to every EVSE unconditionally."
               ' Added in round 3: the decision table of BaseEVSE.set_pilot (an accepted pilot is latched exactly once also on a vacant station, overrides delegate), semantic forms of the content-preserving growth (zeros + copy, concatenate / hstack with the missing zero block, pad), the loop-structure rules of C01 incl. growth in every period.')
EXPLANATION += " Added in rounds 4-5: a schedule matrix that starts from pilots already stored, or whose rows are filled from the mapping's value sequence, is recognised and wrong; the unknown-station rejection may be written as an existence test; generic rules G4 / G5."
NOT_DECIDED = "equality of matrix contents over sequences of schedules; numpy broadcasting of int/float/array rows"


def lower_bounds(e, flow=None):
    """set of linear forms L such that value(e) >= L is guaranteed by the shape of e."""
    if isinstance(e, ast.Call) and call_name(e) == "__phi__":
        sets = [lower_bounds(a) for a in e.args]
        out = set(sets[0])
        for s in sets[1:]:
            out &= s
        return out
    if isinstance(e, ast.Call) and call_name(e) in ("max", "maximum") and e.args:
        args = e.args[0].elts if len(e.args) == 1 and isinstance(e.args[0], (ast.List, ast.Tuple)) else e.args
        out = set()
        for a in args:
            out |= lower_bounds(a)
        return out
    return {linear(e, norm=canon)}


def is_zero_row(e):
    if isinstance(e, ast.BinOp) and isinstance(e.op, ast.Mult):
        for a in (e.left, e.right):
            if isinstance(a, ast.List) and len(a.elts) == 1 and isinstance(a.elts[0], ast.Constant) and a.elts[0].value == 0:
                return True
    if isinstance(e, ast.Call) and call_name(e) == "zeros":
        return True
    if isinstance(e, ast.ListComp) and isinstance(e.elt, ast.Constant) and e.elt.value == 0:
        return True
    return False


def densified_in_station_order(ck, rid, f, fl, value, node, mapping, station_src):
    """value is a matrix whose rows follow station_src order: mapping[row id] if present else zeros."""
    # several reaching definitions (e.g. a fast path and the general path): every one of them must be densified
    v0 = value
    while isinstance(v0, ast.Call) and call_name(v0) in ("array", "asarray", "list", "tuple") and v0.args:
        v0 = v0.args[0]
    if isinstance(v0, ast.Name):
        defs = sorted(fl.defs_at(node, v0.id), key=lambda d: d.id)
        if len(defs) == 1 and fl.def_how(defs[0], v0.id)[0] == "assign" and isinstance(fl.def_how(defs[0], v0.id)[1], ast.Name) \
                and len(fl.defs_at(defs[0], fl.def_how(defs[0], v0.id)[1].id)) > 1:
            # a plain copy of a variable with several definitions (the result variable of an inlined helper with a fast path)
            return densified_in_station_order(ck, rid, f, fl, fl.def_how(defs[0], v0.id)[1], defs[0], mapping, station_src)
        if len(defs) > 1 and all(fl.def_how(d, v0.id)[0] == "assign" for d in defs):
            ok = True
            for d in defs:
                ok = densified_in_station_order(ck, rid, f, fl, fl.def_how(d, v0.id)[1], d, mapping, station_src) and ok
            return ok
    # recognised and wrong: the rows are taken in the mapping's own order
    if (isinstance(v0, ast.Call) and call_name(v0) in ("values", "items", "keys") and isinstance(v0.func, ast.Attribute) and canon(fl.expand(v0.func.value, node)) == mapping) \
            or (isinstance(v0, ast.Name) and v0.id == mapping):
        ck.violation(rid, f, value, f"the matrix rows are `{src(v0, 50)}`, i.e. in the order of the mapping's entries, not in the network's station order: "
                     f"rows are recorded for / applied to the wrong stations whenever the two orders differ", sink="densify-order")
        return False
    # recognised and wrong: the matrix starts from pilots that are already stored (a window of pilot_signals, a previous matrix kept on
    # the object) and only the rows the mapping names are replaced - "stations it omits get 0" fails for every omitted station
    if isinstance(v0, ast.Name):
        for d in sorted(fl.defs_at(node, v0.id), key=lambda d_: d_.id):
            how = fl.def_how(d, v0.id)
            if how[0] == "assign" and how[1] is not None:
                base = fl.expand(how[1], d)
                stale = sorted(x for x in leaves(base, calls=False) if x.startswith("self.") and x.split(".")[1] in ("pilot_signals", "charging_rates"))
                if stale:
                    ck.violation(rid, f, how[1], f"the matrix that is written starts out as `{src(how[1], 70)}`, i.e. from {stale[0]}: a station the new "
                                 "schedule omits keeps the pilot an earlier schedule planned for it instead of 0", sink="densify-row")
                    return False
    # recognised and wrong: rows of the matrix are filled (by mask, slice or fancy index) from the mapping's values in the mapping's own
    # order - `m[mask] = np.array(list(mapping.values()))` puts the k-th *listed* row on the k-th *selected* station
    if isinstance(v0, ast.Name):
        names, e_, nd_ = {v0.id}, v0, node
        for _ in range(6):              # the array may travel through result temporaries of an inlined helper
            ds = fl.defs_at(nd_, e_.id)
            if len(ds) != 1:
                break
            d_ = next(iter(ds))
            how_ = fl.def_how(d_, e_.id)
            if how_[0] == "assign" and isinstance(how_[1], ast.Name):
                e_, nd_ = how_[1], d_
                names.add(e_.id)
            else:
                break
        for nd in fl.cfg.nodes:
            if nd.kind == "stmt" and isinstance(nd.stmt, ast.Assign) and isinstance(nd.stmt.targets[0], ast.Subscript) and dotted(nd.stmt.targets[0].value) in names:
                xv = fl.expand(nd.stmt.value, nd)
                pos = [x for x in ast.walk(xv) if isinstance(x, ast.Call) and call_name(x) in ("values", "items") and isinstance(x.func, ast.Attribute)
                       and canon(x.func.value) == mapping]
                # a row taken by key for the station being filled (`m[row] = mapping[station]`) is fine; the mapping's value *sequence* is not
                if pos and not isinstance(fl.expand(nd.stmt.targets[0].slice, nd), ast.Constant):
                    ck.violation(rid, f, nd.stmt, f"rows of the matrix are filled from `{src(pos[0], 40)}`, i.e. in the order of the mapping's entries, not by station: "
                                 "a schedule listing the same stations in another order is applied to / checked for the wrong stations", sink="densify-order")
                    return False
    elems = collect_list(fl, value, node)
    if elems is None:
        raise AnalysisError(f"{f.qual}: construction of the schedule matrix not recognised: {src(value)}")
    ok_all = bool(elems)
    for elt, it in elems:
        order = it is not None and canon(it) in station_src
        ck.require(order, rid, f, it if it is not None else value, ok="rows follow the network's station order, not the mapping's order",
                   bad=f"the matrix must be built by iterating {station_src[0]} (station order); iterates {src(it) if it is not None else None}",
                   sink="densify-order")
        sid = f"__elem__({canon(it)})" if it is not None else None
        good = False
        if isinstance(elt, ast.IfExp):
            c = cmp_norm(elt.test)
            body, other = elt.body, elt.orelse
            if c and c[1] in ("in", "not in") and canon(c[2]) == mapping and canon(c[0]) == sid:
                if c[1] == "not in":
                    body, other = other, body
                good = isinstance(body, ast.Subscript) and canon(body.value) == mapping and canon(body.slice) == sid and is_zero_row(other)
        elif isinstance(elt, ast.Call) and call_name(elt) == "get" and canon(elt.func.value) == mapping and len(elt.args) == 2:
            good = canon(elt.args[0]) == sid and is_zero_row(elt.args[1])
        ck.require(good, rid, f, elt, ok="row = the mapping's entry for that station, a zero row when the station is omitted",
                   bad="each row must be mapping[station] when present and a zero row otherwise", sink="densify-row")
        ok_all = ok_all and order and good
    return ok_all


def _exists_unknown_key(e, sched):
    """the (expanded) condition is true exactly when some key of the mapping is not a station of the network:
    truthiness / len(..) > 0 of `[k for k in sched if k not in station_ids]`, `any(k not in station_ids for k in sched)`,
    truthiness of `set(sched) - set(station_ids)`"""
    STATIONS = ("self.network.station_ids", "self.network._EVSEs", "self.network._EVSEs.keys()")

    def keys_of_sched(it):
        c = canon(it)
        return c in (sched, f"{sched}.keys()", f"list({sched})", f"list({sched}.keys())", f"set({sched})")

    def unknown_test(t, var):
        c = cmp_norm(t)
        return bool(c) and c[1] == "not in" and canon(c[0]) == var and (canon(c[2]) in STATIONS or canon(c[2]) in tuple(f"set({x})" for x in STATIONS))
    c = cmp_norm(e)
    if c and c[1] == "<" and canon(c[0]) == "0" and isinstance(c[2], ast.Call) and call_name(c[2]) == "len" and c[2].args:
        e = c[2].args[0]
    if c and c[1] == "!=" and {canon(c[0]), "0"} == {canon(c[0]), canon(c[2])} and False:
        pass
    while isinstance(e, ast.Call) and call_name(e) in ("list", "tuple", "bool", "sorted", "set") and len(e.args) == 1:
        e = e.args[0]
    if isinstance(e, (ast.ListComp, ast.GeneratorExp, ast.SetComp)) and len(e.generators) == 1 and isinstance(e.generators[0].target, ast.Name):
        g = e.generators[0]
        return keys_of_sched(g.iter) and len(g.ifs) == 1 and unknown_test(g.ifs[0], g.target.id)
    if isinstance(e, ast.Call) and call_name(e) == "any" and len(e.args) == 1 and isinstance(e.args[0], (ast.GeneratorExp, ast.ListComp)):
        g0 = e.args[0]
        if len(g0.generators) == 1 and isinstance(g0.generators[0].target, ast.Name) and not g0.generators[0].ifs:
            return keys_of_sched(g0.generators[0].iter) and unknown_test(g0.elt, g0.generators[0].target.id)
    if isinstance(e, ast.BinOp) and isinstance(e.op, ast.Sub):
        return canon(e.left) in (f"set({sched})", f"set({sched}.keys())", f"{sched}.keys()") and canon(e.right) in tuple(f"set({x})" for x in STATIONS)
    return False


def rule_update_schedules(ck):
    repo = ck.repo
    us = repo.fn("Simulator._update_schedules")
    fl = flow_of(us)
    cfg = fl.cfg
    sched = us.params[1]
    ck.count("cfg_nodes(_update_schedules)", len(cfg.nodes))
    writes = state_writes(fl)
    wnodes = {n for n, _, _, _ in writes}

    # R1 validate-before-write
    raises = [n for n in cfg.nodes if n.kind == "raise"]
    ck.floor("C04.R1", len(raises), 2, "rejections (raise) in _update_schedules")
    for r in raises:
        before = [w for w in wnodes if r in cfg.reach(w)]
        ck.require(not before, "C04.R1", us, r.stmt, ok="a rejected schedule has changed nothing",
                   bad=f"`{src(before[0].stmt, 60) if before else ''}` can execute before this rejection", sink=f"write-before-raise:{_exc(r)}")
    kinds = {_exc(r) for r in raises}
    ck.require("KeyError" in kinds, "C04.R1", us, "raise KeyError", ok="unknown station rejected", bad="unknown stations are no longer rejected",
               sink="reject-unknown-station")
    ck.require("InvalidScheduleError" in kinds, "C04.R1", us, "raise InvalidScheduleError", ok="unequal lengths rejected",
               bad="rows of unequal length are no longer rejected", sink="reject-unequal")
    # the unknown-station test inspects every key of the mapping against the network's stations
    for r in raises:
        if _exc(r) == "KeyError":
            fs = [cmp_norm(a, t) for a, t in facts_at(fl, r)]
            ok = any(c and c[1] == "not in" and canon(uncopy(fl.expand(c[2], r))) == "self.network.station_ids"
                     and canon(fl.expand(c[0], r)) in (f"__elem__({sched})", f"__key__({sched})") for c in fs)
            ok = ok or any(t and _exists_unknown_key(fl.expand(a, r), sched) for a, t in facts_at(fl, r))
            ck.require(ok, "C04.R1", us, r.stmt, ok="every key of the mapping is checked against network.station_ids",
                       bad="the unknown-station rejection must test each key of the mapping against network.station_ids", sink="reject-unknown-test")
        if _exc(r) == "InvalidScheduleError":
            fs = [cmp_norm(fl.expand(a, r), t) for a, t in facts_at(fl, r)]
            ok = any(c and c[1] == "<" and canon(c[0]) == "1" and "len(" in canon(c[2]) and sched in canon(c[2]) for c in fs)
            ck.require(ok, "C04.R1", us, r.stmt, ok="rejected when more than one distinct row length exists",
                       bad="the unequal-length rejection must fire when the set of row lengths has more than one element", sink="reject-unequal-test")
    empties = []
    from ..rules import emptiness
    for n in cfg.nodes:
        if n.kind == "return" and emptiness(fl, n, sched) == "empty":
            empties.append(n)
            continue
        if n.kind == "return":
            for a, t in facts_at(fl, n):
                c = cmp_norm(a, t)
                if (c and c[1] == "==" and {canon(c[0]), canon(c[2])} == {f"len({sched})", "0"}) or (canon(a) == sched and not t):
                    empties.append(n)
    ck.require(len(empties) >= 1, "C04.R1", us, "if len(new_schedule) == 0: return", ok="empty schedule returns early",
               bad="the empty-schedule early return is gone", sink="empty-return")
    for e in empties:
        before = [w for w in wnodes if e in cfg.reach(w)]
        ck.require(not before, "C04.R1", us, e.stmt, ok="an empty schedule changes nothing", bad="a store precedes the empty-schedule return",
                   sink="write-before-empty-return")

    # R3 block writes
    blocks = [(n, t) for n, k, p, t in writes if p == "self.pilot_signals" and k == "subassign"]
    others = [(n, k, p, t) for n, k, p, t in writes if not (p == "self.pilot_signals")]
    ck.require(len(blocks) >= 1, "C04.R3", us, "self.pilot_signals[:, t:t+len] = schedule_matrix", bad="no block write into pilot_signals",
               sink="block-exists")
    length_atom = None
    for n, t in blocks:
        sl = t.slice
        ok = isinstance(sl, ast.Tuple) and len(sl.elts) == 2 and isinstance(sl.elts[0], ast.Slice) and sl.elts[0].lower is None \
            and sl.elts[0].upper is None and isinstance(sl.elts[1], ast.Slice) and sl.elts[1].step is None \
            and sl.elts[1].lower is not None and sl.elts[1].upper is not None
        lo_ok = hi_ok = False
        if ok:
            lo = lin(fl, sl.elts[1].lower, n)
            hi = lin(fl, sl.elts[1].upper, n)
            lo_ok = lo == Lin({"self._iteration": 1})
            d = hi - lo
            hi_ok = d.c == 0 and len(d.t) == 1 and list(d.t.values())[0] == 1 and sched in list(d.t)[0]
            if hi_ok:
                length_atom = list(d.t)[0]
        ck.require(ok and lo_ok, "C04.R3", us, t, ok="all rows, columns starting at exactly the current period",
                   bad="the block must be [:, self._iteration : ...] (all stations, starting at exactly the current period)", sink="block-start")
        ck.require(ok and hi_ok, "C04.R3", us, t, ok="columns end at t + schedule length",
                   bad="the block must end at self._iteration + schedule length", sink="block-end")
        # R2 on the written value
        densified_in_station_order(ck, "C04.R2", us, fl, n.stmt.value, n, sched, ("self.network.station_ids",))
    # every normal path (other than the empty-schedule return) writes the block
    avoid = {n for n, _ in blocks} | set(empties)
    ck.require(cfg.exit not in cfg.reach(cfg.entry, avoid=avoid), "C04.R3", us, "block write on every accepting path",
               ok="every accepted non-empty schedule is written", bad="a path through _update_schedules returns without writing the accepted schedule",
               sink="block-every-path")
    # grow branch: width covers t+len
    grows = [(n, c) for n, c in calls_in(fl, "_increase_width")]
    for n, c in grows:
        inc = repo.fn("_increase_width")
        b = bind_args(c, inc)
        tw = fl.expand(b["target_width"], n) if "target_width" in b else None
        need = Lin({"self._iteration": 1, length_atom: 1}) if length_atom else None
        ok = tw is not None and need is not None and need in lower_bounds(tw)
        ck.require(ok, "C04.R3", us, c, ok="the grown width covers the block", bad="the grown width is not guaranteed to reach self._iteration + schedule length",
                   sink="grow-covers")
        ck.require(canon(fl.expand(b.get("a", ast.Constant(value=None)), n)) == "self.pilot_signals", "C04.R3", us, c,
                   ok="grows the pilot matrix itself", bad="_increase_width must be applied to self.pilot_signals", sink="grow-arg")
    # fits test: on every path to a block write the block either fits (`t + len <= width`) or the matrix was grown first
    def fits_edge(e):
        if e.kind != "edge" or e.test.kind != "test":
            return False
        for a_, tr in edge_facts(e.test.expr, e.label):
            c = cmp_norm(fl.expand(a_, e.test), tr)
            if c and c[1] in ("<=",) and "self.pilot_signals.shape[1]" == canon(c[2]):
                f_ = linear(c[0], norm=canon)
                if length_atom and f_ == Lin({"self._iteration": 1, length_atom: 1}):
                    return True
        return False
    safe = {e for e in cfg.nodes if fits_edge(e)} | {g for g, _ in grows}
    for n, t in blocks:
        ck.require(n not in cfg.reach(cfg.entry, avoid=safe), "C04.R3", us, t, ok="written only when the block fits or after growing",
                   bad="a path reaches the block write although the block neither fits nor was the matrix grown", sink="block-fits-or-grown")

    # R7 infeasible => warn, not reject
    infeas = [n for n in cfg.nodes if n.kind == "edge" and n.test.kind == "test"
              and any(isinstance(a, ast.Call) and call_name(a) == "is_feasible" and not t for a, t in edge_facts(n.test.expr, n.label))]
    ck.require(len(infeas) >= 1, "C04.R7", us, "if not self.network.is_feasible(schedule_matrix)", bad="infeasibility is no longer detected (warning gone)",
               sink="infeasible-test")
    for e in infeas:
        reg = region(fl, e)
        bad = [n for n in reg if n.kind in ("return", "raise")]
        warns = [n for n in reg if any(isinstance(x, ast.Call) and call_name(x) == "warn" for ex in cfg.node_exprs(n) for x in ast.walk(ex))]
        ck.require(not bad, "C04.R7", us, bad[0].stmt if bad else e.test.expr, ok="an infeasible schedule is applied with a warning",
                   bad="the infeasible branch returns/raises: the schedule would be dropped", sink="infeasible-drops")
        ck.require(bool(warns), "C04.R7", us, e.test.expr, ok="warning emitted", bad="no warning on the infeasible branch", sink="infeasible-warn")
        # the checked matrix is the written one
        call = [a for a, t in edge_facts(e.test.expr, e.label) if isinstance(a, ast.Call) and call_name(a) == "is_feasible"][0]
        same = blocks and call.args and canon(fl.expand(call.args[0], e.test)) == canon(fl.expand(blocks[0][0].stmt.value, blocks[0][0]))
        ck.require(bool(same), "C04.R7", us, call, ok="feasibility is checked on the matrix that is written",
                   bad="the matrix checked for feasibility is not the one written", sink="infeasible-same-matrix")
    return us, fl


def _exc(r):
    e = r.stmt.exc
    return call_name(e) if isinstance(e, ast.Call) else (dotted(e) or "?")


def rule_increase_width(ck, rid="C04.R4"):
    """_increase_width(a, w): `a` itself only when w <= a.shape[1]; otherwise a matrix of w columns whose first a.shape[1] columns are a
    and whose remaining columns are zero.  Recognised constructions: zeros((rows, w)) + block copy; concatenate / hstack of a and a
    zeros((rows, w - a.shape[1])) block; np.pad of the column axis by (0, w - a.shape[1])."""
    repo = ck.repo
    f = repo.fn("_increase_width")
    fl = flow_of(f)
    a, tw = f.params[0], f.params[1]
    width = f"{a}.shape[1]"
    need = Lin({tw: 1, width: -1})            # "wide enough"  <=>  need <= 0
    rets = [n for n in fl.cfg.nodes if n.kind == "return"]
    ck.floor(rid, len(rets), 1, "returns of _increase_width")
    falls = [p_ for p_ in fl.cfg.exit.pred if p_.kind != "return"]
    ck.require(not falls, rid, f, falls[0].stmt if falls and falls[0].stmt is not None else "end of function", ok="every path returns an array",
               bad="_increase_width can fall off the end and return None: the history matrix is replaced by None", sink="falls-off")

    def same_array(e):
        e = e
        while isinstance(e, ast.Call) and call_name(e) in ("asarray", "array", "ascontiguousarray", "copy", "atleast_2d") and e.args:
            e = e.args[0]
        return canon(e) == a

    def zeros_block(e, cols_lin):
        if not (isinstance(e, ast.Call) and call_name(e) in ("zeros", "full") and e.args):
            return False
        shp = e.args[0]
        if call_name(e) == "full" and not (len(e.args) > 1 and isinstance(e.args[1], ast.Constant) and e.args[1].value == 0):
            return False
        if not (isinstance(shp, (ast.Tuple, ast.List)) and len(shp.elts) == 2):
            return False
        return canon(shp.elts[0]) in (f"{a}.shape[0]", f"len({a})") and linear(shp.elts[1], norm=canon) == cols_lin
    for r in rets:
        v = r.expr
        ex = fl.expand(v, r) if v is not None else None
        if ex is not None and canon(ex) == a:
            ok = False
            for x, t in facts_at(fl, r):
                c = cmp_norm(fl.expand(x, r), t)
                if c and c[1] in ("<=", "<"):
                    d = linear(c[0], norm=canon) - linear(c[2], norm=canon)
                    if d == need:
                        ok = True
            ck.require(ok, rid, f, r.stmt, ok="unchanged array only when it is already wide enough",
                       bad="the unchanged array may be returned although it is too narrow", sink="return-unchanged")
            continue
        if ex is None:
            raise AnalysisError(f"_increase_width: return form not recognised: {src(r.stmt)}")
        # recognised and wrong: a slice / selection of the argument - columns beyond the cut are dropped (the function only ever grows)
        if isinstance(ex, ast.Subscript) and same_array(ex.value) and any(isinstance(x, ast.Slice) and (x.upper is not None or x.lower is not None or x.step is not None)
                                                                         for x in (ex.slice.elts if isinstance(ex.slice, ast.Tuple) else [ex.slice])):
            ck.violation(rid, f, r.stmt, f"`{src(ex, 60)}` returns a cut of the matrix: when it is already wider than the target, the columns beyond the target "
                         "(pilots of a schedule that reaches past the last known event) are thrown away", sink="return-unchanged")
            continue
        # (b) concatenation of the array and a zero block of the missing width
        if isinstance(ex, ast.Call) and call_name(ex) in ("concatenate", "hstack", "append") and ex.args:
            parts = ex.args[0].elts if isinstance(ex.args[0], (ast.Tuple, ast.List)) else list(ex.args[:2])
            axis_ok = call_name(ex) == "hstack" or any(k.arg == "axis" and isinstance(k.value, ast.Constant) and k.value.value in (1, -1) for k in ex.keywords)
            ok = len(parts) == 2 and axis_ok and same_array(parts[0]) and zeros_block(parts[1], need)
            ck.require(ok, rid, f, r.stmt, ok="existing columns followed by the missing zero columns",
                       bad=f"the grown matrix `{src(ex, 70)}` is not [a | zeros(rows, target_width - a.shape[1])] along the period axis", sink="grown-concat")
            continue
        if isinstance(ex, ast.Call) and call_name(ex) == "pad" and len(ex.args) >= 2:
            pw = ex.args[1]
            ok = same_array(ex.args[0]) and isinstance(pw, (ast.Tuple, ast.List)) and len(pw.elts) == 2 and canon(pw.elts[0]) in ("(0, 0)", "[0, 0]") and \
                isinstance(pw.elts[1], (ast.Tuple, ast.List)) and len(pw.elts[1].elts) == 2 and canon(pw.elts[1].elts[0]) == "0" and \
                linear(pw.elts[1].elts[1], norm=canon) == need
            ck.require(ok, rid, f, r.stmt, ok="zero-padded on the right of the period axis", bad=f"`{src(ex, 70)}` does not pad (0, target_width - a.shape[1]) zero columns on the period axis",
                       sink="grown-pad")
            continue
        if not isinstance(v, ast.Name):
            raise AnalysisError(f"_increase_width: return form not recognised: {src(r.stmt)}")
        name = v.id
        init = ex
        fresh = isinstance(init, ast.Call) and call_name(init) in ("zeros", "zeros_like", "full") and tw in canon(init) and f"{a}.shape[0]" in canon(init)
        ck.require(fresh, rid, f, r.stmt, ok="fresh zero matrix of the target width", bad="the grown matrix must be zeros((a.shape[0], target_width))",
                   sink="grown-fresh")
        copies = []
        for n in fl.cfg.nodes:
            if n.kind == "stmt" and isinstance(n.stmt, ast.Assign):
                for t in n.stmt.targets:
                    if isinstance(t, ast.Subscript) and dotted(t.value) == name and isinstance(t.slice, ast.Tuple) and len(t.slice.elts) == 2:
                        r0, r1 = t.slice.elts
                        if isinstance(r0, ast.Slice) and r0.lower is None and r0.upper is None and isinstance(r1, ast.Slice) \
                                and r1.lower is None and r1.upper is not None and canon(fl.expand(r1.upper, n)) == f"{a}.shape[1]" \
                                and canon(fl.expand(n.stmt.value, n)) == a and fl.cfg.dominates(n, r):
                            copies.append(n)
        ck.require(bool(copies), rid, f, r.stmt, ok="existing content copied into the first a.shape[1] columns",
                   bad="the grown matrix does not receive the existing content (`new[:, :a.shape[1]] = a` missing)", sink="grown-copy")


def rule_none(ck, rid="C04.R5"):
    repo = ck.repo
    n = 0
    for q in ("Simulator.__init__", "Simulator.run", "Simulator._update_schedules", "Simulator._store_actual_charging_rates"):
        n += check_queue_timestamp(ck, rid, repo.fn(q))
    ck.floor(rid, n, 1, "arithmetic uses of get_last_timestamp() in Simulator")


def rule_broadcast(ck, rid="C04.R6"):
    repo = ck.repo
    up = repo.fn("ChargingNetwork.update_pilots")
    fl = flow_of(up)
    cfg = fl.cfg
    pilots, i = up.params[1], up.params[2]
    sp = calls_in(fl, "set_pilot")
    ck.require(len(sp) == 1, rid, up, sp[0][1] if sp else "set_pilot(...)", bad=f"{len(sp)} set_pilot call sites (need 1)", sink="set_pilot-count")
    if len(sp) != 1:
        return
    n, c = sp[0]
    loops = [t for t, lab in cfg.edges_dominating(n) if t.kind == "for" and lab is True]
    if len(loops) != 1:
        raise AnalysisError("update_pilots: expected set_pilot inside exactly one for loop")
    head = loops[0]
    it = fl.expand(head.stmt.iter, head)
    ci = canon(it)
    ok_iter = visits_all_stations(it)
    ck.require(ok_iter, rid, up, head.stmt.iter, ok="loops over every registered station", bad=f"update_pilots must visit every station index; iterates {ci}",
               sink="broadcast-iter")
    true_edge = [s for s in head.succ if s.kind == "edge" and s.label][0]
    ck.require(head not in cfg.reach(true_edge, avoid={n, cfg.raise_exit}), rid, up, c, ok="set_pilot is unconditional (vacant stations included)",
               bad="some station can be skipped: set_pilot is not on every path of the loop body", sink="broadcast-unconditional")
    evse = repo.cls("BaseEVSE")
    b = bind_args(c, repo.method(evse, "set_pilot"))
    pv = fl.expand(b["pilot"], n) if "pilot" in b else None
    ok = False
    idx_s = None
    if isinstance(pv, ast.Subscript) and canon(pv.value) == pilots and isinstance(pv.slice, ast.Tuple) and len(pv.slice.elts) == 2:
        row, col = pv.slice.elts
        idx_s = canon(row)
        ok = is_station_pos(idx_s) and linear(col, norm=canon) == Lin({i: 1})
    ck.require(ok, rid, up, c, ok="pilot = pilots[station number, i] (exactly column i)", bad="the pilot sent must be pilots[<station index>, i] with exactly the given period",
               sink="broadcast-cell")
    recv = fl.expand(c.func.value, n)
    ok = idx_s is not None and is_evse_at(canon(recv), idx_s)
    ck.require(ok, rid, up, c.func.value, ok="the EVSE is the one at the same station number", bad="the EVSE receiving the pilot is not the station of the same index",
               sink="broadcast-evse")


def rule_writers(ck, rid="C04.R8"):
    """only the block write of _update_schedules, the content-preserving growth and (de)construction write pilot_signals."""
    from ..rules import who_writes
    repo = ck.repo
    n = 0
    for f, kind, p, t in who_writes(repo, "pilot_signals"):
        if "/tests/" in f.module or not p.startswith(("self.", "out_obj.", "sim.", "simulator.")):
            continue
        n += 1
        if f.qual in ("Simulator.__init__", "Simulator._from_dict"):
            ck.holds(rid, f, t, "construction / restore")
            continue
        if f.qual == "Simulator._update_schedules":
            ck.holds(rid, f, t, "the block write and growth checked by R3/R4")
            continue
        fl = flow_of(f)
        node = None
        for nd in fl.cfg.nodes:
            if nd.kind == "stmt" and any(x is t for x in ast.walk(nd.stmt)):
                node = nd
        grow = node is not None and kind == "assign" and isinstance(node.stmt.value, ast.Call) and call_name(node.stmt.value) == "_increase_width" \
            and node.stmt.value.args and canon(node.stmt.value.args[0]) == p
        ck.require(grow and f.qual in ("Simulator.run", "Simulator.step"), rid, f, node.stmt if node is not None else t, ok="content-preserving growth of the matrix",
                   bad=f"`{src(node.stmt if node is not None else t, 70)}` writes pilot_signals outside _update_schedules: pilots of periods a submitted schedule covers are "
                       f"overwritten by something other than a schedule", sink=f"writer:{f.qual}:{kind}")
    ck.floor(rid, n, 4, "writers of pilot_signals")



def rule_float_storage(ck, rid="C04.R11", attrs=("pilot_signals",)):
    """`equals the value of the latest submitted schedule`: the matrix the pilots are kept in holds them as given - every allocation that is
    stored into it (Simulator.__init__, the growth helper, restore) is a floating-point array: no integer / boolean dtype that would
    truncate 7.5 A to 7 A on assignment"""
    from ..rules import who_writes
    repo = ck.repo
    n = 0
    INT_DT = {"int", "bool", "np.int64", "np.int32", "np.int_", "np.intc", "np.uint8", "np.bool_", "'int'", "'int64'", "'i'", "'i8'", "'bool'", "np.int16", "np.uint32", "np.uint64"}
    fns = {}
    for a_ in attrs:
        for f, kind, path, node in who_writes(repo, a_):
            if "/tests/" in f.module or kind != "assign":
                continue
            fns[(f.qual, f.module)] = f
    helper = repo.fn("_increase_width", optional=True)
    if helper is not None:
        fns[(helper.qual, helper.module)] = helper
    for f in fns.values():
        fl = flow_of(f)
        for nd in fl.cfg.nodes:
            for e in fl.cfg.node_exprs(nd):
                for c in [e] + list(walk_local(e)):
                    if not (isinstance(c, ast.Call) and call_name(c) in ("zeros", "empty", "ones", "full", "zeros_like", "empty_like", "full_like", "astype", "array", "asarray")):
                        continue
                    dt = next((k.value for k in c.keywords if k.arg == "dtype"), None)
                    if call_name(c) == "astype" and c.args:
                        dt = c.args[0]
                    if call_name(c) in ("zeros", "empty", "ones") and len(c.args) >= 2:
                        dt = c.args[1]
                    # only allocations that reach one of the matrices (or the growth helper's result)
                    reaches = f is helper or any(isinstance(t, ast.Attribute) and t.attr in attrs for st in ast.walk(f.node) if isinstance(st, ast.Assign)
                                                 for t in st.targets if any(x is c for x in ast.walk(st.value)))
                    if not reaches:
                        continue
                    n += 1
                    bad = dt is not None and canon(dt) in INT_DT
                    ck.require(not bad, rid, f, c, ok="floating-point storage", bad=f"`{src(c, 70)}` allocates the matrix with dtype {canon(dt) if dt is not None else ''}: a fractional "
                               "pilot written into it is truncated, the stored value is no longer the scheduled one", sink=f"dtype:{f.qual}", positive=True)
    ck.floor(rid, n, 2, "allocations reaching the recorded matrices")

def run(ck):
    ck.attempt(rule_writers)
    ck.attempt(rule_update_schedules)
    ck.attempt(rule_increase_width)
    ck.attempt(rule_float_storage)
    ck.attempt(rule_none)
    ck.attempt(rule_broadcast)
    # "the pilot applied to each station is the scheduled value": what update_pilots sends is latched by every EVSE, occupied or not
    from .c13 import rule_set_pilot_table
    ck.attempt(rule_set_pilot_table, rid="C04.R9")
    # the period loop: pilots of period t are sent after the period's schedule was written, from column t exactly, and the history
    # matrices are grown (content-preserving) to cover column t in every period (shared with C01)
    from .c01 import rule_loop
    ck.attempt(rule_loop, rid="C04.R10")
    # "the latest submitted schedule": what is handed to _update_schedules is the mapping the scheduler returned, entry for entry
    # (flow rule of C05 on the period loop; reports under its C05 ids)
    from .c05 import rule_order
    ck.attempt(rule_order)


"""C03 - physical bounds: 0 <= actual rate <= pilot, power <= max, charge <= capacity (partial, structural)."""
import ast

from ..core import AnalysisError, dotted, call_name, src, walk_local
from ..flow import leaves
from ..rules import flow_of, state_writes, facts_at, canon, cmp_norm, gexpand, fold_compare, alts_deep, specialise
from ..bounds import upper_bounds, taint, contains_noise, sig, MIN_NAMES

EXPLANATION = ("Clamp discipline decided on def-use-expanded expressions: (R1) the ideal battery's granted power is a minimum "
               "whose operands cover pilot x voltage, the maximum power and the fill rate; (R2) every definition of the "
               "stepwise routine's power that reaches the state update is bounded above, by construction, by the pilot "
               "power, the (declining) maximum power and the fill rate - also after noise was added; (R3) noise taint: at "
               "every store to stored charge / charging power and every return of the three charge routines, a value that "
               "noise may have lowered has passed a max(., clean) and one it may have raised a min(., clean...); (R4) in the "
               "continuous routine the pilot's SoC rate is capped by the maximum SoC rate before any use; (R5) constructor "
               "and reset store a caller-supplied charge only on the non-rejecting edge of `charge > capacity`, whose other "
               "edge raises; (R8) the region tests and the pieces of the continuous closed form use the same (pilot-adjusted) breakpoint - with "
               "the nominal one in either, the piece is evaluated outside its region and the rate leaves [0, pilot]; (R9) every piece of the "
               "continuous closed form satisfies, as an identity decided by computer algebra on the source expressions, the differential law "
               "ds/dtau = D resp. D(1-s)/(1-P) with its entry condition, and is selected by the law's region predicates; (R6) the EVSE stores exactly the validated pilot it forwards to the EV."
               ' Added in round 3: the constructor / reset guards are decided on decision tables with propositional path conditions; the recorded rate is the value the battery returned for this pilot and every battery entry point delegates once (shared with C02); each gated alternative of the stepwise power is judged on its own.'
               ' Added after the mutation matrix: each clamp operand is the documented quantity as an identity (fill rate, pilot power, declining maximum).')
EXPLANATION += ' Added in rounds 4-5: the cap of the pilot rate may live in a second variable (capped = min(raw, maximum)); per-region stores of the stepwise routine are judged per reaching definition; generic rules G4 / G5.'
NOT_DECIDED = ("the last step from `every piece solves ds/dtau = r(s), 0 <= r <= D` (R9, decided) to `0 <= gain <= D` is the comparison "
               "theorem for ODEs, taken from analysis and not mechanised; floating-point rounding of exp near SoC = 1")

FILL = frozenset({"self._capacity", "self._current_charge", "period"})
MAXP = frozenset({"self._max_power"})


def pilot_power(f):
    return frozenset({f.params[1], f.params[2]})


def _power_store(fl):
    st = [(n, t) for n, k, p, t in state_writes(fl) if p == "self._current_charging_power"
          and not (isinstance(n.stmt, ast.Assign) and isinstance(n.stmt.value, ast.Constant))]
    return st


def rule_ideal(ck, rid="C03.R1"):
    repo = ck.repo
    f = repo.fn("Battery.charge")
    fl = flow_of(f)
    st = _power_store(fl)
    ck.require(len(st) == 1, rid, f, st[0][1] if st else "self._current_charging_power = ...", bad="store of the granted power not found", sink="power-store")
    for n, t in st:
        e = fl.expand(n.stmt.value, n)
        ub = upper_bounds(e)
        for name, s in (("pilot x voltage", pilot_power(f)), ("maximum power", MAXP), ("power that exactly fills the battery", FILL)):
            ck.require(s in ub, rid, f, n.stmt.value, ok=f"granted power <= {name}",
                       bad=f"the ideal battery's granted power is not bounded by {name} (bounds found: {[sorted(x) for x in ub]})", sink=f"ideal-min:{name}")
        ck.require(isinstance(e, ast.Call) and call_name(e) in MIN_NAMES, rid, f, n.stmt.value, ok="the granted power is exactly that minimum",
                   bad="the ideal law is min(pilot power, max power, fill rate)", sink="ideal-is-min")


def rule_exact_bounds(ck, rid="C03.R12"):
    """the bounds the clamps apply are the right quantities, as identities between source expressions (term rewriting): the operand that
    depends on (capacity, charge, period) is the power that exactly fills the battery, (capacity - charge) / (period / 60); the operand
    that depends on (pilot, voltage) is pilot x voltage / 1000; the declining maximum of the stepwise model is
    (1 - soc) / (1 - transition soc) x max power - a clamp on the wrong expression bounds nothing."""
    from .. import cas
    from ..bounds import _args, MIN_NAMES
    repo = ck.repo
    S = cas.sp()
    T, V, C, q0, I, M, ts = S.symbols("T V C q0 I M ts", positive=True)
    n_ops = 0
    for q in ("Battery.charge", "Linear2StageBattery._charge_stepwise"):
        f = repo.fn(q)
        fl = flow_of(f)
        pilot, voltage, period = f.params[1:4]
        env = {period: T, voltage: V, pilot: I, "self._capacity": C, "self._current_charge": q0, "self._soc": q0 / C, "self.soc": q0 / C,
               "self._max_power": M, "self._transition_soc": ts}
        want = {FILL: ((C - q0) * 60 / T, "(capacity - charge) / (period / 60)"),
                pilot_power(f): (I * V / 1000, "pilot x voltage / 1000"),
                frozenset({"self._soc", "self._transition_soc", "self._max_power"}): ((1 - q0 / C) / (1 - ts) * M, "(1 - soc) / (1 - transition soc) x max power")}
        seen = set()
        for n in fl.cfg.nodes:
            for e in fl.cfg.node_exprs(n):
                for c in [x for x in [e] + list(__import__("sa.core", fromlist=["walk_local"]).walk_local(e)) if isinstance(x, ast.Call) and call_name(x) in MIN_NAMES]:
                    for a in _args(fl.expand(c, n)):
                        sg = frozenset(sig(a))
                        if sg not in want or "normal(" in canon(a) or canon(a) in seen:
                            continue
                        seen.add(canon(a))
                        try:
                            t_ = cas.to_sympy(a, env)
                        except AnalysisError:
                            continue
                        z = cas.is_zero(t_ - want[sg][0])
                        n_ops += 1
                        if z is None:
                            raise AnalysisError(f"{q}: identity for the bound `{src(a, 50)}` not decided by the algebra system")
                        ck.require(z, rid, f, c, ok=f"bound = {want[sg][1]}", bad=f"the clamp operand `{src(a, 70)}` is not {want[sg][1]}: the limit it enforces is a different quantity",
                                   sink=f"{q}:bound:{want[sg][1][:12]}")
    ck.floor(rid, n_ops, 4, "clamp operands of the ideal and the stepwise routine")


def rule_stepwise(ck, rid="C03.R2"):
    repo = ck.repo
    f = repo.fn("Linear2StageBattery._charge_stepwise")
    fl = flow_of(f)
    st = _power_store(fl)
    # one store after the two regions, or one store per region (early-return form): every definition of the stored variable that
    # reaches any of the stores is judged in the region(s) its path conditions allow
    if not st or not all(isinstance(x[0].stmt, ast.Assign) and isinstance(x[0].stmt.value, ast.Name) for x in st) \
            or len({x[0].stmt.value.id for x in st}) != 1:
        raise AnalysisError("_charge_stepwise: store of the granted power not recognised")
    var = st[0][0].stmt.value.id
    defs = set()
    for n, t in st:
        defs |= set(fl.defs_at(n, var))
    ck.floor(rid, len(defs), 2, "definitions of the granted power reaching the state update")
    DECL = frozenset({"self._soc", "self._transition_soc", "self._max_power"})

    def region(pre):
        def decide(l, op, r):
            if {l, r} != {"self._soc", "self._transition_soc"}:
                return None
            below = (l == "self._soc")          # soc (op) transition
            if op in ("<", "<="):
                return pre if below else not pre
            return None
        return decide
    n_cases = 0
    for d in sorted(defs, key=lambda x: x.id):
        how = fl.def_how(d, var)
        if how[0] != "assign":
            raise AnalysisError(f"_charge_stepwise: definition form of {var} not recognised")
        e0 = gexpand(fl, how[1], d)
        feasible = []
        for pre in (True, False):
            ok = True
            for a, tr in facts_at(fl, d):
                v = fold_compare(gexpand(fl, a, d), region(pre))
                if isinstance(v, ast.Constant) and isinstance(v.value, bool) and v.value != tr:
                    ok = False
            if ok:
                feasible.append(pre)
        if not feasible:
            raise AnalysisError("_charge_stepwise: cannot tell the pre-transition from the rampdown branch")
        for pre in feasible:
            e_all = fold_compare(e0, region(pre))
            if "__gamma__" in canon(e_all) and "self._transition_soc" in canon(e_all):
                raise AnalysisError("_charge_stepwise: a region-dependent choice is not decided by `soc < transition soc`")
            # a value chosen by a remaining test (noise on / off) is judged alternative by alternative: each one reaches the state on
            # its own path and must carry its own bounds
            alts = alts_deep(specialise(e_all, {}), limit=8) if ("__gamma__" in canon(e_all) or "__phi__" in canon(e_all)) else [e_all]
            for e in alts:
                n_cases += 1
                noisy = contains_noise(e)
                ub = upper_bounds(e)
                need = [("pilot x voltage", pilot_power(f)), ("fill rate", FILL)]
                if pre or noisy:
                    need.append(("maximum power", MAXP))
                if not pre:
                    # the declining maximum bounds the clean value; after additive noise the hard maximum must bound it
                    if not noisy:
                        need.append(("declining maximum power", DECL))
                for name, s_ in need:
                    ok = s_ in ub or (s_ == MAXP and not noisy and DECL in ub and not pre)
                    ck.require(ok, rid, f, how[1], ok=f"{'pre-transition' if pre else 'rampdown'}{' + noise' if noisy else ''}: power <= {name}",
                               bad=f"{'pre-transition' if pre else 'rampdown'}{' + noise' if noisy else ''} branch: the power reaching the battery state is not bounded by {name}",
                               sink=f"stepwise:{'pre' if pre else 'ramp'}:{'noise' if noisy else 'clean'}:{name}")
    ck.floor(rid, n_cases, 3, "(definition, region) cases of the granted power")


def rule_taint(ck, rid="C03.R3"):
    repo = ck.repo
    n_sinks = 0
    for q in ("Battery.charge", "Linear2StageBattery._charge", "Linear2StageBattery._charge_stepwise"):
        f = repo.fn(q)
        fl = flow_of(f, track_self=True)
        sinks = []
        for n, k, p, t in state_writes(fl):
            if p in ("self._current_charge", "self._current_charging_power"):
                v = n.stmt.value if not isinstance(n.stmt, ast.AugAssign) else ast.BinOp(left=n.stmt.target, op=n.stmt.op, right=n.stmt.value)
                sinks.append((n, v, p.split(".")[-1]))
        for r in fl.cfg.nodes:
            if r.kind == "return" and r.expr is not None:
                sinks.append((r, r.expr, "return"))
        for n, v, name in sinks:
            n_sinks += 1
            lo, hi = taint(fl.expand(v, n, depth=12))
            ck.require(not lo, rid, f, n.stmt, ok="noise cannot push this value below its clean lower bound",
                       bad=f"noise can lower `{name}` without a lower clamp (max(., bound)): negative rate / decreasing charge possible", sink=f"noise-lower:{name}")
            ck.require(not hi, rid, f, n.stmt, ok="noise cannot push this value above its clean upper bounds",
                       bad=f"noise can raise `{name}` without an upper clamp (min(., bounds))", sink=f"noise-upper:{name}")
    ck.floor(rid, n_sinks, 9, "state/return sinks of the charge routines")


def rate_vars(fl, f):
    """({pilot SoC-rate variable: [definition nodes]}, maximum SoC-rate variable) of the continuous routine"""
    cfg = fl.cfg
    # the pilot-derived SoC rate and the maximum SoC rate are identified by influence, not by name
    cand = {}
    for n in cfg.nodes:
        for nm, how in fl._defs.get(n, {}).items():
            if how[0] == "assign":
                lv = sig(fl.expand(how[1], n))
                if {f.params[1], f.params[2], "self._capacity"} <= lv and "self._max_power" not in lv and "__loop__" not in canon(fl.expand(how[1], n)):
                    if not any(x.startswith("self._transition") or x == "self._soc" for x in lv):
                        cand.setdefault(nm, []).append(n)
    maxn = None
    for n in cfg.nodes:
        for nm, how in fl._defs.get(n, {}).items():
            if how[0] == "assign" and not isinstance(how[1], ast.Name) and nm not in cand \
                    and sig(fl.expand(how[1], n)) == frozenset({"self._max_power", "self._capacity", f.params[3]}):
                maxn = nm
    if len(cand) != 1 or maxn is None:
        raise AnalysisError(f"_charge: pilot SoC rate / maximum SoC rate not identified (candidates {sorted(cand)}, max {maxn})")
    return cand, maxn


def capped_aliases(fl, var, maxn):
    """names defined as min(<var>, <maxn>) (any argument order / list form): the cap written into a second variable"""
    out = set()
    for n in fl.cfg.nodes:
        for nm, how in fl._defs.get(n, {}).items():
            if nm == var or how[0] != "assign" or how[1] is None:
                continue
            v = how[1]
            if isinstance(v, ast.Call) and call_name(v) in MIN_NAMES:
                names = {x.id for x in ast.walk(v) if isinstance(x, ast.Name)}
                if var in names and maxn in names and names <= {var, maxn, "np", "numpy", "min"}:
                    out.add(nm)
    return out


def rule_pilot_cap(ck, rid="C03.R4"):
    repo = ck.repo
    f = repo.fn("Linear2StageBattery._charge")
    fl = flow_of(f)
    cfg = fl.cfg
    cand, maxn = rate_vars(fl, f)
    var, d_raw = next(iter(cand.items()))
    all_defs = [n for n in cfg.nodes if var in fl._defs.get(n, {})]

    def bounded_edge(n):
        if n.kind != "edge" or n.test.kind != "test":
            return False
        from ..flow import edge_facts
        for a, tr in edge_facts(n.test.expr, n.label):
            c = cmp_norm(a, tr)
            if c and canon(c[0]) == var and c[1] in ("<", "<=") and canon(c[2]) == maxn:
                return True
        return False
    guards = {n for n in cfg.nodes if bounded_edge(n)}

    def cond_cap(val):
        """`maxn if var > maxn else var` (any orientation): each arm is the bound or the value on the edge where it is below the bound."""
        if not isinstance(val, ast.IfExp):
            return False
        from ..flow import edge_facts
        for arm, lab in ((val.body, True), (val.orelse, False)):
            if canon(arm) == maxn:
                continue
            if canon(arm) == var and any((c := cmp_norm(a, tr)) and canon(c[0]) == var and c[1] in ("<", "<=") and canon(c[2]) == maxn
                                         for a, tr in edge_facts(val.test, lab)):
                continue
            return False
        return True
    n_uses = 0
    for n in cfg.nodes:
        for e in cfg.node_exprs(n):
            for u in [e] + list(walk_local(e)):
                if not (isinstance(u, ast.Name) and u.id == var and isinstance(u.ctx, ast.Load)):
                    continue
                # exempt: operand of the clamp itself (compare with / min with the bound)
                par = _parent(e, u)
                if isinstance(par, ast.Compare) and maxn in canon(par):
                    continue
                if isinstance(e, ast.Assign) and cond_cap(e.value) and var in store_names(e):
                    continue
                if isinstance(par, (ast.Call, ast.List, ast.Tuple)) and maxn in canon(par) and ("min" in canon(par)):
                    continue
                n_uses += 1
                bad = False
                for d in fl.defs_at(n, var):
                    how = fl.def_how(d, var)
                    val = how[1] if how[0] == "assign" else None
                    if val is not None:
                        ev = fl.expand(val, d)
                        if canon(val) == maxn or cond_cap(val) or (frozenset(sig(fl.expand(ast.Name(id=maxn, ctx=ast.Load()), d))) in upper_bounds(ev)) \
                                or (isinstance(ev, ast.Call) and call_name(ev) in MIN_NAMES and maxn in canon(val)):
                            continue
                    others = set(all_defs) - {d}
                    if n in cfg.reach_from_succ(d, avoid=guards | others):
                        bad = True
                ck.require(not bad, rid, f, u if not isinstance(e, ast.stmt) else e, ok=f"`{var}` is capped by `{maxn}` on every path to this use",
                           bad=f"`{var}` (the pilot's SoC rate) can reach this use without having been capped by `{maxn}`: the battery could charge above its maximum power",
                           sink="pilot-dsoc-uncapped")
    # the cap written as a second variable (`capped = min(raw, maximum)`): the raw rate is used nowhere else (checked above, every other
    # use of it would have been judged), and every use of the capped variable is capped by construction
    for n in cfg.nodes:
        for nm, how in fl._defs.get(n, {}).items():
            if nm == var or how[0] != "assign" or how[1] is None:
                continue
            ev = fl.expand(how[1], n)
            if isinstance(how[1], ast.Call) and call_name(how[1]) in MIN_NAMES and var in {x.id for x in ast.walk(how[1]) if isinstance(x, ast.Name)} \
                    and frozenset(sig(fl.expand(ast.Name(id=maxn, ctx=ast.Load()), n))) in upper_bounds(ev):
                for m in cfg.nodes:
                    for e in cfg.node_exprs(m):
                        for u in [e] + list(walk_local(e)):
                            if isinstance(u, ast.Name) and u.id == nm and isinstance(u.ctx, ast.Load) and fl.defs_at(m, nm) == frozenset({n}):
                                n_uses += 1
                                ck.holds(rid, f, u, f"`{nm}` = min(`{var}`, `{maxn}`): capped by construction")
    ck.floor(rid, n_uses, 3, f"uses of {var} after the cap")


def store_names(stmt):
    return {t.id for tg in stmt.targets for t in ast.walk(tg) if isinstance(t, ast.Name)}


def _parent(root, node):
    for p in ast.walk(root):
        for c in ast.iter_child_nodes(p):
            if c is node:
                return p
    return None


def rule_init_guards(ck, rid="C03.R5"):
    """a caller-supplied charge reaches the stored state only on paths whose condition implies `charge <= capacity` (decision table of
    the constructor and of reset; compound guards are evaluated propositionally), and the complementary paths raise"""
    from .. import pathtab
    repo = ck.repo
    n_st = 0
    for q, cap_names in (("Battery.__init__", ("capacity", "self._capacity")), ("Battery.reset", ("self._capacity",))):
        f = repo.fn(q)
        fl = flow_of(f)
        params = set(f.params[1:]) - {"capacity", "max_power"}
        rows = pathtab.table(fl)
        bad_seen = set()
        for r in rows:
            for kind, k, st, node in r.effects:
                if kind != "store" or not isinstance(st, ast.Assign):
                    continue
                tgt = canon(st.targets[0])
                if tgt not in ("self._current_charge", "self._init_charge"):
                    continue
                roots = sig(pathtab.path_expand(fl, r.nodes, st.value, r.nodes.index(node))) & params
                if not roots:
                    continue        # not caller-supplied (e.g. self._init_charge)
                n_st += 1

                def over(key, a, roots=roots):
                    c = pathtab.split_key(key)
                    return bool(c) and ((c[1] == "<" and c[0] in cap_names and c[2] in roots) or (c[1] == "<=" and c[0] in roots and c[2] in cap_names))
                keys = [kk for kk, t, a, nn in r.facts if over(kk, a)]
                v = pathtab.implied(fl, r, over)
                # orientation: `cap < x` must be false, `x <= cap` must be true
                def want_of(key):
                    return pathtab.split_key(key)[1] == "<="
                tkey = None
                for t_, lab in r.tests:
                    at = {}
                    pathtab._atoms_of(fl.expand(t_.expr, t_), at)
                    for kk in at:
                        if over(kk, at[kk]):
                            tkey = kk
                ok = tkey is not None and v is not None and v == want_of(tkey)
                if not ok and (id(st), tgt) not in bad_seen:
                    bad_seen.add((id(st), tgt))
                    ck.violation(rid, f, st, "a caller-supplied charge is stored on a path whose condition does not imply `charge <= capacity` "
                                 f"(path: {r.describe(120)})", sink=f"unguarded-store:{tgt.split('.')[-1]}")
                elif ok:
                    ck.holds(rid, f, st, "a caller-supplied charge is stored only when it does not exceed the capacity")
        # the rejecting paths raise: no normally-ending path has `charge > capacity` established
        for r in rows:
            if r.end == "raise":
                continue
            for p_ in params:
                def over_p(key, a, p_=p_):
                    c = pathtab.split_key(key)
                    return bool(c) and ((c[1] == "<" and c[0] in cap_names and c[2] == p_) or (c[1] == "<=" and c[0] == p_ and c[2] in cap_names))
                v = pathtab.implied(fl, r, over_p)
                tk = [kk for t_, lab in r.tests for kk in (lambda d: (pathtab._atoms_of(fl.expand(t_.expr, t_), d), d)[1])({}) if over_p(kk, None)]
                if v is not None and tk and v != (pathtab.split_key(tk[0])[1] == "<="):
                    ck.violation(rid, f, r.describe(160), "a path on which the supplied charge exceeds the capacity ends normally (the rejection can fall through)",
                                 sink="reject-falls-through")
    ck.floor(rid, n_st, 3, "stores of caller-supplied charge in Battery.__init__/reset")


def run(ck):
    ck.attempt(rule_ideal)
    ck.attempt(rule_stepwise)
    ck.attempt(rule_exact_bounds)
    ck.attempt(rule_taint)
    ck.attempt(rule_pilot_cap)
    ck.attempt(rule_init_guards)
    # a closed form evaluated with the wrong breakpoint yields a negative rate (the exponent's sign flips): the bounds need the
    # region tests and the pieces to agree on the pilot-adjusted breakpoint
    from .c14 import rule_breakpoint, rule_law
    ck.attempt(rule_breakpoint, rid="C03.R8")
    # 0 <= rate <= pilot for the continuous model: each piece of the closed form is the solution of ds/dtau = r(s) with
    # r(s) = D below the breakpoint and D (1 - s)/(1 - P) in [0, D] above it (identities decided by computer algebra); a solution of that
    # law gains between 0 and D per period, so the returned rate lies between 0 and the (capped) pilot
    ck.attempt(rule_law, rid="C03.R9")
    from .c13 import rule_validate_before_mutate
    ck.attempt(rule_validate_before_mutate, rid="C03.R6")
    # "0 <= recorded rate <= recorded pilot": the rate an EV reports (and the simulator records) is the value its battery returned for
    # this very pilot, and every battery entry point goes through a bounded routine (shared with C02)
    from .c02 import rule_same_value, rule_call_chain, rule_vacancy
    ck.attempt(rule_same_value, rid="C03.R10")
    ck.attempt(rule_call_chain, rid="C03.R11")
    # ... "at every station": the vector the simulator records holds, in each station's slot, the rate of the EV attached to that station
    ck.attempt(rule_vacancy, rid="C03.R12")
    # the clamps only bound the rate if the conversions between A, kW, kWh and SoC-per-period are exact (units + truncation)
    from ..units import check_units
    from ..tables import UNITS
    for q in ("Battery.charge", "Linear2StageBattery._charge", "Linear2StageBattery._charge_stepwise"):
        check_units(ck, "C03.R7", ck.repo.fn(q), UNITS[q])

"""C15 - generated sessions are well-formed and their batteries can hold the request (structural part)."""
import ast

from ..core import AnalysisError, dotted, call_name, src, walk_local
from ..flow import leaves
from ..rules import flow_of, state_writes, facts_at, canon, cmp_norm, calls_in, bind_args, alts_deep
from ..units import check_units
from ..tables import UNITS
from ..bounds import sig, MIN_NAMES
from ..flow import linear

EXPLANATION = ("(R1) dimension-and-scale inference over both converters, the datetime->period conversion and the two-stage "
               "capacity fit, including every argument of the capacity-function protocol (kWh, periods, V, min) at both call "
               "sites and agreement of all returns of the initial-charge helper; (R2) sibling agreement: both converters "
               "construct EV(arrival, departure, requested_energy, station_id, session_id, battery) bound by parameter name "
               "from the right document fields / sample columns and default to capacity = request, initial charge = 0, battery "
               "built as (capacity, initial, max power); (R3) same clock: arrival and departure are the same function (same "
               "period, same rounding, same offset) of connection and disconnection time, and the offset is that function of "
               "the simulation start; (R5) the max_len cap stores arrival + max_len (resp. max_len as duration) exactly on the "
               "edge where the stay exceeds max_len; the force_feasible cap is a minimum of the document's energy and "
               "max power x stay x period length; (R6) control structure of the two-stage capacity fit: the closed-form start is returned "
               "only under the test of its own assumption (result >= transition SoC), the search only when gain(0) >= requested gain "
               "(else the -1 marker), the bisection of the decreasing gain moves the lower end on `gain(mid) > target` and the upper "
               "end otherwise, a fit is handed out only for a non-negative initial charge; the fit's helpers are unit-checked "
               "interprocedurally from batt_cap_fn (parameter units inferred from the call arguments); the bisection stops only on "
               "|gain(mid) - target| < tol and searches [ts - M T, 1]; (R7) the fit integrates the battery's own law: each piece of the SoC-gain "
               "function satisfies ds/dT = M resp. M(1-s)/(1-ts) with its entry value and is selected by `start + M T <= ts`, and the "
               "closed-form start solves ramp-gain(s*) = requested gain exactly - identities decided by computer algebra on the source."
               ' Added after the mutation matrix: the force_feasible cap applies exactly under the flag and equals max power x (departure - arrival) x period/60 as an identity; the stay handed to the capacity function is exactly departure - arrival; no lookup under a contradicted membership test.')
NOT_DECIDED = ("convergence of the bisection within the recursion limit and its 1e-9 tolerance (numeric); monotonicity of the gain in the start "
               "(analysis); that the battery built from the fit is charged with exactly the full-rate pilot by the caller")

DOC_FIELDS = {"arrival": "connectionTime", "departure": "disconnectTime", "requested_energy": "kWhDelivered",
              "session_id": "sessionID", "station_id": "spaceID"}


def rule_units(ck, rid="C15.R1"):
    repo = ck.repo
    for q in ("_convert_to_ev", "_datetime_to_timestamp", "StochasticEvents._convert_ev_matrix"):
        check_units(ck, rid, repo.fn(q), UNITS[q])
    # the two-stage capacity fit: followed from batt_cap_fn into the initial-charge helper, the SoC-gain closure and the bisection,
    # wherever they are defined (nested closures today); parameter units are inferred from the arguments at each call
    e = check_units(ck, rid, repo.fn("batt_cap_fn"), UNITS["batt_cap_fn+"], follow=True)
    ck.floor(rid, len(set(e.descended)), 3, "helpers of the capacity fit reached from batt_cap_fn (initial charge, SoC gain, bisection)")
    ck.floor(rid, e.ops, 40, "unit-checked operations in the capacity fit")
    for q in ("batt_cap_fn._get_init_cap", "batt_cap_fn._get_init_cap.delta_soc_from_init_soc"):
        if repo.fn(q, optional=True) is not None:
            check_units(ck, rid, repo.fn(q), UNITS[q])
    # floor on the default path of the datetime conversion
    f = repo.fn("_datetime_to_timestamp")
    fl = flow_of(f)
    rets = [n for n in fl.cfg.nodes if n.kind == "return"]
    dflt = [r for r in rets if not any(canon(a) == "round_up" and t for a, t in facts_at(fl, r))]
    from ..rules import gexpand, specialise

    def on_default(r):
        # the value returned when round_up is false: a rounding applied under `if round_up:` before a shared `return int(ts)` folds away
        return specialise(gexpand(fl, r.expr, r), {"round_up": False})
    ok = bool(dflt) and all(isinstance(on_default(r), ast.Call) and call_name(on_default(r)) in ("int", "floor") and
                            "ceil" not in canon(on_default(r)) and "round(" not in canon(on_default(r)) for r in dflt)
    ck.require(ok, rid, f, dflt[0].stmt if dflt else "return int(ts)", ok="period index = floor of the timestamp in periods", bad="the default conversion must truncate (floor), not round",
               sink="timestamp-floor")
    # ... and the default path is the one the converters take: the flag defaults to False and no caller in the package sets it
    dv = f.defaults().get("round_up")
    ck.require(dv is not None and isinstance(dv, ast.Constant) and dv.value is False, rid, f, dv if dv is not None else "round_up=False",
               ok="round_up defaults to False", bad="the rounding flag no longer defaults to False: arrival / departure / start are ceilings, not floors, of the times in periods",
               sink="timestamp-default", positive=True)
    from ..rules import who_calls
    for g, c in who_calls(repo, "_datetime_to_timestamp"):
        if g is None or "/tests/" in g.module:
            continue
        bb = bind_args(c, f, method=False)
        ck.require("round_up" not in bb, rid, g, c, ok="converted with the default (floor)", bad="a converter asks for the rounded-up period index", sink=f"timestamp-caller:{g.qual}", positive=True)
    for r in dflt:
        e = fl.expand(r.expr, r)
        good = "timestamp()" in canon(e) and "period" in canon(e)
        ck.require(good, rid, f, r.stmt, ok="computed from dt.timestamp() and the period", bad="the period index must be computed from dt.timestamp() and the period length", sink="timestamp-source")


def _alts(e):
    if isinstance(e, ast.Call) and call_name(e) == "__phi__":
        out = []
        for a in e.args:
            out += _alts(a)
        return out
    return [e]


def _deep(e):
    return alts_deep(e)


def check_converter(ck, f, fl, roles, energy_field_pred, rid2="C15.R2"):
    """common part: the EV(...) construction and the battery defaults."""
    repo = ck.repo
    evs = calls_in(fl, "EV")
    ck.require(len(evs) == 1, rid2, f, evs[0][1] if evs else "EV(...)", bad=f"{len(evs)} EV constructions (need 1)", sink="ev-ctor-count")
    if len(evs) != 1:
        return None
    n, c = evs[0]
    b = bind_args(c, repo.fn("EV.__init__"))
    exp = {k: fl.expand(v, n) for k, v in b.items()}
    for param, pred in roles.items():
        got = exp.get(param)
        ck.require(got is not None and pred(got), rid2, f, b.get(param, c), ok=f"EV.{param} comes from the right source",
                   bad=f"EV parameter `{param}` is bound to {src(got) if got is not None else None}: wrong field/column for this role", sink=f"ev-role:{param}")
    # battery construction and defaults
    bat = b.get("battery")
    bcalls = [(bn, bc) for bn, bc in calls_in(fl) if isinstance(bc.func, ast.Subscript) and canon(bc.func.slice) in ('"type"', "'type'")]
    if bat is None or not isinstance(bat, ast.Name):
        raise AnalysisError(f"{f.qual}: battery argument not recognised")
    bexp = _alts(fl.expand(bat, n))
    ok_b = False
    for alt in bexp:
        if isinstance(alt, ast.Call) and len(alt.args) >= 3:
            cap_alts, init_alts, pw = _alts(alt.args[0]), _alts(alt.args[1]), alt.args[2]
            cap_def = [a for a in cap_alts if "capacity_fn" not in canon(a) and "cap_fn" not in canon(a)]
            init_def = [a for a in init_alts if "capacity_fn" not in canon(a) and "cap_fn" not in canon(a)]
            energy = exp.get("requested_energy")
            e_alts = {canon(x) for x in _alts(energy)} if energy is not None else set()
            ok_cap = len(cap_def) >= 1 and all(canon(a) in e_alts or canon(a) == canon(energy) for a in cap_def)
            ok_init = len(init_def) >= 1 and all(isinstance(a, ast.Constant) and a.value == 0 for a in init_def)
            ck.require(ok_cap, rid2, f, alt.args[0], ok="default capacity = the requested energy", bad="without a capacity function the battery capacity must equal the requested energy",
                       sink="default-capacity")
            ck.require(ok_init, rid2, f, alt.args[1], ok="default initial charge = 0 (free capacity = request)",
                       bad="without a capacity function the initial charge must be 0, so that the free capacity covers the request", sink="default-initial-charge")
            ck.require(canon(pw) == "max_battery_power", rid2, f, alt, ok="battery(capacity, initial charge, max power)", bad="the battery must be built as (capacity, initial charge, max_battery_power)",
                       sink="battery-args")
            # capacity function alternatives: (cap, init) = fn(...)[0], [1]
            fn_cap = [a for a in cap_alts if a not in cap_def]
            fn_init = [a for a in init_alts if a not in init_def]
            ok_fn = all("__item__" in canon(a) and canon(a).endswith(", 0)") for a in fn_cap) and all("__item__" in canon(a) and canon(a).endswith(", 1)") for a in fn_init)
            ck.require(ok_fn, rid2, f, alt, ok="(capacity, initial) unpacked in protocol order", bad="the capacity function returns (capacity, initial charge) - unpacked in the wrong order",
                       sink="capfn-unpack")
            ok_b = True
    ck.require(ok_b, rid2, f, bat, ok="battery built from battery_params['type']", bad="battery construction not found", sink="battery-ctor")
    return n, c, b, exp


def has_field(e, field):
    s = canon(e)
    return f'"{field}"' in s or f"'{field}'" in s


def rule_acndata(ck):
    repo = ck.repo
    f = repo.fn("_convert_to_ev")
    fl = flow_of(f)
    d = f.params[0]
    roles = {
        "arrival": lambda e: has_field(e, "connectionTime") and not has_field(e, "disconnectTime"),
        "departure": lambda e: all(has_field(a, "disconnectTime") or (has_field(a, "connectionTime") and "max_len" in canon(a)) for a in _alts(e))
        and any(has_field(a, "disconnectTime") for a in _alts(e)),
        "requested_energy": lambda e: all(has_field(a, "kWhDelivered") for a in _alts(e)),
        "station_id": lambda e: has_field(e, "spaceID") and not has_field(e, "sessionID"),
        "session_id": lambda e: has_field(e, "sessionID") and not has_field(e, "spaceID"),
    }
    got = check_converter(ck, f, fl, roles, None)
    if got is None:
        return
    n, c, b, exp = got
    # R3 same clock
    arr = canon(exp["arrival"])
    deps = [canon(a) for a in _alts(exp["departure"])]
    plain = [x for x in deps if "max_len" not in x]
    ok = len(plain) == 1 and plain[0].replace("disconnectTime", "connectionTime") == arr
    ck.require(ok, "C15.R3", f, b["departure"], ok="arrival and departure are the same function of connection / disconnection time",
               bad=f"arrival and departure are not computed by the same clock function: {arr} vs {plain}", sink="same-clock")
    ge = repo.fn("get_evs")
    gfl = flow_of(ge)
    calls = calls_in(gfl, "_convert_to_ev")
    okoff = False
    if len(calls) == 1:
        gn, gc = calls[0]
        gb = bind_args(gc, f)
        off = canon(gfl.expand(gb["offset"], gn)) if "offset" in gb else ""
        okoff = off == arr.split(" - ")[0].replace(f'{d}["connectionTime"]', "start").replace(f"{d}['connectionTime']", "start") and arr.endswith(" - offset")
        same = all(k in gb and canon(gfl.expand(gb[k], gn)) == k for k in ("period", "voltage", "max_battery_power", "max_len", "battery_params", "force_feasible"))
        ck.require(same, "C15.R3", ge, gc, ok="conversion parameters forwarded by name", bad="get_evs does not forward its parameters to _convert_to_ev unchanged", sink="get_evs-forward")
    ck.require(okoff, "C15.R3", ge, calls[0][1] if calls else "offset", ok="the offset is the same function of the simulation start, subtracted from both",
               bad="the offset must be _datetime_to_timestamp(start, period) - the same clock as arrival/departure", sink="offset-clock")
    # R5 max_len cap
    cap_defs = [(nn, how) for nn in fl.cfg.nodes for nm, how in fl._defs.get(nn, {}).items() if nm == (b["departure"].id if isinstance(b["departure"], ast.Name) else "")
                and how[0] == "assign" and "max_len" in canon(how[1])]
    ck.require(len(cap_defs) == 1, "C15.R5", f, "departure = arrival + max_len", ok="stay capped at max_len", bad="the max_len cap on the stay is missing", sink="maxlen-cap-exists")
    for nn, how in cap_defs:
        v = canon(fl.expand(how[1], nn))
        ok = v in (f"{arr} + max_len", f"max_len + {arr}")
        ck.require(ok, "C15.R5", f, nn.stmt, ok="capped departure = arrival + max_len", bad=f"the capped departure must be arrival + max_len; got {src(how[1])}", sink="maxlen-cap-value")
        fs = [cmp_norm(a, t) for a, t in facts_at(fl, nn)]
        cond = any(c_ and canon(c_[0]) == "max_len" and c_[1] == "<" and canon(c_[2]).replace(" ", "") in ("departure-arrival",) for c_ in fs)
        nn_ = any(c_ and canon(c_[0]) == "max_len" and c_[1] == "is not" for c_ in fs)
        ck.require(cond and nn_, "C15.R5", f, nn.stmt, ok="only when max_len is given and the stay exceeds it", bad="the cap must apply exactly when max_len is not None and departure - arrival > max_len",
                   sink="maxlen-cap-edge")
    # force_feasible cap
    en = exp["requested_energy"]
    mins = [a for a in _alts(en) if isinstance(a, ast.Call) and call_name(a) in MIN_NAMES]
    ok = len(mins) == 1 and len(_alts(en)) == 2
    if ok:
        ops = mins[0].args[0].elts if len(mins[0].args) == 1 and isinstance(mins[0].args[0], (ast.List, ast.Tuple)) else mins[0].args
        sigs = [sig(o) for o in ops]
        ok = any(has_field(o, "kWhDelivered") for o in ops) and any({"max_battery_power", "period"} <= s and has_field(o, "disconnectTime") for o, s in zip(ops, sigs))
    ck.require(ok, "C15.R1", f, b["requested_energy"], ok="force_feasible: min(document energy, max power x stay x period length); otherwise the document energy",
               bad="the requested energy must be the document's kWhDelivered, capped (force_feasible) by max power x stay x period", sink="force-feasible-cap")
    # ... exactly: by specialisation on the flag and an identity for the cap (term rewriting), with the session's own arrival /
    # departure kept symbolic
    from ..rules import gexpand, specialise
    from .. import cas
    keep = {x.id for x in (b.get("arrival"), b.get("departure")) if isinstance(x, ast.Name)}
    if len(keep) == 2 and "force_feasible" in f.params:
        S = cas.sp()
        Pm, T, A_, D_ = S.symbols("Pm T A D", positive=True)
        fl.keep = keep
        try:
            g = gexpand(fl, b["requested_energy"], n)
        finally:
            fl.keep = set()
        doc = (f"{d}['kWhDelivered']", f'{d}["kWhDelivered"]')
        off = specialise(g, {"force_feasible": False})
        ck.require(canon(off) in doc, "C15.R8", f, b["requested_energy"], ok="without force_feasible the request is the document's delivered energy",
                   bad=f"without force_feasible the requested energy is `{src(off, 60)}`, not the document's kWhDelivered (the cap is applied unconditionally or the value is altered)",
                   sink="force-feasible:off")
        on = specialise(g, {"force_feasible": True})
        ok = False
        why = f"`{src(on, 70)}` is not min(kWhDelivered, max_battery_power x stay x period/60)"
        if isinstance(on, ast.Call) and call_name(on) in MIN_NAMES:
            ops = on.args[0].elts if len(on.args) == 1 and isinstance(on.args[0], (ast.List, ast.Tuple)) else on.args
            rest = [o for o in ops if canon(o) not in doc]
            if len(ops) == 2 and len(rest) == 1:
                env = {"max_battery_power": Pm, "period": T, b["arrival"].id: A_, b["departure"].id: D_}
                try:
                    z = cas.is_zero(cas.to_sympy(rest[0], env) - Pm * (D_ - A_) * T / 60)
                except AnalysisError:
                    z = None
                if z is None:
                    raise AnalysisError(f"_convert_to_ev: identity for the force_feasible cap not decided: {src(rest[0])}")
                ok = bool(z)
                why = f"the cap `{src(rest[0], 60)}` is not max_battery_power x (departure - arrival) x period / 60 (kW x periods x hours per period)"
        ck.require(ok, "C15.R8", f, b["requested_energy"], ok="force_feasible: request = min(document energy, max power x stay x period/60)", bad=why, sink="force-feasible:on")
    # the stay the cap (and the capacity function) is computed for is the stay of the session that is built: every statement that reads
    # arrival / departure together with the maximum power or the capacity function sees the same definitions of them as the EV(...) call
    # (a max_len clip placed after the cap makes the cap that of the unclipped stay)
    if len(keep) == 2:
        for nd in fl.cfg.nodes:
            exprs = list(fl.cfg.node_exprs(nd))
            uses = {x.id for e_ in exprs for x in ast.walk(e_) if isinstance(x, ast.Name) and isinstance(x.ctx, ast.Load)}
            txt = " ".join(canon(e_) for e_ in exprs)
            if nd is n or not (keep <= uses) or not ("max_battery_power" in uses or "capacity_fn" in txt):
                continue
            stale = [k for k in sorted(keep) if fl.defs_at(nd, k) != fl.defs_at(n, k)]
            ck.require(not stale, "C15.R8", f, nd.stmt if getattr(nd, "stmt", None) is not None else exprs[0], ok="computed for the stay of the session that is built",
                       bad=f"`{src(nd.stmt if getattr(nd, 'stmt', None) is not None else exprs[0], 60)}` reads {stale} before the value the session is built with is final "
                           "(the max_len clip comes later): the cap / fit is computed for a longer stay than the session has", sink="stay-of-built-session")
    # capacity function protocol arguments
    cf = [(nn, cc) for nn, cc in calls_in(fl) if isinstance(cc.func, ast.Subscript) and "capacity_fn" in canon(cc.func.slice)]
    for nn, cc in cf:
        a = [canon(fl.expand(x, nn)) for x in cc.args]
        ok = len(a) == 4 and a[0] in {canon(x) for x in _alts(en)} | {canon(en)} and a[2] == "voltage" and a[3] == "period" and \
            all(("disconnectTime" in x and "connectionTime" in x) for x in [a[1]])
        ck.require(ok, "C15.R2", f, cc, ok="capacity_fn(requested energy, stay, voltage, period)", bad="the capacity function must be called as (requested energy, departure - arrival, voltage, period)",
                   sink="capfn-args")
        if len(cc.args) == 4 and len(keep) == 2:
            from ..flow import linear as _lin, Lin as _Lin
            fl.keep = keep
            try:
                stay = fl.expand(cc.args[1], nn)
            finally:
                fl.keep = set()
            ck.require(_lin(stay, norm=canon) == _Lin({b["departure"].id: 1, b["arrival"].id: -1}), "C15.R2", f, cc.args[1], ok="stay = departure - arrival of the session being built",
                       bad=f"the stay handed to the capacity function is `{src(stay, 50)}`, not departure - arrival: the fit is computed for another duration", sink="capfn-stay")
    # a mapping is only subscripted with a key on the edge where the key was found (generic contradiction rule)
    from .. import pathtab
    pathtab.contradicted_membership(ck, "C15.R2", f, fl, pathtab.table(fl, limit=20000), sink="convert:membership")


def rule_stochastic(ck):
    repo = ck.repo
    f = repo.fn("StochasticEvents._convert_ev_matrix")
    fl = flow_of(f)
    ROW = "__item__(__elem__(ev_matrix), {})"
    roles = {
        "arrival": lambda e: ROW.format(0) in canon(e) and ROW.format(1) not in canon(e),
        "departure": lambda e: ROW.format(0) in canon(e) and (ROW.format(1) in canon(e) or "max_len" in canon(e)),
        "requested_energy": lambda e: all(ROW.format(2) in canon(a) for a in _alts(e)),
        "station_id": lambda e: "station" in canon(e) and "__idx__(ev_matrix)" in canon(e),
        "session_id": lambda e: "session" in canon(e) and "__idx__(ev_matrix)" in canon(e),
    }
    got = check_converter(ck, f, fl, roles, None)
    if got is None:
        return
    n, c, b, exp = got
    arr = canon(exp["arrival"])
    a0, d0 = ROW.format(0), ROW.format(1)
    # the stay that enters the departure, decided per case of `max_len` (gated expansion specialised under `max_len is None` / `is not None`):
    # without a cap it is the sampled duration, with a cap min(duration, max_len) - however the cap is written (guarded store, min())
    from ..rules import gexpand, specialise
    gdep = gexpand(fl, b["departure"], n)
    dep_on = canon(specialise(gdep, {"max_len is not None": True, "max_len is None": False}))
    dep_off = canon(specialise(gdep, {"max_len is not None": False, "max_len is None": True}))
    capped = (f"min({d0}, max_len)", f"min(max_len, {d0})", f"np.minimum({d0}, max_len)", f"np.minimum(max_len, {d0})")

    def strip_stay(dp, stays):
        out = []
        for st_ in stays:
            out += [dp.replace(f"({a0} + {st_})", a0), dp.replace(f"{a0} + {st_}", a0)]
        return out
    if "__gamma__" in dep_on or "__gamma__" in dep_off or "__phi__" in dep_on or "__phi__" in dep_off:
        raise AnalysisError(f"_convert_ev_matrix: the stay entering the departure is not decided by `max_len is None` alone: {dep_on[:120]}")
    ck.require(arr in strip_stay(dep_off, (d0,)) and arr in strip_stay(dep_on, capped + (d0,)), "C15.R3", f, b["departure"],
               ok="arrival and departure use the same hours->periods conversion of arrival and arrival + stay",
               bad=f"departure is not the same conversion of (arrival + stay) as arrival is of arrival: {arr} vs {dep_on} / {dep_off}", sink="same-clock")
    # R5 duration cap
    ck.require(any(c_ in dep_on for c_ in capped), "C15.R5", f, b["departure"], ok="stay capped at max_len when max_len is given",
               bad=f"with max_len given the stay entering the departure is `{dep_on[:100]}`: it must be min(duration, max_len)", sink="maxlen-cap-exists")
    ck.require("max_len" not in dep_off, "C15.R5", f, b["departure"], ok="no cap without max_len", bad="max_len enters the departure although it is None", sink="maxlen-cap-edge")
    en = exp["requested_energy"]
    mins = [a for a in _alts(en) if isinstance(a, ast.Call) and call_name(a) in MIN_NAMES]
    ok = len(mins) == 1 and len(_alts(en)) == 2 and {"max_battery_power"} <= set(sig(mins[0])) and ROW.format(1) in canon(mins[0])
    ck.require(ok, "C15.R1", f, b["requested_energy"], ok="force_feasible: min(sample energy, max power x duration)", bad="the requested energy must be the sample's energy, capped (force_feasible) by max power x duration",
               sink="force-feasible-cap")
    cf = [(nn, cc) for nn, cc in calls_in(fl) if (call_name(cc) == "cap_fn") or (isinstance(cc.func, ast.Subscript) and "capacity_fn" in canon(cc.func.slice))]
    for nn, cc in cf:
        a = [canon(fl.expand(x, nn)) for x in cc.args]
        dep_s, arr_s = canon(fl.expand(b["departure"], nn)), canon(fl.expand(b["arrival"], nn))
        ok = len(a) == 4 and a[2] == "voltage" and a[3] == "period" and a[1] == f"{dep_s} - {arr_s}"
        ck.require(ok, "C15.R2", f, cc, ok="capacity_fn(requested energy, departure - arrival [periods], voltage, period)",
                   bad="the capacity function must be called as (requested energy, departure - arrival, voltage, period) like the ACN-Data converter", sink="capfn-args")


def rule_fit(ck, rid="C15.R1"):
    repo = ck.repo
    f = repo.fn("batt_cap_fn")
    fl = flow_of(f)
    rets = [n for n in fl.cfg.nodes if n.kind == "return" and n.expr is not None]
    for r in rets:
        e = fl.expand(r.expr, r)
        ok = isinstance(e, ast.Tuple) and len(e.elts) == 2 and "_get_init_cap(" in canon(e.elts[1]) and canon(e.elts[0]) in canon(e.elts[1])
        ck.require(ok, rid, f, r.stmt, ok="returns (capacity, initial charge for that capacity)", bad="batt_cap_fn must return (capacity, _get_init_cap(capacity))", sink="fit-return")


def fn_by_last(repo, last):
    c = [f for q, fs in repo.funcs.items() for f in fs if q.split(".")[-1] == last and f.module.endswith("models/battery.py")]
    if len(c) != 1:
        raise AnalysisError(f"capacity fit: helper `{last}` not found exactly once in models/battery.py ({len(c)})")
    return c[0]


def rule_fit_logic(ck, rid="C15.R6"):
    """control structure of the two-stage capacity fit: the closed-form start (valid only when the session starts at or above the
    transition SoC) is returned only under the test of that assumption on its own result; the search is entered only when the request
    is reachable from an empty battery (otherwise the -1 marker); the bisection of the decreasing gain function moves the lower end up
    when the gain is still above the target and the upper end down otherwise; batt_cap_fn hands out (capacity, initial) only for a
    non-negative initial charge (the explicit `request > capacity` skip is redundant with
    the marker: such a capacity never fits - catalogue n124)"""
    repo = ck.repo
    g = fn_by_last(repo, "_get_init_cap")
    fl = flow_of(g)
    cfg = fl.cfg
    ts = "transition_soc"
    rets = [n for n in cfg.nodes if n.kind == "return" and n.expr is not None]
    n_closed = n_search = n_marker = 0
    searcher = None
    for r in rets:
        e = fl.expand(r.expr, r)
        if isinstance(e, ast.UnaryOp) and isinstance(e.operand, ast.Constant) or isinstance(e, ast.Constant):
            n_marker += 1
            # -1: only when even an empty battery cannot take the request in the stay
            ok = False
            for a, t in facts_at(fl, r):
                c = cmp_norm(fl.expand(a, r), t)
                if c and c[1] in ("<", "<=") and canon(c[2]) == "requested_energy / battery_cap" and isinstance(c[0], ast.Call) and c[0].args and canon(c[0].args[0]) == "0":
                    ok = True
            ck.require(ok, rid, g, r.stmt, ok="the infeasibility marker is returned only when gain(0) < requested SoC gain",
                       bad="the `-1` (no fit with this capacity) return is not guarded by `gain from an empty battery < requested gain`", sink="fit:marker-guard")
            continue
        if not (isinstance(e, ast.BinOp) and isinstance(e.op, ast.Mult)):
            ck.violation(rid, g, r.stmt, f"the initial-charge helper returns `{canon(e)[:60]}`: neither an initial SoC times the capacity nor the -1 marker", sink="fit:return-form")
            continue
        soc = e.left if canon(e.right) == "battery_cap" else e.right if canon(e.left) == "battery_cap" else None
        if soc is None:
            ck.violation(rid, g, r.stmt, "the returned initial charge is not (initial SoC) x (battery capacity)", sink="fit:return-form")
            continue
        if "exp(" in canon(soc) and not (isinstance(soc, ast.Call) and "exp" not in (call_name(soc) or "")):
            n_closed += 1
            ok = False
            for a, t in facts_at(fl, r):
                c = cmp_norm(fl.expand(a, r), t)
                if c and c[1] in ("<", "<=") and canon(c[0]) == ts and canon(c[2]) == canon(soc):
                    ok = True
            ck.require(ok, rid, g, r.stmt, ok="the closed-form start is returned only when it is itself >= the transition SoC (its own assumption)",
                       bad="the closed-form initial SoC (derived for a session that starts at or above the transition SoC) is returned without testing "
                           "that it is >= transition_soc: below it the battery cannot take the assumed rate and the request is not delivered", sink="fit:closed-form-guard")
        elif isinstance(soc, ast.Call):
            n_search += 1
            searcher = (soc, r)
            ok = False
            for a, t in facts_at(fl, r):
                c = cmp_norm(fl.expand(a, r), t)
                if c and c[1] == "<=" and canon(c[0]) == "requested_energy / battery_cap" and isinstance(c[2], ast.Call) and c[2].args and canon(c[2].args[0]) == "0":
                    ok = True
            ck.require(ok, rid, g, r.stmt, ok="the search runs only when the request is reachable from an empty battery",
                       bad="the bisection is entered without `gain(0) >= requested gain` being established (it does not terminate otherwise)", sink="fit:search-guard")
        else:
            ck.violation(rid, g, r.stmt, f"initial SoC `{canon(soc)[:60]}` is neither the closed form nor the result of the search", sink="fit:return-form")
    ck.floor(rid, n_closed, 1, "closed-form returns of the initial-charge helper")
    ck.floor(rid, n_search, 1, "search returns of the initial-charge helper")
    ck.floor(rid, n_marker, 1, "infeasibility-marker returns of the initial-charge helper")
    # the bisection
    if searcher is None:
        return
    call, at = searcher
    b = fn_by_last(repo, call_name(call))
    bl = flow_of(b)
    ba = bind_args(call, b, method=False)
    roles = {}
    for p_, a in ba.items():
        ca = canon(a)
        if ca == "requested_energy / battery_cap":
            roles["target"] = p_
        elif isinstance(a, ast.Name) and any(q.split(".")[-1] == ca for q in repo.funcs):
            roles["gain"] = p_
    rest = [p_ for p_ in b.params if p_ in ba and p_ not in roles.values()]
    if len(rest) != 2 or set(roles) != {"target", "gain"}:
        raise AnalysisError(f"capacity fit: roles of the bisection's parameters not identified ({roles}, {rest})")
    lo, hi = rest
    mid_forms = {f"({lo} + {hi}) / 2", f"({hi} + {lo}) / 2", f"0.5 * ({lo} + {hi})", f"({lo} + {hi}) * 0.5", f"{lo} + ({hi} - {lo}) / 2"}
    n_rec = 0
    for r in [n for n in bl.cfg.nodes if n.kind == "return" and n.expr is not None]:
        e = r.expr
        if isinstance(e, ast.Call) and call_name(e) == call_name(call):
            n_rec += 1
            bb = bind_args(e, b, method=False)
            al, ah = canon(bl.expand(bb[lo], r)), canon(bl.expand(bb[hi], r))
            above = None        # is the gain at mid known to be above the target on this path?
            for a, t in facts_at(bl, r):
                c = cmp_norm(bl.expand(a, r), t)
                if not c or c[1] not in ("<", "<="):
                    continue
                d = linear(ast.BinOp(left=c[2], op=ast.Sub(), right=c[0]), norm=canon)        # c[2] - c[0] >= 0
                tgt = roles["target"]
                keys = {k for k in d.t if d.t[k]} if d is not None else set()
                if d is not None and len(keys) == 2 and tgt in keys:
                    other = next(k for k in keys if k != tgt)
                    if roles["gain"] + "(" in other and d.c == 0:
                        sign = d.t[other]           # (+1: gain - target > 0 known)  (-1: target - gain >= 0)
                        if c[1] == "<" and sign > 0:
                            above = True
                        elif sign < 0:
                            above = False
            if above is None:
                ck.violation(rid, b, e, "a recursive bisection step is not decided by comparing the gain at the midpoint with the target", sink="fit:bisect-undecided")
            elif above:
                ck.require(al in mid_forms and ah == hi, rid, b, e, ok="gain above target: the start can be higher - lower end moves to mid (gain is decreasing)",
                           bad=f"gain(mid) > target but the search continues on ({al}, {ah}): for a decreasing gain the lower end must move up to mid", sink="fit:bisect-above")
            else:
                ck.require(al == lo and ah in mid_forms, rid, b, e, ok="gain not above target: upper end moves to mid",
                           bad=f"gain(mid) <= target but the search continues on ({al}, {ah}): the upper end must move down to mid", sink="fit:bisect-below")
    ck.floor(rid, n_rec, 2, "recursive steps of the bisection")
    # the stop: the midpoint is returned only when |gain(mid) - target| is below the tolerance
    n_stop = 0
    tgt = roles["target"]
    for r in [n for n in bl.cfg.nodes if n.kind == "return" and n.expr is not None]:
        e = r.expr
        if isinstance(e, ast.Call) and call_name(e) == call_name(call):
            continue
        n_stop += 1
        ev = canon(bl.expand(e, r))
        ok_val = ev in mid_forms
        ok_stop = False
        for a, t in facts_at(bl, r):
            c = cmp_norm(bl.expand(a, r), t)
            if not c or c[1] not in ("<", "<="):
                continue
            l = c[0]
            if isinstance(l, ast.Call) and call_name(l) in ("abs", "fabs") and len(l.args) == 1 and not isinstance(c[2], ast.Call):
                d = linear(l.args[0], norm=canon)
                keys = {k for k in d.t if d.t[k]}
                if d.c == 0 and len(keys) == 2 and tgt in keys:
                    other = next(k for k in keys if k != tgt)
                    if other.startswith(roles["gain"] + "(") and other[len(roles["gain"]) + 1:-1] in mid_forms and d.t[other] == -d.t[tgt] and abs(d.t[tgt]) == 1:
                        ok_stop = True
        ck.require(ok_val and ok_stop, rid, b, r.stmt, ok="the midpoint is returned only when |gain(mid) - target| < tolerance",
                   bad=f"the bisection returns `{ev[:40]}` without |gain(mid) - target| < tol being established on that path: the initial charge handed out "
                       f"does not deliver the requested energy", sink="fit:bisect-stop")
    ck.floor(rid, n_stop, 1, "stopping returns of the bisection")
    # the interval searched: from the start below which the whole stay is in the constant-power region (start + M T = ts) up to a full battery
    from .. import cas
    S = cas.sp()
    M_, T_, u_ = S.symbols("M T u", positive=True)
    envb = {"max_dsoc": M_, "stay_dur": T_, "transition_soc": 1 - u_}
    fl.keep = {"max_dsoc"}
    try:
        kept = [c_ for c_ in ast.walk(fl.expand(at.expr, at)) if isinstance(c_, ast.Call) and call_name(c_) == call_name(call)]
        if len(kept) != 1:
            raise AnalysisError("capacity fit: search call not found again under kept expansion")
        bk = bind_args(kept[0], b, method=False)
        lo_e, hi_e = bk[lo], bk[hi]
        zl = cas.is_zero((1 - u_) - cas.to_sympy(lo_e, envb) - M_ * T_)
        zh = cas.is_zero(cas.to_sympy(hi_e, envb) - 1)
    finally:
        fl.keep = set()
    if zl is None or zh is None:
        raise AnalysisError("capacity fit: search interval not decided by the algebra system")
    ck.require(zl and zh, rid, g, call, ok="search interval [ts - M T, 1]: every start below it gains the same M T, the root lies inside",
               bad=f"the bisection searches [{canon(lo_e)[:40]}, {canon(hi_e)[:20]}] instead of [transition_soc - max_dsoc * stay_dur, 1]: the largest feasible start can lie outside",
               sink="fit:search-interval")
    # batt_cap_fn: hand out only a non-negative initial charge, and only capacities that can hold the request
    f = repo.fn("batt_cap_fn")
    ffl = flow_of(f)
    for r in [n for n in ffl.cfg.nodes if n.kind == "return" and n.expr is not None]:
        e = ffl.expand(r.expr, r)
        if not (isinstance(e, ast.Tuple) and len(e.elts) == 2):
            continue
        ok_init = False
        for a, t in facts_at(ffl, r):
            c = cmp_norm(a, t)
            if not c:
                continue
            l, op, rr = canon(ffl.expand(c[0], r)), c[1], canon(ffl.expand(c[2], r))
            if op == "<=" and l == "0" and "_get_init_cap(" in rr:
                ok_init = True
        ck.require(ok_init, rid, f, r.stmt, ok="a fit is returned only when the initial charge is >= 0 (-1 marks `no fit`)",
                   bad="batt_cap_fn returns a (capacity, initial charge) pair without testing the initial charge against the -1 `no fit` marker", sink="fit:init-nonneg")


def _close_over(repo, fn, e, keep=()):
    """free variables of a nested function stand for what the enclosing function bound them to when the closure was created:
    names of `e` that the nested function neither takes as parameters nor assigns are expanded in the enclosing function's flow at the
    `def` statement (temporaries such as `tail = transition_soc - 1` introduced next to the closure), except the names in `keep`"""
    import copy as _c
    parent = getattr(fn, "parent", None)
    if parent is None:
        return e
    local = set(fn.params) | {x.id for x in ast.walk(fn.node) if isinstance(x, ast.Name) and isinstance(x.ctx, ast.Store)}
    pfl = flow_of(parent)
    at = pfl.cfg.by_stmt.get(id(fn.node))
    if at is None:
        at = next((n for n in pfl.cfg.nodes if getattr(n, "stmt", None) is not None and isinstance(n.stmt, ast.FunctionDef) and n.stmt.name == fn.node.name), None)
    if at is None:
        return e
    old_keep = getattr(pfl, "keep", set())
    pfl.keep = set(keep) | set(old_keep)

    class T(ast.NodeTransformer):
        def visit_Name(self, n):
            if isinstance(n.ctx, ast.Load) and n.id not in local and n.id not in keep and pfl.defs_at(at, n.id):
                return pfl.expand(_c.deepcopy(n), at)
            return n
    try:
        out = T().visit(_c.deepcopy(e))
    finally:
        pfl.keep = old_keep
    return _close_over(repo, parent, out, keep) if getattr(parent, "parent", None) is not None else out


def _returns_through(repo, fn, depth=0, keep=("max_dsoc", "stay_dur", "transition_soc", "delta_soc", "requested_energy", "battery_cap")):
    """[(return expression, facts)] of `fn`, looking through returns that merely call another repository function (arguments substituted)"""
    from ..rules import _subst
    fl = flow_of(fn)
    out = []
    for r in [n for n in fl.cfg.nodes if n.kind == "return" and n.expr is not None]:
        e = _close_over(repo, fn, fl.expand(r.expr, r), keep)
        facts = [(_close_over(repo, fn, fl.expand(a, r), keep), t) for a, t in facts_at(fl, r)]
        if "__phi__" in canon(e):
            # a value chosen by the guard clauses of a helper that was spliced in: one piece per arm, each with the tests that select it
            from ..rules import gexpand
            from .c14 import _split_ifexp

            class G(ast.NodeTransformer):
                def visit_Call(self, n_):
                    n_ = self.generic_visit(n_)
                    if call_name(n_) == "__gamma__" and len(n_.args) == 3:
                        return ast.IfExp(test=n_.args[0], body=n_.args[1], orelse=n_.args[2])
                    return n_
            ge = G().visit(_close_over(repo, fn, gexpand(fl, r.expr, r), keep))
            if "__phi__" not in canon(ge):
                for arm, fs in _split_ifexp(ge, facts):
                    out.append((arm, fs))
                continue
        cn = call_name(e) if isinstance(e, ast.Call) else None
        tgt = [f for q, fs in repo.funcs.items() for f in fs if cn and q.split(".")[-1] == cn and f.module == fn.module]
        if isinstance(e, ast.Call) and isinstance(e.func, ast.Name) and len(tgt) == 1 and depth < 3:
            b = bind_args(e, tgt[0], method=False)
            for e2, f2 in _returns_through(repo, tgt[0], depth + 1):
                m = {k: v for k, v in b.items()}
                import copy as _c
                out.append((_subst(_c.deepcopy(e2), m), facts + [(_subst(_c.deepcopy(a), m), t) for a, t in f2]))
        else:
            out.append((e, facts))
    return out


def rule_fit_law(ck, rid="C15.R7"):
    """the capacity fit integrates the same two-stage law as the battery it is fitted for (full rate M per period, nominal
    breakpoint ts): the SoC-gain function's pieces, read as functions of the stay T, satisfy ds/dT = M below ts resp.
    ds/dT = M (1 - s)/(1 - ts) from the moment ts is reached, with the right entry values; the piece is chosen by `s + M T <= ts`;
    and the closed-form start s* is the exact solution of gain_ramp(s*) = requested gain.  Identities are decided by computer algebra
    on the source expressions."""
    from .. import cas
    repo = ck.repo
    S = cas.sp()
    g = fn_by_last(repo, "_get_init_cap")
    fl = flow_of(g)
    M, T, dl = S.symbols("M T delta", positive=True)
    u, w = S.symbols("u w", positive=True)
    ts, g0 = 1 - u, 1 - w
    # the gain function: the function-valued argument of the search call
    gain_fn = None
    for n in fl.cfg.nodes:
        for e in fl.cfg.node_exprs(n):
            for c in [x for x in ast.walk(e) if isinstance(x, ast.Call)]:
                for a in c.args:
                    if isinstance(a, ast.Name) and any(q.split(".")[-1] == a.id and f.module == g.module for q, fs in repo.funcs.items() for f in fs):
                        gain_fn = fn_by_last(repo, a.id)
    if gain_fn is None:
        raise AnalysisError("capacity fit: SoC-gain function (the function handed to the search) not found")
    guess = gain_fn.params[0]
    env = {"max_dsoc": M, "stay_dur": T, "transition_soc": ts, guess: g0}
    inner_h = ts - g0 - M * T
    n_p = 0
    for e, facts in _returns_through(repo, gain_fn):
        try:
            F = cas.to_sympy(e, env) + g0
        except AnalysisError as ex:
            raise AnalysisError(f"capacity fit: gain piece `{canon(e)[:50]}`: {ex}")
        sel = None
        for a, t in facts:
            c = cmp_norm(a, t)
            if not c or c[1] not in ("<", "<="):
                continue
            try:
                gt = cas.compare_term(c, env)
            except AnalysisError:
                continue
            sg = cas.ratio_sign(gt, inner_h) if gt is not None else None
            if sg is not None:
                sel = sg
        n_p += 1
        if sel == 1:
            ok = [cas.is_zero(F.subs(T, 0) - g0), cas.is_zero(S.diff(F, T) - M)]
            kind, what = "constant-power", "gain = M T (the whole stay below the breakpoint)"
        elif sel == -1:
            T1 = (ts - g0) / M
            ok = [cas.is_zero(F.subs(T, T1) - ts), cas.is_zero(S.diff(F, T) - M * (1 - F) / (1 - ts))]
            kind, what = "crossing", "s = ts when the breakpoint is reached and ds/dT = M (1 - s)/(1 - ts) afterwards"
        else:
            ck.violation(rid, gain_fn, e, f"the gain piece `{canon(e)[:60]}` is not selected by the predicate `start + M T <= ts` of the law", sink="fitlaw:selection")
            continue
        if any(o is None for o in ok):
            raise AnalysisError(f"capacity fit: identity for the {kind} gain piece not decided by the algebra system")
        ck.require(all(ok), rid, gain_fn, e, ok=f"{kind} piece: {what}", bad=f"the {kind} piece of the SoC-gain function `{canon(e)[:70]}` is not the solution of the "
                   f"two-stage law the battery charges by ({'entry value' if not ok[0] else 'differential equation'} fails): the fitted initial charge does not deliver the request",
                   sink=f"fitlaw:{kind}")
    ck.floor(rid, n_p, 2, "pieces of the SoC-gain function")
    # closed-form start: s* with ramp-gain(s*) = requested gain, where ramp(T; s) solves ds/dT = M (1 - s)/(1 - ts), s(0) = s
    s_ = S.Symbol("s")
    R = 1 + (s_ - 1) * S.exp(-M * T / (1 - ts))
    assert cas.is_zero(S.diff(R, T) - M * (1 - R) / (1 - ts)) and cas.is_zero(R.subs(T, 0) - s_)
    env2 = {"max_dsoc": M, "stay_dur": T, "transition_soc": ts, "delta_soc": dl, "requested_energy / battery_cap": dl}
    fl.keep = {"max_dsoc", "delta_soc"}
    n_c = 0
    try:
        for r in [n for n in fl.cfg.nodes if n.kind == "return" and n.expr is not None]:
            e = fl.expand(r.expr, r)
            if not (isinstance(e, ast.BinOp) and isinstance(e.op, ast.Mult) and "exp(" in canon(e)):
                continue
            soc = e.left if canon(e.right) == "battery_cap" else e.right if canon(e.left) == "battery_cap" else None
            if soc is None or isinstance(soc, ast.Call):
                continue
            n_c += 1
            sx = cas.to_sympy(soc, env2)
            z = cas.is_zero(R.subs(s_, sx) - sx - dl)
            if z is None:
                raise AnalysisError("capacity fit: identity for the closed-form start not decided by the algebra system")
            ck.require(z, rid, g, r.stmt, ok="the closed-form start s* satisfies ramp-gain(s*) = requested gain exactly",
                       bad=f"the closed-form initial SoC `{canon(soc)[:70]}` is not the solution of gain(s) = requested gain for a session that stays in the ramp-down region",
                       sink="fitlaw:closed-form")
    finally:
        fl.keep = set()
    ck.floor(rid, n_c, 1, "closed-form start of the capacity fit")
    # max_dsoc / delta_soc are what the law takes them for: full rate in SoC per period, requested energy in SoC (units: C15.R1)


def run(ck):
    ck.attempt(rule_fit_law)
    ck.attempt(rule_fit_logic)
    ck.attempt(rule_units)
    ck.attempt(rule_acndata)
    ck.attempt(rule_stochastic)
    ck.attempt(rule_fit)
    # "yields arrival and departure equal to ...": the session object built from these values stores each under its own name (constructor
    # rule of C09, for the EV and its batteries)
    from .c09 import rule_constructors
    ck.attempt(rule_constructors, rid="C15.R9", classes=("EV", "Battery", "Linear2StageBattery"), floor=8)


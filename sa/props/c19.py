"""C19 - stochastic space assignment never loses, duplicates or starves a session (structural part)."""
import ast

from ..core import AnalysisError, dotted, call_name, src, walk_local, const_value
from ..flow import edge_facts
from ..rules import flow_of, inline_helpers, calls_in, bind_args, canon, facts_at, cmp_norm, state_writes, region, who_calls, emptiness, uncopy_deep
from ..booltable import compare

EXPLANATION = ("StochasticNetwork: by enumeration of every path through plugin, each path performs exactly one placement - super().plugin(ev) "
               "after update_station_id(<the chosen free station>) or the enqueue waiting_queue[ev.session_id] = ev after "
               "update_station_id(None); the station is drawn by random.choice from available_evses() whose filter is `evse.ev is None`, "
               "and the enqueue happens exactly on the no-free-station edge; the queue is FIFO (insert at the end, popitem(last=False)); in "
               "unplug every dequeue is followed on all paths by update_station_id(station_id) and super().plugin of the dequeued EV, happens "
               "only after this station's EVSE was vacated on that path and only when the queue is non-empty; never_charged is incremented "
               "exactly with the removal of a waiting EV, swaps exactly with a dequeue, early_unplug with each early unplug; early departure "
               "considers `ev is not None and ev.fully_charged`, only when enabled and while the queue is non-empty; the simulator calls "
               "network.unplug(station, session) on every path of the Unplug branch (also for EVs that never got a station) and "
               "post_charging_update() once per period after the rates were stored and before the period counter advances; the only source "
               "of randomness is random.choice of the global random module; every dereference of a station's occupant (`.ev`) in the "
               "stochastic network is None-guarded on every path (the unplug event of an EV that left early finds its station empty).")
NOT_DECIDED = ("the global invariants over whole histories (they follow from the transition-local facts by induction, argued in DESIGN.md, "
               "not mechanised); the distribution of the random choice")


def all_paths(cfg, limit=5000):
    """acyclic entry->exit paths (each loop head at most twice)"""
    out = []
    stack = [(cfg.entry, (cfg.entry,))]
    while stack:
        n, path = stack.pop()
        if n is cfg.exit or n is cfg.raise_exit:
            out.append(path)
            if len(out) > limit:
                raise AnalysisError("path enumeration limit exceeded")
            continue
        for s in n.succ:
            if path.count(s) >= 2:
                continue
            stack.append((s, path + (s,)))
    return out


def rule_plugin(ck):
    repo = ck.repo
    f = repo.fn("StochasticNetwork.plugin")
    fl = flow_of(f)
    cfg = fl.cfg
    ev = f.params[1]
    supers = [n for n, c in calls_in(fl, "plugin") if isinstance(c.func.value, ast.Call) and call_name(c.func.value) == "super"]
    enq = [n for n in cfg.nodes if n.kind == "stmt" and isinstance(n.stmt, ast.Assign) and isinstance(n.stmt.targets[0], ast.Subscript)
           and canon(n.stmt.targets[0].value) == "self.waiting_queue"]
    paths = [p for p in all_paths(cfg) if p[-1] is cfg.exit]
    ck.count("paths enumerated (plugin)", len(paths))
    ck.floor("C19.R1", len(paths), 2, "normal paths through StochasticNetwork.plugin")
    for i, p in enumerate(paths):
        k = sum(1 for n in p if n in supers) + sum(1 for n in p if n in enq)
        desc = " -> ".join(src(n.stmt, 30) for n in p if n.kind == "stmt")[:160]
        ck.require(k == 1, "C19.R1", f, f"path {i}: {desc}", ok="exactly one placement (station or waiting queue)",
                   bad=f"this path performs {k} placements: the arriving EV is {'lost' if k == 0 else 'both connected and queued / placed twice'}", sink=f"plugin:path-placements:{k}")
    for n in supers:
        c = [c for nn, c in calls_in(fl, "plugin") if nn is n][0]
        ck.require(c.args and dotted(c.args[0]) == ev, "C19.R1", f, c, ok="the arriving EV itself is connected", bad="super().plugin is not given the arriving EV", sink="plugin:super-arg")
        ups = [(nn, cc) for nn, cc in calls_in(fl, "update_station_id") if cfg.dominates(nn, n) and dotted(cc.func.value) == ev]
        ok = bool(ups) and canon(uncopy_deep(fl.expand(ups[-1][1].args[0], ups[-1][0]))) == "random.choice(self.available_evses())"
        ck.require(ok, "C19.R2", f, ups[-1][1] if ups else c, ok="station drawn by random.choice from the free stations, recorded on the EV before connecting",
                   bad="the EV's station is not set to random.choice(self.available_evses()) before it is connected", sink="plugin:choice")
        ok = emptiness(fl, n, "self.available_evses()") == "nonempty"
        ck.require(ok, "C19.R2", f, c, ok="connects only when a free station exists", bad="super().plugin is not guarded by `a free station exists`", sink="plugin:free-guard")
    for n in enq:
        s = n.stmt
        ok = canon(fl.expand(s.targets[0].slice, n)) == f"{ev}.session_id" and canon(fl.expand(s.value, n)) == ev
        ck.require(ok, "C19.R1", f, s, ok="queued under its session id", bad="the waiting EV is not stored as waiting_queue[ev.session_id] = ev", sink="plugin:enqueue-key")
        ups = [(nn, cc) for nn, cc in calls_in(fl, "update_station_id") if cfg.dominates(nn, n) and dotted(cc.func.value) == ev]
        ok = bool(ups) and isinstance(ups[-1][1].args[0], ast.Constant) and ups[-1][1].args[0].value is None
        ck.require(ok, "C19.R1", f, ups[-1][1] if ups else s, ok="a waiting EV has no station", bad="a queued EV keeps a station id", sink="plugin:enqueue-station")
        ok = emptiness(fl, n, "self.available_evses()") == "empty"
        ck.require(ok, "C19.R2", f, s, ok="queued exactly when no station is free", bad="an EV is queued although the `no free station` condition is not established", sink="plugin:enqueue-guard")
    # available_evses
    av = repo.fn("StochasticNetwork.available_evses")
    al = flow_of(av)
    for r in [n for n in al.cfg.nodes if n.kind == "return"]:
        e = al.expand(r.expr, r)
        ok = False
        if isinstance(e, ast.ListComp) and len(e.generators) == 1:
            g = e.generators[0]
            if canon(g.iter) == "self._EVSEs.items()" and isinstance(g.target, ast.Tuple) and len(g.target.elts) == 2 and len(g.ifs) == 1:
                k, v = g.target.elts[0].id, g.target.elts[1].id
                c = cmp_norm(g.ifs[0])
                ok = dotted(e.elt) == k and c and c[1] == "is" and canon(c[0]) in (f"{v}.ev", f"{v}._ev") and isinstance(c[2], ast.Constant) and c[2].value is None
        ck.require(bool(ok), "C19.R2", av, r.expr, ok="free = stations whose EVSE has no EV, all stations considered", bad="available_evses is not [id for id, evse in _EVSEs.items() if evse.ev is None]",
                   sink="available:filter")


def rule_fifo(ck):
    repo = ck.repo
    cls = repo.cls("StochasticNetwork")
    n_pop = 0
    for name, m in cls.methods.items():
        fl = flow_of(m)
        for n, c in calls_in(fl, "popitem"):
            if canon(c.func.value) != "self.waiting_queue":
                continue
            n_pop += 1
            last = next((k.value for k in c.keywords if k.arg == "last"), c.args[0] if c.args else None)
            ok = isinstance(last, ast.Constant) and last.value is False
            ck.require(ok, "C19.R3", m, c, ok="dequeues the oldest waiting EV", bad=f"`{src(c)}` removes the newest waiting EV (LIFO): earlier arrivals can starve", sink=f"{name}:popitem")
        for n, c in calls_in(fl, "move_to_end"):
            last = next((k.value for k in c.keywords if k.arg == "last"), c.args[1] if len(c.args) > 1 else None)
            ok = last is None or (isinstance(last, ast.Constant) and last.value is True)
            ck.require(ok, "C19.R3", m, c, ok="new arrivals go to the end", bad="an arriving EV is moved to the front of the waiting queue", sink=f"{name}:move_to_end")
        for n, c in calls_in(fl):
            if call_name(c) in ("pop", "popleft", "insert", "appendleft", "sort", "reverse", "clear") and isinstance(c.func, ast.Attribute) and canon(c.func.value) == "self.waiting_queue":
                ck.violation("C19.R3", m, c, f"`{src(c)}` mutates the waiting queue outside the FIFO discipline (insert at end / popitem(last=False) / delete by session id)", sink=f"{name}:{call_name(c)}")
    ck.floor("C19.R3", n_pop, 1, "dequeue sites")
    init = repo.fn("StochasticNetwork.__init__")
    il = flow_of(init)
    st = [n for n in il.cfg.nodes if n.kind == "stmt" and isinstance(n.stmt, ast.Assign) and any(dotted(t) == "self.waiting_queue" for t in n.stmt.targets)]
    ck.require(bool(st) and all(canon(n.stmt.value) == "OrderedDict()" for n in st), "C19.R3", init, st[0].stmt if st else "self.waiting_queue = OrderedDict()",
               ok="insertion-ordered mapping, initially empty", bad="the waiting queue is not an initially empty OrderedDict", sink="init:queue")


def rule_unplug(ck):
    repo = ck.repo
    f = repo.fn("StochasticNetwork.unplug")
    fl = flow_of(f)
    cfg = fl.cfg
    sid, sess = f.params[1:3]
    pops = [(n, c) for n, c in calls_in(fl, "popitem") if canon(c.func.value) == "self.waiting_queue"]
    ck.require(len(pops) == 1, "C19.R4", f, pops[0][1] if pops else "popitem", bad=f"{len(pops)} dequeues in unplug", sink="unplug:pops")
    for n, c in pops:
        st = n.stmt
        var = None
        if isinstance(st, ast.Assign) and isinstance(st.targets[0], ast.Tuple) and len(st.targets[0].elts) == 2:
            var = dotted(st.targets[0].elts[1])
        ck.require(var is not None, "C19.R4", f, st, ok="the dequeued EV is bound", bad="the dequeued EV is discarded", sink="unplug:bind")
        ups = [nn for nn, cc in calls_in(fl, "update_station_id") if dotted(cc.func.value) == var and cc.args and dotted(cc.args[0]) == sid]
        plg = [nn for nn, cc in calls_in(fl, "plugin") if isinstance(cc.func.value, ast.Call) and call_name(cc.func.value) == "super" and cc.args and dotted(cc.args[0]) == var]
        for what, nodes in (("update_station_id(station_id)", ups), ("super().plugin(next_ev)", plg)):
            ok = bool(nodes) and cfg.exit not in cfg.reach(n, avoid=set(nodes) | {cfg.raise_exit}) or (bool(nodes) and n in nodes)
            ck.require(ok, "C19.R4", f, st, ok=f"every path after the dequeue performs {what}", bad=f"a path after the dequeue skips {what}: the dequeued EV is lost / connected without a station id",
                       sink=f"unplug:after-pop:{what}")
        ck.require(bool(ups) and bool(plg) and all(cfg.dominates(u, p) for u in ups for p in plg), "C19.R4", f, st, ok="station id set before connecting", bad="the dequeued EV is connected before its station id is set",
                   sink="unplug:order")
        vac = [nn for nn, cc in calls_in(fl, "unplug") if canon(fl.expand(cc.func.value, nn)) == f"self._EVSEs[{sid}]"]
        ck.require(bool(vac) and any(cfg.dominates(v, n) for v in vac), "C19.R4", f, c, ok="only after this station was vacated on this path",
                   bad="an EV is dequeued on a path where the station was not just vacated: two EVs on one station", sink="unplug:vacated")
        fs = [cmp_norm(fl.expand(a, n), t) for a, t in facts_at(fl, n)]
        ok = emptiness(fl, n, "self.waiting_queue") == "nonempty"
        ck.require(ok, "C19.R4", f, c, ok="only when someone is waiting", bad="popitem on a possibly empty queue", sink="unplug:nonempty")
        ok = any(c_ and c_[1] == "==" and {canon(c_[0]), canon(c_[2])} == {sess, f"self._EVSEs[{sid}].ev.session_id"} for c_ in fs)
        ck.require(ok, "C19.R4", f, c, ok="only when the departing session is the one on the station", bad="the swap is not conditional on the session id matching the station's EV", sink="unplug:session-match")
        sw = [nn for nn, k, p, t in state_writes(fl) if p == "self.swaps"]
        ok = len(sw) == 1 and isinstance(sw[0].stmt, ast.AugAssign) and isinstance(sw[0].stmt.op, ast.Add) and canon(sw[0].stmt.value) == "1" and (cfg.dominates(n, sw[0]) or cfg.dominates(sw[0], n)) \
            and {(t.id, lab) for t, lab in cfg.edges_dominating(sw[0])} == {(t.id, lab) for t, lab in cfg.edges_dominating(n)}
        ck.require(ok, "C19.R5", f, sw[0].stmt if sw else "self.swaps += 1", ok="swaps counted exactly with each dequeue", bad="swaps is not incremented by 1 exactly on the dequeue path", sink="unplug:swaps")
    # waiting EV departs: removed and counted
    dels = [n for n in cfg.nodes if n.kind == "stmt" and isinstance(n.stmt, ast.Delete) and any(isinstance(t, ast.Subscript) and canon(t.value) == "self.waiting_queue" for t in n.stmt.targets)]
    pops2 = [n for n, c in calls_in(fl, "pop") if canon(c.func.value) == "self.waiting_queue"]
    rem = dels + pops2
    ck.require(len(rem) == 1, "C19.R5", f, rem[0].stmt if rem else "del self.waiting_queue[session_id]", bad=f"{len(rem)} removals of a waiting EV", sink="unplug:remove-waiting")
    for n in rem:
        ok = any((c_ := cmp_norm(a, t)) and c_[1] == "in" and canon(c_[0]) == sess and canon(c_[2]) == "self.waiting_queue" for a, t in facts_at(fl, n))
        ck.require(ok, "C19.R5", f, n.stmt, ok="on the `session is waiting` edge", bad="the removal is not guarded by `session_id in self.waiting_queue`", sink="unplug:remove-guard")
        if isinstance(n.stmt, ast.Delete):
            ck.require(all(canon(t.slice) == sess for t in n.stmt.targets), "C19.R5", f, n.stmt, ok="removes the departing session", bad="another key is deleted", sink="unplug:remove-key")
        nc = [nn for nn, k, p, t in state_writes(fl) if p == "self.never_charged"]
        ok = len(nc) == 1 and isinstance(nc[0].stmt, ast.AugAssign) and canon(nc[0].stmt.value) == "1" and isinstance(nc[0].stmt.op, ast.Add) and \
            {(t.id, lab) for t, lab in cfg.edges_dominating(nc[0])} == {(t.id, lab) for t, lab in cfg.edges_dominating(n)}
        ck.require(ok, "C19.R5", f, nc[0].stmt if nc else "self.never_charged += 1", ok="counted as never charged exactly when removed from the queue",
                   bad="never_charged is not incremented by 1 exactly on the `departs while waiting` path", sink="unplug:never_charged")
    # the waiting test comes first (an EV that waits has no station)
    tests = [n for n in cfg.nodes if n.kind == "test"]
    first = min(tests, key=lambda n: n.id) if tests else None
    c_ = cmp_norm(first.expr) if first is not None else None
    ck.require(bool(c_) and c_[1] == "in" and canon(c_[0]) == sess and canon(c_[2]) == "self.waiting_queue", "C19.R5", f, first.expr if first is not None else "first test",
               ok="the waiting queue is consulted first (a waiting EV has station None)", bad="unplug does not first check whether the session is waiting", sink="unplug:first-test")


def rule_early(ck):
    repo = ck.repo
    f = repo.fn("StochasticNetwork.post_charging_update")
    fl = flow_of(f)
    cfg = fl.cfg
    ups = [(n, c) for n, c in calls_in(fl, "unplug") if dotted(c.func.value) == "self"]
    ck.require(len(ups) == 1, "C19.R6", f, ups[0][1] if ups else "self.unplug(...)", bad=f"{len(ups)} early-unplug call sites", sink="early:count")
    unplug = repo.fn("StochasticNetwork.unplug")
    for n, c in ups:
        fs = [(canon(a), t) for a, t in facts_at(fl, n)]
        ck.require(("self.early_departure", True) in fs, "C19.R6", f, c, ok="only when early departure is enabled", bad="early unplug is not guarded by self.early_departure", sink="early:enabled")
        from ..rules import emptiness
        nonempty = any((c_ := cmp_norm(a, t)) and c_[1] == "<" and canon(c_[0]) == "0" and canon(c_[2]) == "len(self.waiting_queue)" for a, t in facts_at(fl, n)) or ("self.waiting_queue", True) in fs \
            or emptiness(fl, n, "self.waiting_queue") == "nonempty"
        ck.require(nonempty, "C19.R6", f, c, ok="only while someone is waiting", bad="satisfied EVs are unplugged early although nobody is waiting", sink="early:nonempty")
        # every early unplug admits (and removes) the head of the queue: the "someone is waiting" test must be made again for each one, i.e.
        # inside the loop the unplug sits in - a test made once before the loop is stale from the second satisfied EV on
        loops = [t for t, lab in cfg.edges_dominating(n) if lab is True and (t.kind in ("for",) or (t.kind == "test" and isinstance(t.stmt, ast.While)))
                 and n in cfg.loop_region(t)]
        if nonempty and loops:
            inner = min(loops, key=lambda t: len(cfg.loop_region(t)))
            body = cfg.loop_region(inner)
            guards = [t for t, lab in cfg.edges_dominating(n) if t.kind == "test" and not isinstance(t.stmt, ast.While) and "waiting_queue" in canon(fl.expand(t.expr, t))]
            fresh = any(t in body for t in guards)
            ck.require(fresh, "C19.R6", f, c, ok="the queue is looked at again for every satisfied EV", bad="`someone is waiting` is tested once before the loop over the satisfied EVs, "
                       "but every early unplug admits the head of the queue: from the second EV on the test is stale and an EV is evicted with nobody waiting", sink="early:nonempty-per-ev")
        b = bind_args(c, unplug, method=True)
        loops = [t for t, lab in cfg.edges_dominating(n) if t.kind == "for" and lab is True]
        var = loops[-1].stmt.target.id if loops and isinstance(loops[-1].stmt.target, ast.Name) else None
        ok = var is not None and canon(b.get("station_id")) == f"{var}.station_id" and canon(b.get("session_id")) == f"{var}.session_id"
        ck.require(ok, "C19.R6", f, c, ok="unplugs that EV by its own station and session", bad="the early unplug is not unplug(ev.station_id, ev.session_id)", sink="early:args")
        if loops:
            it = uncopy_deep(fl.expand(loops[-1].stmt.iter, loops[-1]))
            good = False
            why = "candidates are not a filtered list of the EVSEs' EVs"
            if isinstance(it, ast.ListComp) and len(it.generators) == 1:
                g = it.generators[0]
                v = g.target.id if isinstance(g.target, ast.Name) else None
                if canon(g.iter) == "self._EVSEs.values()" and canon(it.elt) in (f"{v}.ev", f"{v}._ev"):
                    cond = ast.BoolOp(op=ast.And(), values=list(g.ifs)) if len(g.ifs) != 1 else g.ifs[0]

                    def atom(e):
                        if isinstance(e, ast.Compare) and len(e.ops) == 1 and isinstance(e.comparators[0], ast.Constant) and e.comparators[0].value is None \
                                and canon(e.left) in (f"{v}.ev", f"{v}._ev"):
                            return "P", isinstance(e.ops[0], (ast.IsNot, ast.NotEq))
                        if isinstance(e, ast.Attribute) and e.attr == "fully_charged" and canon(e.value) in (f"{v}.ev", f"{v}._ev"):
                            return "F", True
                        raise AnalysisError(f"early-departure filter: unknown atom {src(e)}")
                    try:
                        bad = compare(cond, ["P", "F"], lambda val: val["P"] and val["F"], atom, lambda name, val: name != "F" or val["P"])
                        good = not bad
                        why = "; ".join(bad[:2])
                    except AnalysisError as e:
                        why = str(e) + " (the satisfied-EV test must be the EV's own fully_charged predicate, which every scheduler uses)"
            ck.require(good, "C19.R6", f, loops[-1].stmt.iter, ok="candidates = connected and fully charged EVs (None-safe)", bad=f"early-departure candidates: {why}", sink="early:filter")
        eu = [nn for nn, k, p, t in state_writes(fl) if p == "self.early_unplug"]
        ok = len(eu) == 1 and isinstance(eu[0].stmt, ast.AugAssign) and canon(eu[0].stmt.value) == "1" and \
            {(t.id, lab) for t, lab in cfg.edges_dominating(eu[0])} == {(t.id, lab) for t, lab in cfg.edges_dominating(n)}
        ck.require(ok, "C19.R5", f, eu[0].stmt if eu else "self.early_unplug += 1", ok="early_unplug counted with each early unplug", bad="early_unplug is not incremented exactly with each early unplug", sink="early:counter")


def rule_simulator(ck):
    repo = ck.repo
    from .c01 import dispatch_branches, process_event_by_type
    pe, _split = process_event_by_type(repo)
    fl = flow_of(pe)
    br = dispatch_branches(fl, pe.params[1])
    if "Unplug" not in br:
        raise AnalysisError("_process_event: Unplug branch not found")
    edge = br["Unplug"]
    ups = [(n, c) for n, c in calls_in(fl, "unplug") if n in region(fl, edge)]
    ck.require(len(ups) == 1, "C19.R7", pe, ups[0][1] if ups else "network.unplug", bad=f"{len(ups)} unplug calls on the Unplug branch", sink="sim:unplug-count")
    for n, c in ups:
        ok = fl.cfg.exit not in fl.cfg.reach(edge, avoid={n, fl.cfg.raise_exit})
        ck.require(ok, "C19.R7", pe, c, ok="network.unplug is called for every Unplug event (also for an EV that is still waiting, station None)",
                   bad="a path through the Unplug branch skips network.unplug: an EV that departs while waiting is never removed from the queue and is later connected after its departure",
                   sink="sim:unplug-every-path")
        net = repo.fn("ChargingNetwork.unplug")
        b = bind_args(c, net, method=True)
        ev = pe.params[1]
        ok = b.get("station_id") is not None and b.get("session_id") is not None and \
            canon(fl.expand(b["station_id"], n)) in (f"{ev}.ev.station_id", f"{ev}.station_id") and \
            canon(fl.expand(b["session_id"], n)) in (f"{ev}.ev.session_id", f"{ev}.session_id")
        ck.require(ok, "C19.R7", pe, c, ok="(station id, session id) of the event's EV", bad="network.unplug is not called with the event EV's station and session ids", sink="sim:unplug-args")
    run = inline_helpers(repo, repo.fn("Simulator.run"))
    rl = flow_of(run)
    cfg = rl.cfg
    pcs = [(n, c) for n, c in calls_in(rl, "post_charging_update")]
    ck.require(len(pcs) == 1, "C19.R7", run, pcs[0][1] if pcs else "self.network.post_charging_update()", ok="hook called once per period",
               bad=f"{len(pcs)} calls of network.post_charging_update() in run(): early departure never happens / happens twice", sink="sim:hook-count")
    for n, c in pcs:
        heads = [t for t, lab in cfg.edges_dominating(n) if t.kind == "test" and lab is True and isinstance(t.stmt, ast.While)]
        conds = [t for t, lab in cfg.edges_dominating(n) if t.kind == "test" and isinstance(t.stmt, ast.If) and heads and cfg.dominates(heads[0], t)]
        ck.require(len(heads) == 1 and not conds, "C19.R7", run, c, ok="unconditionally in the period loop", bad="the hook is not executed unconditionally once per period", sink="sim:hook-unconditional")
        stores = [nn for nn, cc in calls_in(rl, "_store_actual_charging_rates")]
        incs = [nn for nn, k, p, t in state_writes(rl) if p == "self._iteration"]
        ok = bool(stores) and all(cfg.dominates(s_, n) for s_ in stores) and bool(incs) and all(cfg.dominates(n, i) for i in incs)
        ck.require(ok, "C19.R7", run, c, ok="after the period's rates are recorded, before the period counter advances",
                   bad="the hook does not sit between recording the rates and advancing the period: the rate of an EV unplugged early is recorded as 0 / in the wrong period", sink="sim:hook-order")
    # EV.update_station_id stores the id
    u = repo.fn("EV.update_station_id")
    ul = flow_of(u)
    st = [n for n, k, p, t in state_writes(ul) if p == "self._station_id"]
    ck.require(bool(st) and all(canon(n.stmt.value) == u.params[1] for n in st), "C19.R7", u, st[0].stmt if st else "self._station_id = station_id", ok="stores the given id",
               bad="update_station_id does not store the given station id", sink="ev:update_station_id")


def rule_random(ck):
    repo = ck.repo
    cls = repo.cls("StochasticNetwork")
    n = 0
    for name, m in cls.methods.items():
        for c in walk_local(m.node):
            if isinstance(c, ast.Call):
                d = dotted(c.func) or ""
                if "random" in d.split(".")[:-1] or d.startswith("random."):
                    n += 1
                    ck.require(d == "random.choice" and name == "plugin", "C19.R8", m, c, ok="global random.choice: reproducible under random.seed",
                               bad=f"`{src(c, 50)}`: randomness other than random.choice of the global module (not controlled by random.seed)", sink=f"random:{name}:{d}")
                if d.startswith(("np.random", "numpy.random", "secrets.", "os.urandom")) or call_name(c) in ("SystemRandom", "default_rng", "RandomState"):
                    ck.violation("C19.R8", m, c, f"`{src(c, 50)}`: a second random source that random.seed does not control", sink=f"random:{name}:other")
    ck.floor("C19.R8", n, 1, "random call sites in StochasticNetwork")


def rule_empty_station(ck, rid="C19.R9"):
    """an unplug event of an EV that already left early finds its old station empty (or re-occupied): every dereference of a
    station's occupant in the stochastic network is guarded against None on every path - an AttributeError there aborts the run
    and the remaining sessions never leave"""
    from ..nullflow import check_optional_attr
    repo = ck.repo
    n = 0
    for q in ("StochasticNetwork.unplug", "StochasticNetwork.post_charging_update", "StochasticNetwork.plugin", "StochasticNetwork.available_evses"):
        f = repo.fn(q)
        n += check_optional_attr(ck, rid, f, flow_of(f), attr="ev", deref_only=True)
    ck.floor(rid, n, 1, "dereferences of a station's occupant in the stochastic network")


def run(ck):
    ck.attempt(rule_empty_station)
    ck.attempt(rule_plugin)
    ck.attempt(rule_fifo)
    ck.attempt(rule_unplug)
    ck.attempt(rule_early)
    ck.attempt(rule_simulator)
    ck.attempt(rule_random)
    # "early departure of satisfied EVs": satisfied is the EV's own fully_charged predicate, remaining demand <= 1e-3 (definition rule of C05)
    from .c05 import rule_active
    ck.attempt(rule_active)


"""C11 - event queue order (heap discipline, key, precedence, inclusive cut, derived queries, restore)."""
import ast

from ..core import AnalysisError, dotted, call_name, src, walk_local
from ..flow import edge_facts, leaves
from ..rules import (flow_of, calls_in, canon, state_writes, who_writes, cmp_norm, facts_at, mutating_calls)
from .c01 import rule_precedence, rule_heap_key

EXPLANATION = ("Static rules over events/event_queue.py and events/event.py (plus a package-wide who-writes sweep): the heap "
               "array is mutated only through heapq.heappush/heappop (and the order-preserving restore), heap entries are "
               "(timestamp, event) so that ties fall to Event.__lt__ on precedence with Unplug<Plugin<Recompute, "
               "get_current_events pops while `non-empty and head <= t` (inclusive) exactly once per iteration into the "
               "returned list, len/empty/get_last_timestamp are functions of the heap array only (maximum of component 0), "
               "and _to_dict/_from_dict keep the array order. Together with heapq's documented contract these give the stated "
               "order for every interleaving.")
NOT_DECIDED = "heapq's own correctness (trusted); behaviour of user-defined Event subclasses"


def order_preserving_list(fl, value, node, is_source):
    """value (at node) is a list built from a source sequence in the source's order."""
    v = value
    if isinstance(v, ast.Name):
        name = v.id
        defs = fl.defs_at(node, name)
        if len(defs) != 1:
            return False, f"{name} has {len(defs)} definitions"
        d = next(iter(defs))
        how = fl.def_how(d, name)
        if how[0] != "assign":
            return False, "not a plain assignment"
        init = how[1]
        if isinstance(init, ast.List) and not init.elts:
            # built by appends inside a for over the source
            ok_any = False
            for n in fl.cfg.nodes:
                for e in fl.cfg.node_exprs(n):
                    for p, m, c in mutating_calls(e):
                        if p == name:
                            if m != "append":
                                return False, f"{name}.{m}() disturbs the order"
                            loops = [t for t, lab in fl.cfg.edges_dominating(n) if t.kind == "for" and lab is True]
                            if not loops or not is_source(loops[-1].stmt.iter):
                                return False, f"append to {name} not inside a loop over the source in source order"
                            ok_any = True
            # any reassignment / sort between?
            for n in fl.cfg.nodes:
                if n is not d and name in fl._defs.get(n, {}):
                    return False, f"{name} is rebound"
            return ok_any, "built by append in source order"
        if isinstance(init, ast.ListComp) and len(init.generators) == 1 and is_source(init.generators[0].iter) and not init.generators[0].ifs:
            return True, "comprehension over the source"
        if is_source(init):
            return True, "the source itself"
        if isinstance(init, ast.Call) and call_name(init) == "list" and init.args and is_source(init.args[0]):
            return True, "list(source)"
        return False, f"initialised from {src(init)}"
    if isinstance(v, ast.ListComp) and len(v.generators) == 1 and is_source(v.generators[0].iter) and not v.generators[0].ifs:
        return True, "comprehension over the source"
    return False, f"value is {src(v)}"


def rule_heap_discipline(ck, rid="C11.R1"):
    repo = ck.repo
    writes = who_writes(repo, "_queue") + [w for w in who_writes(repo, "queue") if w[0] is not None]
    n = 0
    ordered_ops = 0
    for f, kind, path, node in writes:
        if not (path.endswith("._queue") or path.endswith(".queue")):
            continue
        if f.cls is None or f.cls.name != "EventQueue":
            # other classes may have their own `queue` locals; only attribute paths on an EventQueue matter
            if not (path.endswith("event_queue._queue") or path.endswith("event_queue.queue") or path.endswith("events._queue")):
                continue
        n += 1
        if kind in ("mut:heappush", "mut:heappop"):
            ordered_ops += 1
            ck.holds(rid, f, node, "recognised ordered-container operation (heapq)")
        elif kind == "assign" and f.name == "__init__":
            v = [s for s in walk_local(f.node) if isinstance(s, ast.Assign) and node in s.targets]
            ok = v and isinstance(v[0].value, ast.List) and not v[0].value.elts
            ck.require(bool(ok), rid, f, node, ok="starts empty", bad="the heap must start as an empty list", sink="init")
        elif kind == "assign" and f.name == "_from_dict":
            ck.holds(rid, f, node, "restore (order checked by C11.R6)")
        else:
            ck.violation(rid, f, node, f"`{path}` is mutated by {kind} - mixing an unordered mutation with heapq breaks the heap order",
                         sink=f"{kind}:{path.split('.')[-1]}")
    ck.floor(rid, ordered_ops, 2, "heapq operations on EventQueue._queue")
    ck.count("who-writes sites(_queue)", n)


def rule_cut(ck, rid="C11.R4"):
    repo = ck.repo
    g = repo.fn("EventQueue.get_current_events")
    fl = flow_of(g)
    cfg = fl.cfg
    loops = [n for n in cfg.nodes if n.kind == "test" and isinstance(n.stmt, ast.While)]
    if len(loops) != 1:
        raise AnalysisError("get_current_events: expected exactly one while loop")
    head = loops[0]
    tparam = g.params[1]
    facts = edge_facts(head.expr, True)
    nonempty = cutok = False
    strict = False
    for a, t in facts:
        ce = canon(a)
        if (isinstance(a, ast.Call) and ce in ("self.empty()",) and not t) or (ce in ("self._queue", "len(self._queue)") and t):
            nonempty = True
            continue
        c = cmp_norm(a, t)
        if c:
            l, op, r = c
            ls, rs = canon(fl.expand(l, head)), canon(fl.expand(r, head))
            if ls in ("len(self._queue)", "0") and rs in ("len(self._queue)", "0"):
                nonempty = True
                continue
            rs_ok = rs in (tparam, "self._timestep")
            if ls == "self._queue[0][0]" and rs_ok:
                if op == "<=":
                    cutok = True
                elif op == "<":
                    strict = True
    ck.require(nonempty, rid, g, head.expr, ok="loop guarded by non-emptiness", bad="pop loop must test that the queue is non-empty",
               sink="cut-nonempty")
    ck.require(cutok, rid, g, head.expr, ok="events with timestamp <= t are returned (inclusive)",
               bad="the cut must be `head timestamp <= timestep` (inclusive)" + (" - found strict <" if strict else ""), sink="cut-inclusive")
    # `self._timestep = timestep` when used
    if "self._timestep" in canon(head.expr):
        st = [(n, t) for n, k, p, t in state_writes(fl) if p == "self._timestep"]
        ok = len(st) == 1 and canon(st[0][0].stmt.value) == tparam and cfg.dominates(st[0][0], head)
        ck.require(ok, rid, g, st[0][1] if st else "self._timestep = timestep", ok="the compared bound is the argument",
                   bad="self._timestep must be set from the argument before the loop", sink="cut-bound")
    body = cfg.loop_body_nodes(head)
    pops = [(n, c) for n, c in calls_in(fl) if n in body and call_name(c) in ("get_event", "heappop")]
    true_edge = [s for s in head.succ if s.kind == "edge" and s.label][0]
    ok = len(pops) == 1 and head not in cfg.reach(true_edge, avoid={pops[0][0]})
    ck.require(ok, rid, g, pops[0][1] if pops else "self.get_event()", ok="exactly one pop per iteration",
               bad="each iteration must pop exactly one event", sink="cut-pop-once")
    rets = [n for n in cfg.nodes if n.kind == "return"]
    good = False
    if pops and rets:
        # popped value appended to the returned list
        for n, c in calls_in(fl, "append"):
            if n in body and c.args and any(p[1] is x for x in ast.walk(c.args[0]) for p in pops):
                lst = dotted(c.func.value)
                good = all(dotted(r.expr) == lst for r in rets)
    ck.require(good, rid, g, rets[0].expr if rets else "return current_events", ok="every popped event is returned",
               bad="popped events must be appended to the list that is returned", sink="cut-returned")


def rule_derived(ck, rid="C11.R5"):
    repo = ck.repo
    q = repo.cls("EventQueue")
    for name in ("__len__", "empty", "get_last_timestamp"):
        m = repo.method(q, name)
        fl = flow_of(m)
        for r in [n for n in fl.cfg.nodes if n.kind == "return"]:
            if r.expr is None:
                continue
            lv = {x for x in leaves(fl.expand(r.expr, r)) if x not in ("len()", "max()", "x")}
            lv = {x for x in lv if not x.endswith("()") or x.startswith("self.")}
            extra = {x for x in lv if x not in ("self._queue", "self.empty()", "self.queue", "len", "max")}
            ck.require(not extra, rid, m, r.expr, ok="a function of the heap array only",
                       bad=f"{name} depends on {sorted(extra)} - must reflect the pending set (no shadow state)", sink=f"{name}-influence")
        shadow = [(n, p) for n, k, p, t in state_writes(fl)]
        ck.require(not shadow, rid, m, name, ok="query has no side effects", bad=f"{name} writes {shadow[0][1] if shadow else ''}",
                   sink=f"{name}-pure")
    # shadow counters: any other attribute of EventQueue written in add/get methods besides _queue/_timestep
    for name in ("add_event", "add_events", "get_event"):
        m = repo.method(q, name)
        fl = flow_of(m)
        extra = [(n, p, t) for n, k, p, t in state_writes(fl) if p not in ("self._queue", "self._timestep")]
        ck.require(not extra, rid, m, extra[0][2] if extra else name, ok="no shadow state", bad="extra queue state is maintained beside the heap",
                   sink=f"{name}-shadow")
    glt = repo.method(q, "get_last_timestamp")
    fl = flow_of(glt)
    rets = [n for n in fl.cfg.nodes if n.kind == "return" and n.expr is not None and not (isinstance(n.expr, ast.Constant) and n.expr.value is None)]
    for r in rets:
        e = fl.expand(r.expr, r)
        calls = [c for c in ast.walk(e) if isinstance(c, ast.Call) and call_name(c) in ("max", "min", "nlargest", "nsmallest", "sorted")]
        if not calls:
            raise AnalysisError(f"get_last_timestamp: reduction idiom not recognised: {src(e)}")
        c = calls[0]
        is_max = call_name(c) == "max"
        comp0 = False
        key = [k.value for k in c.keywords if k.arg == "key"]
        if key and isinstance(key[0], ast.Lambda) and isinstance(key[0].body, ast.Subscript) and canon(key[0].body.slice) == "0" \
                and isinstance(e, ast.Subscript) and canon(e.slice) == "0":
            comp0 = True
        if c.args and isinstance(c.args[0], (ast.GeneratorExp, ast.ListComp)):
            g = c.args[0]
            tgt = g.generators[0].target
            if isinstance(g.elt, ast.Subscript) and canon(g.elt.slice) == "0":
                comp0 = True
            if isinstance(tgt, ast.Tuple) and isinstance(g.elt, ast.Name) and isinstance(tgt.elts[0], ast.Name) and tgt.elts[0].id == g.elt.id:
                comp0 = True
        guarded = any(isinstance(a, ast.Call) and canon(a) == "self.empty()" and not t for a, t in facts_at(fl, r)) or \
            any(canon(a) in ("self._queue",) and t for a, t in facts_at(fl, r))
        ck.require(is_max and comp0, rid, glt, r.expr, ok="maximum over the timestamp component",
                   bad="get_last_timestamp must be the maximum of the timestamps (component 0)", sink="last-timestamp-max")
        ck.require(guarded, rid, glt, r.expr, ok="only on the non-empty edge", bad="max() of an empty queue", sink="last-timestamp-guard")


def rule_restore(ck, rid="C11.R6"):
    repo = ck.repo
    fd = repo.fn("EventQueue._from_dict")
    fl = flow_of(fd)
    st = [(n, t) for n, k, p, t in state_writes(fl, roots=("out_obj", "self")) if p.endswith("._queue") and k == "assign"]
    ck.require(len(st) == 1, rid, fd, st[0][1] if st else "out_obj._queue = ...", bad="restore of _queue not found", sink="restore-store")
    for n, t in st:
        ok, why = order_preserving_list(fl, n.stmt.value, n, lambda it: canon(it) in ('attribute_dict["_queue"]', "attribute_dict['_queue']"))
        ck.require(ok, rid, fd, n.stmt, ok=f"restored in dumped order ({why})", bad=f"restored heap array is not in dumped order: {why}",
                   sink="restore-order")
    td = repo.fn("EventQueue._to_dict")
    fl = flow_of(td)
    hit = 0
    for n in fl.cfg.nodes:
        if n.kind == "stmt" and isinstance(n.stmt, ast.Assign):
            for t in n.stmt.targets:
                if isinstance(t, ast.Subscript) and canon(t) in ('attribute_dict["_queue"]', "attribute_dict['_queue']"):
                    hit += 1
                    ok, why = order_preserving_list(fl, n.stmt.value, n, lambda it: canon(it) == "self._queue")
                    ck.require(ok, rid, td, n.stmt, ok=f"dumped in array order ({why})", bad=f"dump does not keep the heap array order: {why}",
                               sink="dump-order")
    if hit == 0:
        # dict literal form
        for n in fl.cfg.nodes:
            for e in fl.cfg.node_exprs(n):
                for d in [x for x in ast.walk(e) if isinstance(x, ast.Dict)]:
                    for k, v in zip(d.keys, d.values):
                        if isinstance(k, ast.Constant) and k.value == "_queue":
                            hit += 1
                            ok, why = order_preserving_list(fl, v, n, lambda it: canon(it) == "self._queue")
                            ck.require(ok, rid, td, v, ok=why, bad=f"dump does not keep the heap array order: {why}", sink="dump-order")
    ck.floor(rid, hit, 1, "dump of _queue in EventQueue._to_dict")


def run(ck):
    rule_heap_discipline(ck)
    rule_heap_key(ck, rid="C11.R2")
    rule_precedence(ck, rid="C11.R3")
    rule_cut(ck)
    rule_derived(ck)
    rule_restore(ck)
    # "a queue restored from JSON behaves identically": every attribute of the queue and of the pending events - timestamp,
    # type and precedence (public, user-settable, it breaks ties) - is dumped and restored (engine shared with C09)
    from .c09 import rule_agreement
    rule_agreement(ck, classes=("EventQueue", "Event", "EVEvent", "PluginEvent", "UnplugEvent", "RecomputeEvent"), rid="C11.R6s", rid2="C11.R6s")

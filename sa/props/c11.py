"""C11 - event queue order (heap discipline, key, precedence, inclusive cut, derived queries, restore)."""
import ast

from ..core import AnalysisError, dotted, call_name, src, walk_local
from ..flow import edge_facts, leaves
from ..rules import (flow_of, calls_in, canon, state_writes, who_writes, cmp_norm, facts_at, mutating_calls)
from .c01 import rule_precedence, rule_heap_key

EXPLANATION = ("Static rules over events/event_queue.py and events/event.py (plus a package-wide who-writes sweep): the heap "
               "array is mutated only through heapq.heappush/heappop (and the order-preserving restore), heap entries are "
               "(timestamp, event) so that ties fall to Event.__lt__ on precedence with Unplug<Plugin<Recompute, "
               "get_current_events pops while `non-empty and head <= t` (inclusive) exactly once per iteration into the "
               "returned list, len/empty/get_last_timestamp are functions of the heap array only (maximum of component 0), "
               "and _to_dict/_from_dict keep the array order. Together with heapq's documented contract these give the stated "
               "order for every interleaving."
               ' Added in round 3: every event handed to the queue is pushed (constructor passes a given list on, add_events pushes each element once, get_event returns the event component of heappop).')
NOT_DECIDED = "heapq's own correctness (trusted); behaviour of user-defined Event subclasses"


def order_preserving_list(fl, value, node, is_source):
    """value (at node) is a list built from a source sequence in the source's order (comprehension, append loop - which the
    expansion normalises to a comprehension -, the source itself or list(source)); no filter, no re-ordering."""
    if isinstance(value, ast.Name):
        for n in fl.cfg.nodes:
            for e in fl.cfg.node_exprs(n):
                for p, m, c in mutating_calls(e):
                    if p == value.id and m != "append":
                        return False, f"{value.id}.{m}() disturbs the order"
    v = fl.expand(value, node)
    while isinstance(v, ast.Call) and call_name(v) in ("list", "tuple") and v.args:
        v = v.args[0]
    if isinstance(v, ast.Call) and call_name(v) in ("sorted", "reversed"):
        return False, f"{call_name(v)}() re-orders the entries"
    if isinstance(v, ast.ListComp):
        if len(v.generators) != 1:
            return False, "nested comprehension"
        g = v.generators[0]
        if g.ifs:
            return False, "entries are filtered"
        if not is_source(g.iter):
            return False, f"iterates {src(g.iter, 40)}, not the source in its own order"
        return True, "one entry per source entry, in source order"
    if is_source(v):
        return True, "the source itself"
    return False, f"value is {src(v, 60)}"


def rule_heap_discipline(ck, rid="C11.R1"):
    repo = ck.repo
    writes = who_writes(repo, "_queue") + [w for w in who_writes(repo, "queue") if w[0] is not None]
    n = 0
    ordered_ops = 0
    for f, kind, path, node in writes:
        if not (path.endswith("._queue") or path.endswith(".queue")):
            continue
        if f.cls is None or f.cls.name != "EventQueue":
            # other classes may have their own `queue` locals; only attribute paths on an EventQueue matter
            if not (path.endswith("event_queue._queue") or path.endswith("event_queue.queue") or path.endswith("events._queue")):
                continue
        n += 1
        if kind in ("mut:heappush", "mut:heappop"):
            ordered_ops += 1
            ck.holds(rid, f, node, "recognised ordered-container operation (heapq)")
        elif kind == "assign" and f.name == "__init__":
            v = [s for s in walk_local(f.node) if isinstance(s, ast.Assign) and node in s.targets]
            ok = v and isinstance(v[0].value, ast.List) and not v[0].value.elts
            ck.require(bool(ok), rid, f, node, ok="starts empty", bad="the heap must start as an empty list", sink="init")
        elif kind == "assign" and f.name == "_from_dict":
            ck.holds(rid, f, node, "restore (order checked by C11.R6)")
        else:
            ck.violation(rid, f, node, f"`{path}` is mutated by {kind} - mixing an unordered mutation with heapq breaks the heap order",
                         sink=f"{kind}:{path.split('.')[-1]}", positive=True)
    ck.floor(rid, ordered_ops, 2, "heapq operations on EventQueue._queue")
    ck.count("who-writes sites(_queue)", n)


def _len_self(e):
    """len(self) on the queue is self.__len__() = len(self._queue) (C11.R5 checks __len__ itself): rewritten so that the atoms read alike"""
    class T(ast.NodeTransformer):
        def visit_Call(self, n):
            self.generic_visit(n)
            if isinstance(n.func, ast.Name) and n.func.id == "len" and len(n.args) == 1 and isinstance(n.args[0], ast.Name) and n.args[0].id == "self":
                return ast.copy_location(ast.Call(func=n.func, args=[ast.Attribute(value=ast.Name(id="self", ctx=ast.Load()), attr="_queue", ctx=ast.Load())], keywords=[]), n)
            if isinstance(n.func, ast.Attribute) and n.func.attr == "__len__" and isinstance(n.func.value, ast.Name) and n.func.value.id == "self" and not n.args:
                return ast.copy_location(ast.Call(func=ast.Name(id="len", ctx=ast.Load()), args=[ast.Attribute(value=ast.Name(id="self", ctx=ast.Load()), attr="_queue", ctx=ast.Load())], keywords=[]), n)
            return n
    import copy as _c
    return T().visit(_c.deepcopy(e))


def _cut_atom(fl, node, a, t, tparam):
    """classify a branch fact of get_current_events: 'nonempty' / 'empty' / 'cut' (head <= t) / 'notcut' / 'strict' / None"""
    e = _len_self(fl.expand(a, node))
    ce = canon(e)
    if ce == "self.empty()":
        return "empty" if t else "nonempty"
    if ce in ("self._queue", "len(self._queue)"):
        return "nonempty" if t else "empty"
    c = cmp_norm(e, t)
    if c:
        l, op, r = c
        ls, rs = canon(l), canon(r)
        if {ls, rs} == {"len(self._queue)", "0"}:
            if op in ("<", "!=") and (ls == "0" or op == "!="):
                return "nonempty"
            if op in ("==",) or (op == "<=" and rs == "0") or (op == "<" and rs == "0"):
                return "empty"
            if op == "<=" and ls == "0":
                return None
        bound = (tparam, "self._timestep")
        if ls == "self._queue[0][0]" and rs in bound:
            return "cut" if op == "<=" else ("strict" if op == "<" else None)
        if rs == "self._queue[0][0]" and ls in bound:
            # t < head  == not (head <= t) ;  t <= head == not (head < t)
            return "notcut" if op == "<" else ("notstrict" if op == "<=" else None)
    return None


def rule_cut(ck, rid="C11.R4"):
    """retrieval for period t pops exactly while the queue is non-empty and the head's timestamp <= t (path-based: the
    loop may be written with a compound `while` test or as `while True` with guard breaks)."""
    repo = ck.repo
    g = repo.fn("EventQueue.get_current_events")
    fl = flow_of(g)
    cfg = fl.cfg
    loops = [n for n in cfg.nodes if n.kind == "test" and isinstance(n.stmt, ast.While)]
    if len(loops) != 1:
        raise AnalysisError("get_current_events: expected exactly one while loop")
    head = loops[0]
    tparam = g.params[1]
    region = cfg.loop_region(head)
    pops = [(n, c) for n, c in calls_in(fl) if n in region and call_name(c) in ("get_event", "heappop")]
    ck.require(len(pops) == 1, rid, g, pops[0][1] if pops else "self.get_event()", ok="one pop site in the loop", bad=f"{len(pops)} pop sites in the retrieval loop",
               sink="cut-pop-once")
    if len(pops) != 1:
        return
    P, pc = pops[0]
    kinds = {_cut_atom(fl, P, a, t, tparam) for a, t in facts_at(fl, P)}
    ck.require("nonempty" in kinds, rid, g, pc, ok="pop only from a non-empty queue", bad="pop loop must test that the queue is non-empty", sink="cut-nonempty")
    ck.require("cut" in kinds, rid, g, pc, ok="events with timestamp <= t are returned (inclusive)",
               bad="the cut must be `head timestamp <= timestep` (inclusive)" + (" - found strict <" if "strict" in kinds else ""), sink="cut-inclusive")
    # the loop ends only when the queue is empty or the head is later than t
    const_true = isinstance(head.expr, ast.Constant) and head.expr.value is True
    if not const_true:
        extra = [a for a, t in edge_facts(head.expr, True) if _cut_atom(fl, head, a, t, tparam) not in ("nonempty", "cut")]
        conj = not any(isinstance(x, ast.BoolOp) and isinstance(x.op, ast.Or) for x in ast.walk(head.expr))
        ck.require(not extra and conj, rid, g, head.expr, ok="the loop continues as long as a due event is pending",
                   bad=f"the loop test has a further condition `{src(extra[0], 40) if extra else src(head.expr, 40)}`: due events can be left in the queue", sink="cut-exit-while")
    for b in [n for n in region if n.kind in ("break", "return")]:
        ks = {_cut_atom(fl, b, a, t, tparam) for a, t in facts_at(fl, b)}
        # a disjunctive exit condition (`if empty or head > t: break`, or the false edge of `nonempty and head <= t`)
        for tn, lab in cfg.edges_dominating(b):
            if tn.kind != "test" or tn not in region:
                continue
            e_ = tn.expr
            neg = False
            while isinstance(e_, ast.UnaryOp) and isinstance(e_.op, ast.Not):
                e_, neg = e_.operand, not neg
            eff = lab != neg
            if isinstance(e_, ast.BoolOp) and ((isinstance(e_.op, ast.Or) and eff) or (isinstance(e_.op, ast.And) and not eff)):
                parts = set()
                for v in e_.values:
                    fs = edge_facts(v, eff)
                    parts.add(tuple(sorted(str(_cut_atom(fl, b, a, t, tparam)) for a, t in fs)) if fs else ("None",))
                if parts and all(len(p_) == 1 and p_[0] in ("empty", "notcut") for p_ in parts):
                    ks.add("empty")
        ck.require(b.kind == "break" and (ks & {"empty", "notcut"}), rid, g, b.stmt, ok="leaves the loop only when nothing due is pending",
                   bad="the retrieval loop is left although a due event may still be pending", sink="cut-exit-break")
    # every iteration that does not leave pops: from the loop entry, the head is reachable again only through the pop
    true_edge = [s_ for s_ in head.succ if s_.kind == "edge" and s_.label][0]
    ck.require(head not in cfg.reach(true_edge, avoid={P}), rid, g, pc, ok="exactly one pop per iteration", bad="an iteration can complete without popping (the loop would not make progress)",
               sink="cut-progress")
    # `self._timestep = timestep` when the attribute is the compared bound
    if any("self._timestep" in canon(fl.expand(a, P)) for a, t in facts_at(fl, P)):
        st = [(n, t) for n, k, p_, t in state_writes(fl) if p_ == "self._timestep"]
        ok = len(st) == 1 and canon(st[0][0].stmt.value) == tparam and cfg.dominates(st[0][0], head)
        ck.require(ok, rid, g, st[0][1] if st else "self._timestep = timestep", ok="the compared bound is the argument",
                   bad="self._timestep must be set from the argument before the loop", sink="cut-bound")
    rets = [n for n in cfg.nodes if n.kind == "return"]
    good = False
    for n, c in calls_in(fl, "append"):
        if n in region and c.args:
            ex = fl.expand(c.args[0], n)
            if any(isinstance(x, ast.Call) and call_name(x) in ("get_event", "heappop") for x in ast.walk(ex)):
                lst = dotted(c.func.value)
                good = bool(rets) and all(dotted(r.expr) == lst for r in rets) and not [t for t, lab in cfg.edges_dominating(n) if t.kind == "test" and t in region and
                                                                                         _cut_atom(fl, n, t.expr, lab, tparam) is None and t is not head and
                                                                                         not all(_cut_atom(fl, n, a_, t_, tparam) for a_, t_ in edge_facts(t.expr, lab))]
    ck.require(good, rid, g, rets[0].expr if rets else "return current_events", ok="every popped event is returned, in pop order",
               bad="popped events must be appended to the list that is returned (unfiltered, unsorted)", sink="cut-returned")
    for r in rets:
        e = fl.expand(r.expr, r)
        ck.require(not any(isinstance(x, ast.Call) and call_name(x) in ("sorted", "sort", "reversed", "reverse") for x in ast.walk(e)) and
                   not [c for n, c in calls_in(fl) if call_name(c) in ("sort", "reverse") and dotted(c.func.value) == dotted(r.expr)], rid, g, r.expr,
                   ok="returned in pop order", bad="the returned events are re-ordered after popping (Event.__lt__ compares precedence only, not time)", sink="cut-order")


def rule_derived(ck, rid="C11.R5"):
    repo = ck.repo
    q = repo.cls("EventQueue")
    for name in ("__len__", "empty", "get_last_timestamp"):
        m = repo.method(q, name)
        fl = flow_of(m)
        rets_ = [n for n in fl.cfg.nodes if n.kind == "return"]
        ck.require(bool(rets_) and fl.cfg.exit.pred and all(p_.kind == "return" for p_ in fl.cfg.exit.pred), rid, m, name, ok="always returns a value",
                   bad=f"{name} can fall off the end (returns None)", sink=f"{name}-returns")
        for r in rets_:
            if r.expr is None:
                continue
            ex_ = fl.expand(r.expr, r) if name == "__len__" else _len_self(fl.expand(r.expr, r))
            bound = set()
            for x in ast.walk(ex_):
                if isinstance(x, ast.comprehension):
                    bound |= {y.id for y in ast.walk(x.target) if isinstance(y, ast.Name)}
                if isinstance(x, ast.Lambda):
                    bound |= {a.arg for a in x.args.args}
            lv = {x for x in leaves(ex_) if x not in ("len()", "max()", "x") and x.split(".")[0] not in bound}
            lv = {x for x in lv if not x.endswith("()") or x.startswith("self.")}
            if name == "__len__":
                ck.require(canon(ex_) == "len(self._queue)", rid, m, r.expr, ok="length of the heap array", bad=f"__len__ returns `{canon(ex_)[:50]}`, not len(self._queue)", sink="__len__-value")
            if name == "empty":
                pols = [_cut_atom(fl, r, a_, t_, "?") for a_, t_ in edge_facts(ex_, True)]
                ck.require(pols == ["empty"], rid, m, r.expr, ok="true exactly when nothing is pending", bad=f"empty() returns `{canon(ex_)[:50]}`, which is not `the heap array is empty`", sink="empty-value")
            extra = {x for x in lv if x not in ("self._queue", "self.empty()", "self.queue", "len", "max")}
            ck.require(not extra, rid, m, r.expr, ok="a function of the heap array only",
                       bad=f"{name} depends on {sorted(extra)} - must reflect the pending set (no shadow state)", sink=f"{name}-influence")
        shadow = [(n, p) for n, k, p, t in state_writes(fl)]
        ck.require(not shadow, rid, m, name, ok="query has no side effects", bad=f"{name} writes {shadow[0][1] if shadow else ''}",
                   sink=f"{name}-pure")
    # shadow counters: any other attribute of EventQueue written in add/get methods besides _queue/_timestep
    for name in ("add_event", "add_events", "get_event"):
        m = repo.method(q, name)
        fl = flow_of(m)
        extra = [(n, p, t) for n, k, p, t in state_writes(fl) if p not in ("self._queue", "self._timestep")]
        ck.require(not extra, rid, m, extra[0][2] if extra else name, ok="no shadow state", bad="extra queue state is maintained beside the heap",
                   sink=f"{name}-shadow")
    glt = repo.method(q, "get_last_timestamp")
    fl = flow_of(glt)
    rets = [n for n in fl.cfg.nodes if n.kind == "return" and n.expr is not None and not (isinstance(n.expr, ast.Constant) and n.expr.value is None)]
    for r in rets:
        e = fl.expand(r.expr, r)
        calls = [c for c in ast.walk(e) if isinstance(c, ast.Call) and call_name(c) in ("max", "min", "nlargest", "nsmallest", "sorted")]
        if not calls:
            raise AnalysisError(f"get_last_timestamp: reduction idiom not recognised: {src(e)}")
        c = calls[0]
        is_max = call_name(c) == "max"
        comp0 = None            # True: component 0; False: recognised and another quantity; None: shape not recognised
        key = [k.value for k in c.keywords if k.arg == "key"]
        if key and isinstance(key[0], ast.Lambda) and isinstance(key[0].body, ast.Subscript) and isinstance(key[0].body.slice, ast.Constant) \
                and isinstance(e, ast.Subscript) and isinstance(e.slice, ast.Constant):
            comp0 = canon(key[0].body.slice) == "0" and canon(e.slice) == "0"
        elif key and call_name(key[0]) == "itemgetter" and len(key[0].args) == 1 and isinstance(key[0].args[0], ast.Constant) \
                and isinstance(e, ast.Subscript) and isinstance(e.slice, ast.Constant):
            comp0 = key[0].args[0].value == 0 and canon(e.slice) == "0"
        elif not key and c.args and canon(c.args[0]) == "self._queue" and isinstance(e, ast.Subscript) and isinstance(e.slice, ast.Constant):
            comp0 = False if canon(e.slice) != "0" else None        # max of (timestamp, event) pairs compares events on ties: raises or wrong
        if c.args and isinstance(c.args[0], (ast.GeneratorExp, ast.ListComp)):
            g = c.args[0]
            tgt = g.generators[0].target
            if isinstance(g.elt, ast.Subscript) and isinstance(g.elt.slice, ast.Constant) and isinstance(g.elt.value, ast.Name) \
                    and isinstance(tgt, ast.Name) and tgt.id == g.elt.value.id:
                comp0 = canon(g.elt.slice) == "0"
            if isinstance(tgt, ast.Tuple) and isinstance(g.elt, ast.Name) and all(isinstance(x, ast.Name) for x in tgt.elts) and g.elt.id in [x.id for x in tgt.elts]:
                comp0 = tgt.elts[0].id == g.elt.id
        if is_max and comp0 is None:
            raise AnalysisError(f"get_last_timestamp: which component the maximum is taken over is not recognised: {src(e)[:120]}")
        guarded = any(isinstance(a, ast.Call) and canon(a) == "self.empty()" and not t for a, t in facts_at(fl, r)) or \
            any(canon(a) in ("self._queue",) and t for a, t in facts_at(fl, r))
        ck.require(is_max and comp0, rid, glt, r.expr, ok="maximum over the timestamp component",
                   bad="get_last_timestamp must be the maximum of the timestamps (component 0)", sink="last-timestamp-max")
        # max(..., default=None) answers None for an empty queue by itself (the documented result)
        dflt = [k.value for k in c.keywords if k.arg == "default"]
        guarded = guarded or (len(dflt) == 1 and isinstance(dflt[0], ast.Constant) and dflt[0].value is None and not isinstance(e, ast.Subscript))
        ck.require(guarded, rid, glt, r.expr, ok="only on the non-empty edge", bad="max() of an empty queue", sink="last-timestamp-guard")


def rule_insertion(ck, rid="C11.R7"):
    """every event handed to the queue is pushed: the constructor passes a given list on to add_events on every path where a list was
    given, and add_events pushes each element exactly once, unfiltered (decision tables)"""
    from .. import pathtab
    repo = ck.repo
    q = repo.cls("EventQueue")
    init = repo.method(q, "__init__")
    fl = flow_of(init)
    ev = init.params[1]
    rows = [r for r in pathtab.table(fl) if r.end != "raise"]
    given = [r for r in rows if pathtab.implied(fl, r, lambda k, a: k == f"{ev} is None") is False]

    def adds_all(kind, k, a):
        return kind == "call" and k in (f"self.add_events({ev})",) or (kind == "call" and k == f"self.add_event(__elem__({ev}))")
    pathtab.must_on(ck, rid, init, given, adds_all, 1, "the events given to the constructor are added to the queue", "init:add-events",
                    ok="a queue built from a list of events contains them")
    init_store = [n for n, k, p, t in state_writes(fl) if p == "self._queue" and k == "assign"]
    adds = [n for n, c in calls_in(fl) if call_name(c) in ("add_events", "add_event")]
    ck.require(bool(init_store) and all(fl.cfg.dominates(init_store[0], a_) for a_ in adds), rid, init, init_store[0].stmt if init_store else "self._queue = []",
               ok="the heap array exists before events are pushed", bad="events are pushed before the heap array is created (or it is re-created afterwards)", sink="init:order")
    late = [n for n in init_store if any(n in fl.cfg.reach_from_succ(a_) for a_ in adds)]
    ck.require(not late, rid, init, late[0].stmt if late else "self._queue", ok="the heap array is not reset after the events were added",
               bad="the heap array is re-created after the given events were pushed: they are lost", sink="init:reset-after")
    ae = repo.method(q, "add_events")
    al = flow_of(ae)
    evs = ae.params[1]
    arows = [r for r in pathtab.table(al) if r.end != "raise"]
    looping = [r for r in arows if any(k == f"iterates {evs}" and t for k, t, _, _ in r.facts)]

    def push_elem(kind, k, a):
        return kind == "call" and k in (f"self.add_event(__elem__({evs}))", f"heapq.heappush(self._queue, (__elem__({evs}).timestamp, __elem__({evs})))")
    pathtab.must_on(ck, rid, ae, looping, push_elem, 1, "each event of the list is pushed exactly once, unconditionally", "add_events:each",
                    ok="add_events pushes every element")
    ge = repo.method(q, "get_event")
    gl = flow_of(ge)
    for r in [n for n in gl.cfg.nodes if n.kind == "return"]:
        e = gl.expand(r.expr, r)
        pop = None
        if isinstance(e, ast.Subscript) and canon(e.slice) == "1":
            pop = e.value
        elif isinstance(e, ast.Call) and call_name(e) == "__item__" and len(e.args) == 2 and canon(e.args[1]) == "1":
            pop = e.args[0]          # `_, event = heappop(...)`; return event
        ok = isinstance(pop, ast.Call) and call_name(pop) == "heappop" and pop.args and canon(pop.args[0]) == "self._queue"
        ck.require(ok, rid, ge, r.expr, ok="pops the heap and returns the event component", bad=f"get_event returns `{src(e, 50)}`, not the event component (index 1) of heappop(self._queue)",
                   sink="get_event:component")


def rule_restore(ck, rid="C11.R6"):
    repo = ck.repo
    fd = repo.fn("EventQueue._from_dict")
    fl = flow_of(fd)
    st = [(n, t) for n, k, p, t in state_writes(fl, roots=("out_obj", "self")) if p.endswith("._queue") and k == "assign"]
    ck.require(len(st) == 1, rid, fd, st[0][1] if st else "out_obj._queue = ...", bad="restore of _queue not found", sink="restore-store")
    for n, t in st:
        ok, why = order_preserving_list(fl, n.stmt.value, n, lambda it: canon(it) in ('attribute_dict["_queue"]', "attribute_dict['_queue']"))
        ck.require(ok, rid, fd, n.stmt, ok=f"restored in dumped order ({why})", bad=f"restored heap array is not in dumped order: {why}",
                   sink="restore-order")
        # the restored entries have the shape heappush stores - (timestamp, event) *tuples*: heapq compares entries, and a list never
        # compares with a tuple (TypeError on the first insertion into a restored queue)
        xv = fl.expand(n.stmt.value, n)
        comps = [x for x in [xv] + list(ast.walk(xv)) if isinstance(x, (ast.ListComp, ast.GeneratorExp))]
        if comps:
            elt = comps[0].elt
            ck.require(isinstance(elt, ast.Tuple) and len(elt.elts) == 2, rid, fd, elt, ok="entries restored as (timestamp, event) tuples",
                       bad=f"restored heap entries are `{src(elt, 50)}`, not (timestamp, event) tuples as add_event stores them: entries of the two kinds cannot be "
                           "compared, so the restored queue fails (or orders differently) on the next insertion", sink="restore-entry-shape")
    td = repo.fn("EventQueue._to_dict")
    fl = flow_of(td)
    hit = 0
    for n in fl.cfg.nodes:
        if n.kind == "stmt" and isinstance(n.stmt, ast.Assign):
            for t in n.stmt.targets:
                if isinstance(t, ast.Subscript) and canon(t) in ('attribute_dict["_queue"]', "attribute_dict['_queue']"):
                    hit += 1
                    # a list stored first and filled afterwards is the same object: judged as it is when the function returns
                    at = n
                    if isinstance(n.stmt.value, ast.Name):
                        rets_ = [x for x in fl.cfg.nodes if x.kind == "return" and x in fl.cfg.reach(n)]
                        if rets_ and all(fl.defs_at(x, n.stmt.value.id) == fl.defs_at(n, n.stmt.value.id) | {d for d in fl.defs_at(x, n.stmt.value.id) if d is n} for x in rets_):
                            at = rets_[-1]
                    ok, why = order_preserving_list(fl, n.stmt.value, at, lambda it: canon(it) == "self._queue")
                    ck.require(ok, rid, td, n.stmt, ok=f"dumped in array order ({why})", bad=f"dump does not keep the heap array order: {why}",
                               sink="dump-order")
    if hit == 0:
        # dict literal form
        for n in fl.cfg.nodes:
            for e in fl.cfg.node_exprs(n):
                for d in [x for x in ast.walk(e) if isinstance(x, ast.Dict)]:
                    for k, v in zip(d.keys, d.values):
                        if isinstance(k, ast.Constant) and k.value == "_queue":
                            hit += 1
                            ok, why = order_preserving_list(fl, v, n, lambda it: canon(it) == "self._queue")
                            ck.require(ok, rid, td, v, ok=why, bad=f"dump does not keep the heap array order: {why}", sink="dump-order")
    ck.floor(rid, hit, 1, "dump of _queue in EventQueue._to_dict")


def run(ck):
    ck.attempt(rule_heap_discipline)
    ck.attempt(rule_heap_key, rid="C11.R2")
    ck.attempt(rule_precedence, rid="C11.R3")
    ck.attempt(rule_cut)
    ck.attempt(rule_derived)
    ck.attempt(rule_insertion)
    ck.attempt(rule_restore)
    # "a queue restored from JSON behaves identically": every attribute of the queue and of the pending events - timestamp,
    # type and precedence (public, user-settable, it breaks ties) - is dumped and restored (engine shared with C09)
    from .c09 import rule_agreement
    ck.attempt(rule_agreement, classes=("EventQueue", "Event", "EVEvent", "PluginEvent", "UnplugEvent", "RecomputeEvent"), rid="C11.R6s", rid2="C11.R6s")
    # ... and the restore protocol itself is followed by the queue and event classes: accumulators are passed on, rebound and returned,
    # the three protocol dictionaries are never passed in each other's place (rules of C09; they report under their C09 ids)
    from .c09 import rule_threading, rule_registry_binding
    ck.attempt(rule_threading)
    ck.attempt(rule_registry_binding)

"""C17 - tariff lookup is total, unambiguous and aligned with simulation time."""
import ast
import calendar

from ..core import AnalysisError, dotted, call_name, src, walk_local, const_value
from ..flow import edge_facts, leaves
from ..rules import flow_of, state_writes, facts_at, canon, cmp_norm, calls_in, bind_args, collect_list, specialise, norm_items, list_extensions
from ..units import check_units
from ..tables import UNITS

EXPLANATION = ("(T1) for each bundled tariff JSON, after the specified wrap split, every one of the 366 month-days x 7 weekdays is "
               "matched by exactly one schedule (exhaustive enumeration of the finite calendar, no code executed); (T2) breakpoint "
               "tables are well-formed (equal lengths, a breakpoint at 0, distinct, within [0, 24)); (S1) tou_tariff.py implements "
               "that specification: weekday masks fold to the specified lists, dates parse as (month, day), a wrapping season yields "
               "[start, (12,31)] and [(1,1), end], selection = mask[weekday()] and start <= (month, day) <= end (inclusive both "
               "ends), zero or several matches raise, breakpoints are scanned in descending order returning the first with "
               "target_hour >= t, target_hour is in hours (units), the vector lookup evaluates start + k*timedelta(minutes=period) "
               "for k in range(length); (S2) Interface.get_prices/get_demand_charge start at sim.start + timedelta(minutes=period)*t "
               "and pass (start, length, period) on; energy cost and demand charge have the right units and reductions."
               ' Added in round 3: the lookup methods keep no state on the tariff object.')
NOT_DECIDED = "time-zone / DST behaviour of datetime arithmetic (library semantics)"

MASKS = {"WEEKDAYS": [True] * 5 + [False] * 2, "WEEKENDS": [False] * 5 + [True] * 2, "ALL": [True] * 7}
DAYS = [(m, d) for m in range(1, 13) for d in range(1, calendar.monthrange(2020, m)[1] + 1)]   # 366 month-days


def parse_md(s):
    p = tuple(int(x) for x in s.split("-"))
    if len(p) != 2:
        raise ValueError(s)
    return p


def rule_tables(ck):
    repo = ck.repo
    files = sorted(repo.json_files)
    ck.floor("C17.T1", len(files), 5, "bundled tariff files")
    for rel in files:
        doc = repo.json_files[rel]
        name = rel.split("/")[-1]
        try:
            scheds = []
            for s in doc["schedule"]:
                st, en = parse_md(s["effective_start"]), parse_md(s["effective_end"])
                mask = MASKS[s["dow_mask"]]
                if en < st:
                    scheds.append((s["id"], st, (12, 31), mask))
                    scheds.append((s["id"], (1, 1), en, mask))
                else:
                    scheds.append((s["id"], st, en, mask))
        except (KeyError, ValueError, TypeError) as e:
            ck.violation("C17.T1", name, "schedule table", f"malformed schedule entry: {e!r}", sink=f"{name}#malformed")
            continue
        gaps, overlaps = [], []
        for md in DAYS:
            for wd in range(7):
                hits = [i for i, st, en, mask in scheds if mask[wd] and st <= md <= en]
                if not hits:
                    gaps.append((md, wd))
                elif len(hits) > 1:
                    overlaps.append((md, wd, hits))
        ck.count("calendar cells checked", len(DAYS) * 7)
        ck.require(not gaps, "C17.T1", name, f"{len(scheds)} schedule ranges x 366 days x 7 weekdays", ok="no date/weekday without a schedule",
                   bad=f"{len(gaps)} (date, weekday) cells match no schedule, e.g. month-day {gaps[0][0] if gaps else ''} weekday {gaps[0][1] if gaps else ''}", sink=f"{name}#gap")
        ck.require(not overlaps, "C17.T1", name, f"{len(scheds)} schedule ranges x 366 days x 7 weekdays", ok="no date/weekday with two schedules",
                   bad=f"{len(overlaps)} (date, weekday) cells match several schedules, e.g. {overlaps[0] if overlaps else ''}: every such lookup raises",
                   sink=f"{name}#winter-masks" if overlaps and any("Winter" in str(h) for h in overlaps[0][2]) else f"{name}#overlap")
        for s in doc["schedule"]:
            t, p = s.get("times", []), s.get("tariffs", [])
            ok = len(t) == len(p) and len(t) >= 1 and 0 in t and len(set(t)) == len(t) and all(0 <= x < 24 for x in t)
            ck.require(ok, "C17.T2", name, f"{s.get('id')}: times={t}", ok="breakpoints well-formed", bad="breakpoints must pair with prices, include 0, be distinct and lie in [0, 24)",
                       sink=f"{name}#{s.get('id')}#breakpoints")
            ck.require("demand_charge" in s, "C17.T2", name, f"{s.get('id')}: demand_charge", bad="missing demand_charge", sink=f"{name}#{s.get('id')}#demand")


def _alpha(e):
    """canonical text with comprehension variables renamed in order of appearance (_v0, _v1, ..): the name a comprehension variable
    carries (also one given by the helper inliner) does not matter"""
    import copy as _c
    e = _c.deepcopy(e)
    k = [0]
    for c in [x for x in ast.walk(e) if isinstance(x, (ast.ListComp, ast.SetComp, ast.GeneratorExp, ast.DictComp))]:
        names = {}
        for g in c.generators:
            for t in ast.walk(g.target):
                if isinstance(t, ast.Name) and t.id not in names:
                    names[t.id] = f"_v{k[0]}"
                    k[0] += 1
        for x in ast.walk(c):
            if isinstance(x, ast.Name) and x.id in names:
                x.id = names[x.id]
    return canon(e)


def rule_schedule_parse(ck, rid="C17.S1"):
    repo = ck.repo
    f = repo.fn("TariffSchedule.__init__")
    fl = flow_of(f)
    doc = f.params[1]
    seen = {}
    for n, k, p, t in state_writes(fl):
        if p == "self.dow_mask":
            lit = None
            for a, tr in facts_at(fl, n):
                c = cmp_norm(fl.expand(a, n), tr)
                if c and c[1] == "==" and isinstance(c[2], ast.Constant) and "dow_mask" in canon(c[0]):
                    lit = c[2].value
                elif c and c[1] == "==" and isinstance(c[0], ast.Constant) and "dow_mask" in canon(c[2]):
                    lit = c[0].value
            try:
                val = const_value(n.stmt.value)
            except (ValueError, TypeError):
                raise AnalysisError(f"TariffSchedule: mask value not a literal expression: {src(n.stmt.value)}")
            seen[lit] = (val, n)
    for key, want in MASKS.items():
        got = seen.get(key)
        ck.require(got is not None and got[0] == want, rid, f, got[1].stmt if got else f'dow_mask "{key}"', ok=f"{key} -> {want}",
                   bad=f'mask for "{key}" must be {want}; got {got[0] if got else None}', sink=f"mask-{key}")
    for attr, field in (("start", "effective_start"), ("end", "effective_end")):
        st = [(n, t) for n, k, p, t in state_writes(fl) if p == f"self.{attr}"]
        ok = len(st) == 1 and _alpha(fl.expand(st[0][0].stmt.value, st[0][0])).replace('"', "'") == f"tuple((int(_v0) for _v0 in {doc}['{field}'].split('-')))"
        ck.require(ok, rid, f, st[0][0].stmt if st else attr, ok=f"{attr} = (month, day) parsed from {field}", bad=f"self.{attr} must be the (month, day) tuple parsed from doc['{field}']",
                   sink=f"parse-{attr}")
    # breakpoints: (Decimal(times[i]), float(tariffs[i])) pairs, sorted, first must be 0
    st = [(n, t) for n, k, p, t in state_writes(fl) if p == "self.tariffs" and k == "assign"]
    ok = False
    sorted_by_construction = False
    if len(st) == 1:
        val = st[0][0].stmt.value
        exv = fl.expand(val, st[0][0])
        if isinstance(exv, ast.Call) and call_name(exv) == "sorted" and len(exv.args) == 1 and not exv.keywords:
            sorted_by_construction = True         # a local list, sorted in place, then stored
            lst = collect_list(fl, exv.args[0], st[0][0])
        else:
            lst = collect_list(fl, val, st[0][0])
        if lst and len(lst) == 1 and isinstance(lst[0][0], ast.Tuple) and len(lst[0][0].elts) == 2:
            a, b = canon(lst[0][0].elts[0]), canon(lst[0][0].elts[1])
            ok = '"times"' in a.replace("'", '"') and '"tariffs"' in b.replace("'", '"') and a.split("[__idx__")[-1] == b.split("[__idx__")[-1]
    ck.require(ok, rid, f, st[0][0].stmt if st else "self.tariffs", ok="(time_i, price_i) pairs with the same index", bad="breakpoints must pair times[i] with tariffs[i]", sink="pairs")
    sorts = [(n, c) for n, c in calls_in(fl, "sort") if canon(c.func.value) == "self.tariffs" and not c.keywords]
    ck.require(bool(sorts) or sorted_by_construction, rid, f, sorts[0][1] if sorts else "self.tariffs.sort()", ok="breakpoints sorted by time", bad="breakpoints must be sorted ascending by time", sink="sorted")

    def first_breakpoint(e, n):
        # self.tariffs[0][0], directly or through the local list that was stored into it
        ce = canon(e)
        if ce == "self.tariffs[0][0]":
            return True
        if isinstance(e, ast.Subscript) and isinstance(e.value, ast.Subscript) and canon(e.slice) == "0" and canon(e.value.slice) == "0" and isinstance(e.value.value, ast.Name) and st:
            return isinstance(st[0][0].stmt.value, ast.Name) and st[0][0].stmt.value.id == e.value.value.id
        return False

    def unexpanded_first(a, n):
        # the compared operand, one temporary at a time (`first_hour = breakpoints[0][0]`)
        for side in (a.left, a.comparators[0]) if isinstance(a, ast.Compare) and len(a.ops) == 1 else ():
            e = side
            for _ in range(3):
                if first_breakpoint(e, n):
                    return True
                if isinstance(e, ast.Name) and len(fl.defs_at(n, e.id)) == 1:
                    d = next(iter(fl.defs_at(n, e.id)))
                    how = fl.def_how(d, e.id)
                    if how[0] == "assign" and how[1] is not None:
                        e, n = how[1], d
                        continue
                break
        return False
    raises = [n for n in fl.cfg.nodes if n.kind == "raise" and any(((c := cmp_norm(a, t)) and c[1] == "!=" and "0" in (canon(c[0]), canon(c[2])) and
                                                                      ("self.tariffs[0][0]" in (canon(c[0]), canon(c[2])) or unexpanded_first(a, n)))
                                                                     for a, t in facts_at(fl, n))]
    ck.require(bool(raises), rid, f, raises[0].stmt if raises else "raise if first breakpoint != 0", ok="a table not starting at 0 is rejected", bad="tables whose first breakpoint is not 0 must be rejected",
               sink="first-zero")


def rule_wrap(ck, rid="C17.S1"):
    repo = ck.repo
    f = repo.fn("TimeOfUseTariff.__init__")
    fl = flow_of(f)
    cfg = fl.cfg
    # the wrap branch: edge with fact s.end < s.start
    edges = []
    for n in cfg.nodes:
        if n.kind == "edge" and n.test.kind == "test":
            for a, t in edge_facts(n.test.expr, n.label):
                c = cmp_norm(a, t)
                if c and c[1] == "<" and canon(c[0]).endswith(".end") and canon(c[2]).endswith(".start") and canon(c[0])[:-4] == canon(c[2])[:-6]:
                    edges.append((n, canon(c[0])[:-4]))
    if not edges:
        # the same test written as the filter of the list the loop walks:  for s in [s for s in self._schedule if s.end < s.start]
        for n in cfg.nodes:
            if n.kind != "for" or not isinstance(n.stmt.target, ast.Name):
                continue
            it = fl.expand(n.stmt.iter, n)
            if isinstance(it, ast.ListComp) and len(it.generators) == 1 and canon(it.generators[0].iter) == "self._schedule" and len(it.generators[0].ifs) == 1 \
                    and isinstance(it.generators[0].target, ast.Name) and canon(it.elt) == it.generators[0].target.id:
                v = it.generators[0].target.id
                c = cmp_norm(it.generators[0].ifs[0])
                if c and c[1] == "<" and canon(c[0]) == f"{v}.end" and canon(c[2]) == f"{v}.start":
                    te = [x for x in n.succ if x.kind == "edge" and x.label is True]
                    if te:
                        edges.append((te[0], n.stmt.target.id))
    ck.require(len(edges) == 1, rid, f, "if s.end < s.start", ok="wrapping seasons detected by end < start", bad="the wrap-around season test (end < start) is missing", sink="wrap-test")
    if len(edges) != 1:
        return
    e, s = edges[0]
    reg = {n for n in cfg.nodes if cfg.dominates(e, n)}
    w = [(n, p, n.stmt) for n, k, p, t in state_writes(fl, roots=(s, "s_copy", "self")) if n in reg]
    assigns = {}
    for n in reg:
        if n.kind == "stmt" and isinstance(n.stmt, ast.Assign):
            for t in n.stmt.targets:
                d = dotted(t)
                if d and "." in d:
                    try:
                        assigns[d] = (const_value(n.stmt.value), n)
                    except (ValueError, TypeError):
                        assigns[d] = (None, n)
    copies = [nm for n in reg for nm, how in fl._defs.get(n, {}).items() if how[0] == "assign" and isinstance(how[1], ast.Call) and call_name(how[1]) in ("copy", "deepcopy")
              and canon(how[1].args[0]) == s]
    ck.require(len(copies) == 1, rid, f, "s_copy = copy(s)", ok="second half is a copy of the schedule", bad="the wrap split must copy the schedule", sink="wrap-copy")
    cp = copies[0] if copies else "s_copy"
    ck.require(assigns.get(f"{s}.end", (None,))[0] == (12, 31), rid, f, assigns.get(f"{s}.end", (None, e))[1].stmt if f"{s}.end" in assigns else "s.end = (12, 31)",
               ok="first half ends Dec 31", bad="the first half of a wrapping season must end on (12, 31)", sink="wrap-end")
    ck.require(assigns.get(f"{cp}.start", (None,))[0] == (1, 1), rid, f, assigns.get(f"{cp}.start", (None, e))[1].stmt if f"{cp}.start" in assigns else "s_copy.start = (1, 1)",
               ok="second half starts Jan 1", bad="the second half of a wrapping season must start on (1, 1)", sink="wrap-start")
    apps = [(n, c) for n, c in calls_in(fl, "append") if n in reg and c.args and canon(c.args[0]) == cp]
    ck.require(len(apps) == 1 and cfg.exit not in cfg.reach(e, avoid={apps[0][0]} | {x for x in cfg.nodes if x.kind == "for"}) if apps else False, rid, f,
               apps[0][1] if apps else "to_add.append(s_copy)", ok="second half kept", bad="the second half of a wrapping season is dropped", sink="wrap-append")
    if apps and canon(apps[0][1].func.value) == "self._schedule":
        # appended to the schedule list itself - fine as long as the loop does not walk that very list while it grows
        walked = [n for n in cfg.nodes if n.kind == "for" and n in {t for t, lab in cfg.edges_dominating(apps[0][0])} and canon(n.stmt.iter) == "self._schedule"]
        ck.require(not walked, rid, f, apps[0][1], ok="second halves added to the schedule list", bad="the schedule list is extended while it is being iterated", sink="wrap-extend")
    elif apps:
        lst = canon(apps[0][1].func.value)
        ext = [(n, v) for n, v in list_extensions(fl, "self._schedule") if canon(v) == lst or (isinstance(v, ast.Call) and call_name(v) in ("list", "tuple") and v.args and canon(v.args[0]) == lst)]
        ck.require(len(ext) == 1, rid, f, ext[0][1] if ext else "self._schedule.extend(to_add)", ok="second halves added to the schedule list", bad="the second halves are never added to the schedule list",
                   sink="wrap-extend")
    # other modifications of end/start inside the branch
    extra = [d for d in assigns if d not in (f"{s}.end", f"{cp}.start")]
    ck.require(not extra, rid, f, "wrap branch stores", ok="only end of the first and start of the second half are changed", bad=f"unexpected stores in the wrap branch: {extra}", sink="wrap-extra")


def rule_selection(ck, rid="C17.S1"):
    repo = ck.repo
    f = repo.fn("TimeOfUseTariff._get_tariff_schedule")
    fl = flow_of(f)
    dt = f.params[1]
    rets_all = [n for n in fl.cfg.nodes if n.kind == "return"]
    rets = [n for n in rets_all if isinstance(n.expr, ast.Subscript) and canon(n.expr.slice) == "0"]
    if len(rets) != 1:
        raise AnalysisError("_get_tariff_schedule: expected a single `return <matches>[0]`")
    for o in rets_all:
        if o not in rets:
            ck.violation(rid, f, o.stmt, f"`{src(o.stmt, 60)}` returns a schedule that was not selected for this date by the weekday-mask and season test", sink="select-other-return")
    r = rets[0]
    xcomp = fl.expand(r.expr.value, r)           # an append loop is normalised to the equivalent comprehension
    if not (isinstance(xcomp, ast.ListComp) and len(xcomp.generators) == 1 and canon(xcomp.generators[0].iter) == "self._schedule"):
        raise AnalysisError(f"_get_tariff_schedule: selection over self._schedule not recognised: {src(xcomp, 80)}")
    g = xcomp.generators[0]
    s = dotted(g.target)
    atoms = []
    for cnd in g.ifs:
        atoms += edge_facts(cnd, True)
    md = f"({dt}.month, {dt}.day)"
    found = {"mask": False, "lo": False, "hi": False}
    extra = []
    for a, t in atoms:
        if isinstance(a, ast.Compare) and len(a.ops) > 1:
            parts = []
            left = a.left
            for op, rr in zip(a.ops, a.comparators):
                parts.append(ast.Compare(left=left, ops=[op], comparators=[rr]))
                left = rr
        else:
            parts = [a]
        for p in parts:
            if canon(p) == f"{s}.dow_mask[{dt}.weekday()]" and t:
                found["mask"] = True
                continue
            c = cmp_norm(p, t)
            if c and canon(c[0]) == f"{s}.start" and c[1] == "<=" and canon(c[2]) == md:
                found["lo"] = True
            elif c and canon(c[0]) == md and c[1] == "<=" and canon(c[2]) == f"{s}.end":
                found["hi"] = True
            else:
                extra.append(src(p))
    ck.require(found["mask"], rid, f, xcomp, ok="weekday mask indexed by date.weekday()", bad="selection must test s.dow_mask[date_time.weekday()]", sink="select-mask")
    ck.require(found["lo"], rid, f, xcomp, ok="start <= (month, day), inclusive", bad="selection must test s.start <= (month, day) (inclusive)", sink="select-start")
    ck.require(found["hi"], rid, f, xcomp, ok="(month, day) <= end, inclusive", bad="selection must test (month, day) <= s.end (inclusive)", sink="select-end")
    ck.require(not extra, rid, f, xcomp, ok="no further conditions", bad=f"unexpected selection condition(s): {extra}", sink="select-extra")
    ck.require(canon(xcomp.elt) == s, rid, f, xcomp, ok="selects the schedules themselves", bad="selection must collect the matching schedules", sink="select-elt")
    # the selection depends on nothing but the date and the schedule table (no memo keyed on part of the date)
    deps = {x for x in leaves_of(fl.expand(r.expr, r)) if not x.startswith(dt) and x not in ("self._schedule", s) and not x.startswith(s + ".")}
    ck.require(not deps, rid, f, r.expr, ok="a function of the date and the schedule table only", bad=f"the selected schedule also depends on {sorted(deps)}", sink="select-deps")
    other_state = [(n, p_) for n, k, p_, t in state_writes(fl)]
    ck.require(not other_state, rid, f, other_state[0][0].stmt if other_state else "pure lookup", ok="the lookup keeps no state", bad=f"the lookup writes {other_state[0][1] if other_state else ''} (cached results "
               f"keyed on part of the date return another year's weekday class)", sink="select-pure")
    # exactly one match is returned; none or several raise: evaluate the length facts at the return for 0, 1, 2, 3 matches
    import copy as _copy

    def with_len(e, v):
        class T(ast.NodeTransformer):
            def visit_Call(self, n):
                self.generic_visit(n)
                if call_name(n) == "len" and len(n.args) == 1 and isinstance(n.args[0], (ast.ListComp, ast.GeneratorExp)) and \
                        canon(n.args[0].generators[0].iter) == "self._schedule":
                    return ast.Constant(value=v)
                return n
        return T().visit(_copy.deepcopy(e))

    def holds(v):
        for a, t in facts_at(fl, r):
            e0 = fl.expand(a, r)
            while isinstance(e0, ast.Call) and call_name(e0) in ("bool", "list", "tuple") and len(e0.args) == 1:
                e0 = e0.args[0]
            if isinstance(e0, (ast.ListComp, ast.GeneratorExp)) and canon(e0.generators[0].iter) == "self._schedule":
                e0 = ast.Constant(value=v)            # the list of matches tested for truth: empty iff no schedule matches
            e = specialise(with_len(e0, v), {})
            try:
                val = bool(const_value(e))
            except (ValueError, TypeError):
                continue
            if val != t:
                return False
        return True
    allowed = {v for v in (0, 1, 2, 3) if holds(v)}
    ck.require(allowed == {1}, rid, f, r.stmt, ok="returned only when exactly one schedule matches", bad=f"the match is returned when the number of matching schedules is in {sorted(allowed)} (must be exactly 1; "
               f"none or several must raise)", sink="select-exactly-one")
    ck.require(all(p_.kind in ("return", "raise") for p_ in fl.cfg.exit.pred) and any(n.kind == "raise" for n in fl.cfg.nodes), rid, f, "no match / several matches raise",
               ok="every other case raises", bad="a date matching no or several schedules does not raise", sink="select-raise")


def leaves_of(e):
    return leaves(e, calls=False)


def rule_lookup(ck, rid="C17.S1"):
    repo = ck.repo
    f = repo.fn("TimeOfUseTariff.get_tariff")
    fl = flow_of(f)
    check_units(ck, rid, f, UNITS["TimeOfUseTariff.get_tariff"])
    dt = f.params[1]
    loops = [n for n in fl.cfg.nodes if n.kind == "for"]
    if len(loops) != 1:
        raise AnalysisError("get_tariff: breakpoint scan loop not recognised")
    lp = loops[0]
    esc = [n for n in fl.cfg.loop_region(lp) if n.kind == "break"]
    ck.require(not esc, rid, f, esc[0].stmt if esc else lp.stmt.iter, ok="the scan is not cut short", bad="the breakpoint scan can be left by `break` before a matching breakpoint is found", sink="scan-break")
    it = fl.expand(lp.stmt.iter, lp)
    desc = False
    if isinstance(it, ast.Call) and call_name(it) == "sorted":
        rev = [k for k in it.keywords if k.arg == "reverse"]
        desc = bool(rev) and isinstance(rev[0].value, ast.Constant) and rev[0].value.value is True and not any(k.arg == "key" for k in it.keywords)
        base = canon(it.args[0])
    elif isinstance(it, ast.Call) and call_name(it) == "reversed":
        desc, base = True, canon(it.args[0])
    elif isinstance(it, ast.Subscript) and canon(it.slice) == "::-1":
        desc, base = True, canon(it.value)
    else:
        base = canon(it)
    ck.require(desc, rid, f, lp.stmt.iter, ok="breakpoints scanned from the latest to the earliest", bad="breakpoints must be scanned in descending time order (latest first)", sink="scan-descending")
    ck.require(base == "self._get_tariff_schedule(%s).tariffs" % dt, rid, f, lp.stmt.iter, ok="of the schedule valid for that date", bad="the scan must use the tariffs of _get_tariff_schedule(date_time)",
               sink="scan-source")
    lvars = {x.id for x in ast.walk(lp.stmt.target) if isinstance(x, ast.Name)}
    elem = f"__elem__({canon(it)})"
    rets = [n for n in fl.cfg.nodes if n.kind == "return" and fl.cfg.dominates(lp, n)]
    ok = False
    for r in rets:
        # the loop element is r (then r[0] / r[1]) or is unpacked by the loop target (begins, price): both are __item__(element, k)
        inner = [(a, t) for a, t in facts_at(fl, r) if any(isinstance(x, ast.Name) and x.id in lvars for x in ast.walk(a)) or "__elem__(" in canon(fl.expand(a, r))]
        good = [c for a, t in inner if (c := cmp_norm(a, t)) and canon(norm_items(fl.expand(c[0], r))) == f"__item__({elem}, 0)" and c[1] == "<="
                and canon(fl.expand(c[2], r)).startswith("Decimal(")]
        if len(good) == 1 and len(inner) == 1 and r.expr is not None and canon(norm_items(fl.expand(r.expr, r))) == f"__item__({elem}, 1)":
            ok = True
    ck.require(ok, rid, f, rets[0].stmt if rets else "return r[1]", ok="returns the price of the first breakpoint with t <= target hour (inclusive)",
               bad="must return r[1] for the first breakpoint with target_hour >= r[0] (inclusive)", sink="scan-return")
    th = [how[1] for n in fl.cfg.nodes for nm, how in fl._defs.get(n, {}).items() if nm == "target_hour" and how[0] == "assign"]
    if th:
        s = canon(th[0])
        ok = all(x in s for x in (f"{dt}.hour", f"{dt}.minute", f"{dt}.second")) and "/ 60" in s and "/ 3600" in s
        ck.require(ok, rid, f, th[0], ok="hour + minute/60 + second/3600", bad="the time of day must be hour + minute/60 + second/3600", sink="target-hour")
    g = repo.fn("TimeOfUseTariff.get_tariffs")
    gfl = flow_of(g)
    check_units(ck, rid, g, UNITS["TimeOfUseTariff.get_tariffs"])
    rets = [n for n in gfl.cfg.nodes if n.kind == "return"]
    if len(rets) != 1:
        raise AnalysisError("get_tariffs: expected one return")
    xc = gfl.expand(rets[0].expr, rets[0])
    while isinstance(xc, ast.Call) and call_name(xc) in ("list", "array") and xc.args:
        xc = xc.args[0]
    ok = False
    if isinstance(xc, (ast.ListComp, ast.GeneratorExp)) and len(xc.generators) == 1 and not xc.generators[0].ifs:
        rng = canon(xc.generators[0].iter)
        v = dotted(xc.generators[0].target)
        e = canon(xc.elt)
        ok = rng == f"range({g.params[2]})" and e in (f"self.get_tariff({g.params[1]} + {v} * timedelta(minutes={g.params[3]}))", f"self.get_tariff({g.params[1]} + timedelta(minutes={g.params[3]}) * {v})",
                                                     f"self.get_tariff({g.params[1]} + timedelta(minutes={g.params[3]} * {v}))", f"self.get_tariff({g.params[1]} + timedelta(minutes={v} * {g.params[3]}))")
    ck.require(ok, rid, g, rets[0].expr, ok="entry k = get_tariff(start + k x period) for k in range(length)", bad="the vector lookup must evaluate get_tariff(start + k*timedelta(minutes=period)) for k in range(length)",
               sink="vector-lookup")
    d = repo.fn("TimeOfUseTariff.get_demand_charge")
    dfl = flow_of(d)
    rets = [n for n in dfl.cfg.nodes if n.kind == "return"]
    ok = len(rets) == 1 and canon(dfl.expand(rets[0].expr, rets[0])) == f"self._get_tariff_schedule({d.params[1]}).demand_charge"
    ck.require(ok, rid, d, rets[0].stmt if rets else "return", ok="demand rate of the schedule valid at that time", bad="get_demand_charge must return the demand_charge of the schedule valid at date_time",
               sink="demand-lookup")


def rule_alignment(ck, rid="C17.S2"):
    repo = ck.repo
    for q, callee, extra in (("Interface.get_prices", "get_tariffs", True), ("Interface.get_demand_charge", "get_demand_charge", False)):
        f = repo.fn(q)
        fl = flow_of(f)
        check_units(ck, rid, f, UNITS[q])
        cs = [(n, c) for n, c in calls_in(fl, callee) if isinstance(c.func, ast.Attribute) and "signals" in canon(fl.expand(c.func.value, n))]
        ck.require(len(cs) == 1, rid, f, cs[0][1] if cs else callee, bad=f"call to tariff.{callee} not found", sink=f"{q}-call")
        if len(cs) != 1:
            continue
        n, c = cs[0]
        start_p = f.params[-1]
        # start instant, specialised on whether `start` was given: gated expansion keeps the `start is None` test
        fl.gated = True
        try:
            a0x = fl.expand(c.args[0], n) if c.args else None
        finally:
            fl.gated = False
        from ..rules import specialise, alts_deep

        def forms(x):
            return {f"self._simulator.start + timedelta(minutes=self.period) * {x}", f"self._simulator.start + {x} * timedelta(minutes=self.period)"}
        given = {canon(a_) for a_ in alts_deep(specialise(a0x, {f"{start_p} is None": False, f"{start_p} is not None": True}))} if a0x is not None else set()
        missing = {canon(a_) for a_ in alts_deep(specialise(a0x, {f"{start_p} is None": True, f"{start_p} is not None": False}))} if a0x is not None else set()
        ck.require(bool(given) and given <= forms(start_p), rid, f, c, ok="a given start step is used as given: prices start at sim.start + period x start",
                   bad=f"with an explicit start the price vector starts at {sorted(given)}; it must be sim.start + timedelta(minutes=period) * start (start=0 included)", sink=f"{q}-start")
        ck.require(bool(missing) and missing <= forms("self.current_time"), rid, f, c, ok="default start is the current period", bad=f"without a start the price vector starts at {sorted(missing)}; "
                   f"it must default to the current period", sink=f"{q}-default")
        if extra:
            ok = len(c.args) == 3 and canon(fl.expand(c.args[1], n)) == f.params[1] and canon(fl.expand(c.args[2], n)) == "self.period"
            ck.require(ok, rid, f, c, ok="(start, length, period) passed on", bad="get_tariffs must receive (price_start, length, self.period)", sink=f"{q}-args")
    from .c18 import rule_demand_cost
    rule_demand_cost(ck)


def rule_tariff_choice(ck, rid="C17.S2"):
    """energy_cost / demand_charge price with the tariff that was passed; the simulator's own tariff signal is only the default."""
    from ..rules import specialise, alts_deep
    repo = ck.repo
    for q, meth in (("energy_cost", "get_tariffs"), ("demand_charge", "get_demand_charge")):
        f = repo.fn(q)
        fl = flow_of(f)
        p = f.params[1]
        sim = f.params[0]
        calls = [(n, c) for n, c in calls_in(fl, meth)]
        ck.require(len(calls) == 1, rid, f, calls[0][1] if calls else meth, bad=f"{len(calls)} {meth} call sites in {q}", sink=f"{q}:tariff-call")
        for n, c in calls:
            fl.gated = True
            try:
                recv = fl.expand(c.func.value, n)
            finally:
                fl.gated = False
            given = {canon(a_) for a_ in alts_deep(specialise(recv, {f"{p} is None": False, f"{p} is not None": True}))}
            missing = {canon(a_) for a_ in alts_deep(specialise(recv, {f"{p} is None": True, f"{p} is not None": False}))}
            ck.require(given == {p}, rid, f, c, ok=f"a tariff passed by the caller is the one used",
                       bad=f"with an explicit tariff argument {q} prices with {sorted(given)}: the argument is ignored or only used as a fallback", sink=f"{q}:tariff-receiver")
            ck.require(bool(missing) and all("signals['tariff']" in m and m.startswith(sim) for m in missing), rid, f, c, ok="without an argument the simulator's own tariff signal is used",
                       bad=f"without a tariff argument {q} prices with {sorted(missing)}", sink=f"{q}:tariff-default")


def rule_stateless(ck, rid="C17.S1"):
    """a price lookup is a function of the queried instant and the immutable tables: the lookup methods keep no cursor / cache on the
    tariff object (a lookup would otherwise depend on the order of earlier lookups: out-of-order queries, midnight crossings)"""
    from ..rules import state_writes
    repo = ck.repo
    n = 0
    for q in ("TimeOfUseTariff.get_tariff", "TimeOfUseTariff.get_tariffs", "TimeOfUseTariff._get_tariff_schedule", "TimeOfUseTariff.get_demand_charge"):
        f = repo.fn(q, optional=True)
        if f is None:
            continue
        n += 1
        w = [(nd, p, t) for nd, k, p, t in state_writes(flow_of(f)) if p.startswith("self.")]
        ck.require(not w, rid, f, w[0][2] if w else q, ok="no state kept between lookups",
                   bad=f"{q} stores `{w[0][1] if w else ''}` on the tariff object: the price returned depends on earlier queries", sink=f"stateless:{q}")
    ck.floor(rid, n, 3, "lookup methods of TimeOfUseTariff")


def run(ck):
    ck.attempt(rule_stateless)
    ck.attempt(rule_tariff_choice)
    ck.attempt(rule_tables)
    ck.attempt(rule_schedule_parse)
    ck.attempt(rule_wrap)
    ck.attempt(rule_selection)
    ck.attempt(rule_lookup)
    ck.attempt(rule_alignment)
    # "energy cost and demand charge equal sum(price x power x dt) and demand rate x peak power": the power they price is the station
    # rates weighted by each station's voltage (rules of C18 on aggregate_power / demand_charge / energy_cost)
    from .c18 import rule_current_power, rule_demand_cost
    ck.attempt(rule_current_power, rid_c="C17.S6", rid_p="C17.S6")
    ck.attempt(rule_demand_cost)


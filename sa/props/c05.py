"""C05 - the scheduler is invoked exactly when required and sees the true, isolated state (structural part)."""
import ast

from ..core import AnalysisError, dotted, call_name, src, walk_local, const_value
from ..flow import edge_facts, linear, Lin, leaves
from ..rules import (flow_of, inline_helpers, calls_in, bind_args, canon, lin, state_writes, facts_at, cmp_norm, region,
                     in_loop_within, who_writes, collect_list, iter_base)
from ..booltable import compare, WrongAtom
from ..escape import Escape, SCALAR, FRESH, ALIAS, ARG

EXPLANATION = ("The condition guarding the scheduler call in Simulator.run is proved equivalent, over all 16 assignments and under "
               "Python's short-circuit order, to  resolve or (max_recompute is not None and (last_update is None or iteration - "
               "last_update >= max_recompute)), and never evaluates the subtraction unless both Optionals are known non-None; there is "
               "exactly one scheduler call site in the loop body, not inside an inner loop, after the event-processing loop and before "
               "update_pilots, and its result is what _update_schedules receives; every event branch of _process_event raises the "
               "resolve flag, the flag is cleared and the last-update period set to exactly the current period only after the scheduler "
               "and _update_schedules returned; the initial state is resolve=False / last_update=None; every public member of Interface "
               "returns a scalar or a fresh object (deepcopy/new containers), BaseAlgorithm.run hands schedule() the fresh "
               "active_sessions(), Simulator.get_active_evs returns a deepcopy; SessionInfo(...) and InfrastructureInfo(...) are built "
               "with each argument bound to the like-named (synonym table) true attribute; the active set is `ev is not None and not "
               "fully_charged` with the 1e-3 kWh threshold; the previous-period accessors use column iteration-1 exactly, inclusive "
               "arrival test, and only from the third period on; current_datetime = start + timedelta(minutes=period)*iteration."
               ' Added in round 3: shallow copies (list / tuple / dict / copy / sorted) keep the aliasing of nested mutable elements in the escape analysis; the per-station accessors report the like-named field of the station asked about; SessionInfo / InfrastructureInfo store every parameter under its own name.')
EXPLANATION += ' Added in rounds 4-5: the interface is a stateless view - a value kept on the interface object is handed out only under a guard that compares by value everything it was computed from, memoising decorators are refused; generic rule G5 covers cached recompute deadlines on the simulator.'
NOT_DECIDED = ("that the number of invocations over a concrete history matches; the contents observed; schedulers that reach simulator "
               "state through means other than the Interface")


# ----------------------------------------------------------------------------
# R1 recompute condition
# ----------------------------------------------------------------------------

SPEC_G = Lin({"self._iteration": 1, "self._last_schedule_update": -1, "self.max_recompute": -1})


def atom_recompute(e):
    """-> (name, polarity) for atoms R, N (max_recompute is not None), L (last is None), G (iter - last >= max)"""
    while isinstance(e, ast.Call) and call_name(e) == "bool" and len(e.args) == 1:
        e = e.args[0]
    d = dotted(e)
    if d is not None:
        if canon(d) == "self._resolve":
            return "R", True
        if canon(d) in ("self.max_recompute", "self._last_schedule_update"):
            raise WrongAtom(f"`{src(e)}` is tested by truthiness: the value 0 (period 0 / a recompute interval of 0) is treated like None, so a "
                            f"scheduler that last ran in period 0 counts as never having run")
        raise AnalysisError(f"recompute condition: unknown atom {src(e)}")
    if isinstance(e, ast.Compare) and len(e.ops) == 1:
        l, op, r = e.left, e.ops[0], e.comparators[0]
        if isinstance(r, ast.Constant) and r.value is None and isinstance(op, (ast.Is, ast.IsNot, ast.Eq, ast.NotEq)):
            who = canon(l)
            isnone = isinstance(op, (ast.Is, ast.Eq))
            if who == "self.max_recompute":
                return "N", not isnone
            if who == "self._last_schedule_update":
                return "L", isnone
            raise AnalysisError(f"recompute condition: None-test on {who}")
        diff = linear(l, norm=canon) - linear(r, norm=canon)
        neg = diff.scale(-1)
        if isinstance(op, ast.GtE) and diff == SPEC_G or isinstance(op, ast.LtE) and neg == SPEC_G:
            return "G", True
        if isinstance(op, ast.Lt) and diff == SPEC_G or isinstance(op, ast.Gt) and neg == SPEC_G:
            return "G", False
        if diff == SPEC_G or neg == SPEC_G:
            raise WrongAtom(f"`{src(e)}` compares the specification's operands with the wrong operator/strictness "
                            f"(required: iteration - last_update >= max_recompute)")
        raise AnalysisError(f"recompute condition: unknown comparison {src(e)}")
    raise AnalysisError(f"recompute condition: unknown atom {src(e)}")


def rule_condition(ck, run, fl, S, head):
    cfg = fl.cfg
    # the `if` tests inside the period loop whose edges dominate the scheduler call
    tests = [(t, lab) for t, lab in cfg.edges_dominating(S) if t.kind == "test" and isinstance(t.stmt, ast.If) and cfg.dominates(head, t)]
    tests.sort(key=lambda x: x[0].id)
    if not tests:
        ck.violation("C05.R1", run, S.stmt, "the scheduler call is unconditional: it must run only when an event occurred or max_recompute periods elapsed",
                     sink="cond:missing")
        return
    if len(tests) > 1:
        # nested ifs: conjunction of the edges
        parts = []
        for t, lab in tests:
            ex = fl.expand(t.expr, t)
            parts.append(ex if lab else ast.UnaryOp(op=ast.Not(), operand=ex))
        cond = ast.BoolOp(op=ast.And(), values=parts)
        where = tests[-1][0].expr
    else:
        t, lab = tests[0]
        cond = fl.expand(t.expr, t)
        if not lab:
            cond = ast.UnaryOp(op=ast.Not(), operand=cond)
        where = t.expr
    # a __phi__ in the expanded condition means a boolean temp with several definitions: not recognised
    if any(isinstance(c, ast.Call) and call_name(c).startswith("__") for c in ast.walk(cond)):
        raise AnalysisError(f"recompute condition depends on a loop-carried/multiply-defined temporary: {src(cond)}")
    names = ["R", "N", "L", "G"]

    def spec(v):
        return v["R"] or (v["N"] and (v["L"] or v["G"]))

    def evaluable(name, v):
        return name != "G" or (v["N"] and not v["L"])
    try:
        bad = compare(cond, names, spec, atom_recompute, evaluable)
    except WrongAtom as w:
        ck.violation("C05.R1", run, where, str(w), sink="cond:strictness")
        return
    ck.count("truth-table assignments (recompute condition)", 16)
    ck.require(not bad, "C05.R1", run, where, ok="equivalent to  R or (N and (L or G))  on all 16 assignments; the subtraction is only evaluated when both Optionals are set",
               bad="; ".join(bad[:2]) + (f" (+{len(bad) - 2} more)" if len(bad) > 2 else ""), sink="cond:table")
    # truthiness of max_recompute instead of `is not None` (max_recompute = 0 would be treated as None) - flagged separately
    for c in ast.walk(cond):
        if isinstance(c, ast.BoolOp):
            for v in c.values:
                if dotted(v) and canon(dotted(v)) in ("self.max_recompute", "self._last_schedule_update"):
                    ck.violation("C05.R1", run, where, f"`{src(v)}` is tested by truthiness: the value 0 (a valid period / recompute setting) is "
                                 f"treated like None", sink="cond:truthiness")
        if isinstance(c, ast.UnaryOp) and isinstance(c.op, ast.Not) and dotted(c.operand) and \
                canon(dotted(c.operand)) in ("self.max_recompute", "self._last_schedule_update"):
            ck.violation("C05.R1", run, where, f"`{src(c)}` tests an Optional period by truthiness: period 0 is treated like None (never run)",
                         sink="cond:truthiness")


# ----------------------------------------------------------------------------
# R2 / R3 ordering and flags
# ----------------------------------------------------------------------------

def rule_order(ck):
    repo = ck.repo
    run = inline_helpers(repo, repo.fn("Simulator.run"))
    fl = flow_of(run)
    cfg = fl.cfg
    ck.count("cfg_nodes(Simulator.run)", len(cfg.nodes))
    sched = [(n, c) for n, c in calls_in(fl, "run") if canon(c.func) == "self.scheduler.run"]
    ck.require(len(sched) == 1, "C05.R2", run, sched[0][1] if sched else "self.scheduler.run()", ok="exactly one scheduler call site",
               bad=f"{len(sched)} scheduler call sites in run() (at most one invocation per period requires exactly one)", sink="sched:count")
    if len(sched) != 1:
        return
    S, call = sched[0]
    heads = [t for t, lab in cfg.edges_dominating(S) if t.kind == "test" and lab is True and isinstance(t.stmt, ast.While)]
    if len(heads) != 1:
        ck.violation("C05.R2", run, call, f"the scheduler call is inside {len(heads)} while loops (must be directly in the period loop)", sink="sched:loops")
        return
    head = heads[0]
    body = cfg.loop_body_nodes(head)
    inner = [t for t, lab in cfg.edges_dominating(S) if t.kind == "for" and lab is True]
    ck.require(not inner, "C05.R2", run, call, ok="not inside an inner loop: at most once per period",
               bad="the scheduler call is inside an inner loop: it can run several times in one period", sink="sched:inner-loop")
    # on a cycle that avoids the loop head?
    ck.require(not in_loop_within(fl, S, body - {head}), "C05.R2", run, call, ok="no cycle through the call within a period",
               bad="the scheduler call lies on a cycle within one period", sink="sched:cycle")
    rule_condition(ck, run, fl, S, head)
    # after the event loop, before update_pilots
    procs = [n for n, c in calls_in(fl, "_process_event") if n in body]
    pops = [n for n, c in calls_in(fl, "get_current_events") if n in body]
    ck.require(bool(procs) and bool(pops), "C05.R2", run, "event processing in the loop body", bad="no event processing found in the period loop",
               sink="sched:events-exist")
    for p in procs:
        ck.require(p not in cfg.reach(S, avoid={head}) and all(cfg.dominates(x, S) for x in pops), "C05.R2", run, p.stmt,
                   ok="all events of the period are applied before the scheduler runs",
                   bad="an event can be processed after the scheduler was invoked in the same period", sink="sched:after-events")
    # the loop that processes events is finished before S: S is not inside it and its head dominates S
    for p in procs:
        loops = [t for t, lab in cfg.edges_dominating(p) if t.kind == "for" and lab is True]
        ck.require(bool(loops) and all(cfg.dominates(l, S) for l in loops), "C05.R2", run, p.stmt, ok="the event loop completes before the scheduler call",
                   bad="the scheduler call is not dominated by the event-processing loop", sink="sched:event-loop-dominates")
    ups = [n for n, c in calls_in(fl, "update_pilots") if n in body]
    ck.require(bool(ups) and all(S not in cfg.reach(u, avoid={head}) for u in ups), "C05.R2", run, ups[0].stmt if ups else "update_pilots",
               ok="pilots are sent after the scheduler decision of the same period", bad="update_pilots can run before the scheduler call of the period",
               sink="sched:before-pilots")
    # result flows into _update_schedules
    us = [(n, c) for n, c in calls_in(fl, "_update_schedules") if n in body]
    ok = False
    for n, c in us:
        if c.args:
            ex = fl.expand(c.args[0], n)
            if canon(ex) == "self.scheduler.run()" and cfg.dominates(S, n):
                ok = True
    ck.require(ok, "C05.R2", run, us[0][1] if us else "_update_schedules(new_schedule)", ok="the scheduler's result is what _update_schedules receives",
               bad="the value returned by the scheduler does not reach _update_schedules", sink="sched:result-flow")

    # R3 flags
    clears = [n for n, k, p, t in state_writes(fl) if p == "self._resolve" and n in body]
    sets = [n for n, k, p, t in state_writes(fl) if p == "self._last_schedule_update" and n in body]
    ck.require(bool(clears), "C05.R3", run, "self._resolve = False", ok="resolve flag cleared", bad="the resolve flag is never cleared after scheduling: "
               "the scheduler would run every period once an event occurred", sink="flags:clear-exists")
    ck.require(bool(sets), "C05.R3", run, "self._last_schedule_update = self._iteration", ok="last-update period recorded",
               bad="the period of the last invocation is never recorded: the max_recompute clock cannot work", sink="flags:set-exists")
    usn = [n for n, c in us]
    for n in clears:
        val = n.stmt.value if isinstance(n.stmt, ast.Assign) else None
        ck.require(isinstance(val, ast.Constant) and val.value is False, "C05.R3", run, n.stmt, ok="cleared to False", bad="the resolve flag must be cleared to False",
                   sink="flags:clear-value")
        ck.require(cfg.dominates(S, n) and any(cfg.dominates(u, n) for u in usn), "C05.R3", run, n.stmt,
                   ok="cleared only after the scheduler and _update_schedules returned",
                   bad="the resolve flag is cleared on a path that has not (yet) run the scheduler and applied its schedule", sink="flags:clear-after")
    for n in sets:
        ok = isinstance(n.stmt, ast.Assign) and lin(fl, n.stmt.value, n) == Lin({"self._iteration": 1})
        ck.require(ok, "C05.R3", run, n.stmt, ok="last update = exactly the current period", bad="the recorded period must be exactly self._iteration",
                   sink="flags:set-value")
        ck.require(cfg.dominates(S, n), "C05.R3", run, n.stmt, ok="recorded only after the scheduler ran",
                   bad="the last-update period is advanced without the scheduler having run", sink="flags:set-after")
    # every path from the scheduler call to the end of the iteration passes both
    for what, nodes in (("resolve flag clear", clears), ("last-update record", sets)):
        ck.require(bool(nodes) and head not in cfg.reach(S, avoid=set(nodes) | {cfg.raise_exit}), "C05.R3", run, what,
                   ok=f"{what} on every normal path after the scheduler call", bad=f"a path from the scheduler call to the next period skips the {what}",
                   sink=f"flags:{what}:every-path")

    rule_event_flags(ck)
    # initial state
    init = repo.fn("Simulator.__init__")
    ifl = flow_of(init)
    for attr, want in (("self._resolve", False), ("self._last_schedule_update", None)):
        st = [n for n, k, p, t in state_writes(ifl) if p == attr]
        ok = bool(st) and all(isinstance(n.stmt, (ast.Assign, ast.AnnAssign)) and isinstance(n.stmt.value, ast.Constant) and n.stmt.value.value is want
                              and type(n.stmt.value.value) is type(want) for n in st)
        ck.require(ok, "C05.R3", init, st[0].stmt if st else attr, ok=f"initially {want}",
                   bad=f"{attr} must start as {want} ('it has never run' must be distinguishable from 'ran in period 0')", sink=f"flags:init:{attr}")
    # writers of the two flags
    allowed = {"Simulator.__init__", "Simulator.run", "Simulator.step", "Simulator._process_event", "Simulator._from_dict"}
    for attr in ("_resolve", "_last_schedule_update"):
        for f, kind, p, t in who_writes(repo, attr):
            if "/tests/" in f.module:
                continue
            ck.require(f.qual in allowed, "C05.R3", f, t, ok=f"{attr} written by the simulator's own bookkeeping",
                       bad=f"{attr} is written outside the simulator's scheduling bookkeeping ({f.qual})", sink=f"flags:writer:{attr}:{f.qual}")


def rule_event_flags(ck, rid="C05.R3"):
    """every event branch of _process_event demands a new schedule (resolve = True on every path, never cleared there)"""
    repo = ck.repo
    from .c01 import dispatch_branches, event_type_literals, process_event_by_type
    pe, _split = process_event_by_type(repo)
    pfl = flow_of(pe)
    br = dispatch_branches(pfl, pe.params[1])
    lits = set(event_type_literals(repo).values())
    ck.require(set(br) >= lits, rid, pe, "dispatch", ok="every event type dispatched", bad=f"event types without a branch: {sorted(lits - set(br))}",
               sink="flags:dispatch")
    for lit, edge in sorted(br.items()):
        reg = region(pfl, edge)
        trues = [n for n, k, p, t in state_writes(pfl) if p == "self._resolve" and n in reg and isinstance(n.stmt, ast.Assign)
                 and isinstance(n.stmt.value, ast.Constant) and n.stmt.value.value is True]
        every = bool(trues) and pfl.cfg.exit not in pfl.cfg.reach(edge, avoid=set(trues) | {pfl.cfg.raise_exit})
        ck.require(every, rid, pe, f"{lit} branch", ok=f"a {lit} event demands a new schedule (resolve = True on every path)",
                   bad=f"the {lit} branch does not set self._resolve = True on every path: the scheduler is not invoked in the period of this event",
                   sink=f"flags:{lit}:resolve")
        falses = [n for n, k, p, t in state_writes(pfl) if p == "self._resolve" and n in reg and n not in trues]
        ck.require(not falses, rid, pe, falses[0].stmt if falses else f"{lit} branch", ok="flag only raised here", bad="an event branch clears the resolve flag",
                   sink=f"flags:{lit}:no-clear")


# ----------------------------------------------------------------------------
# R4 escape
# ----------------------------------------------------------------------------

def rule_escape(ck, rid="C05.R4"):
    repo = ck.repo
    iface = repo.cls("Interface")
    es = Escape(repo, iface, ("self._simulator",))
    n = 0
    for name, m in sorted(iface.methods.items()):
        if name.startswith("_"):
            continue
        n += 1
        k = es.member(name)
        ck.require(k in (SCALAR, FRESH, ARG), rid, m, f"Interface.{name} -> {k}", ok="returns a scalar or a fresh object",
                   bad=f"Interface.{name} hands out an object that shares mutable state with the simulator "
                       f"({'; '.join(f'{e}: {kk}' for e, kk in es.trace.get(('Interface', name), []))}): a scheduler mutating it alters the simulation",
                   sink=f"{name}:alias")
    ck.floor(rid, n, 18, "public members of Interface")
    sim = repo.cls("Simulator")
    es2 = Escape(repo, sim, ("self",))
    m = repo.method(sim, "get_active_evs")
    k = es2.member("get_active_evs")
    ck.require(k in (SCALAR, FRESH), rid, m, f"Simulator.get_active_evs -> {k}", ok="returns a deep copy",
               bad="Simulator.get_active_evs returns the network's own EV objects", sink="get_active_evs:alias")
    # BaseAlgorithm.run hands schedule() the interface's fresh session list
    br = repo.fn("BaseAlgorithm.run")
    fl = flow_of(br)
    sc = [(n_, c) for n_, c in calls_in(fl, "schedule")]
    ck.require(len(sc) == 1, rid, br, sc[0][1] if sc else "self.schedule(...)", bad=f"{len(sc)} schedule() call sites in BaseAlgorithm.run", sink="alg-run:count")
    for n_, c in sc:
        a = fl.expand(c.args[0], n_) if c.args else None
        ok = a is not None and canon(a) in ("self.interface.active_sessions()", "self._interface.active_sessions()")
        ck.require(ok, rid, br, c, ok="schedule() receives interface.active_sessions() (a fresh copy)",
                   bad=f"schedule() receives {src(a) if a is not None else None}, not the copying accessor active_sessions()", sink="alg-run:arg")
        rets = [r for r in fl.cfg.nodes if r.kind == "return"]
        ok = bool(rets) and all(canon(fl.expand(r.expr, r)) == canon(fl.expand(c, n_)) for r in rets)
        ck.require(ok, rid, br, rets[0].stmt if rets else "return", ok="returns what schedule() returned", bad="run() does not return schedule()'s result",
                   sink="alg-run:return")


# ----------------------------------------------------------------------------
# R5 argument binding
# ----------------------------------------------------------------------------

SESSION_SYN = {"station_id": "station_id", "session_id": "session_id", "requested_energy": "requested_energy", "energy_delivered": "energy_delivered",
               "arrival": "arrival", "departure": "departure", "estimated_departure": "estimated_departure"}
INFRA_SYN = {"constraint_matrix": "constraint_matrix", "constraint_limits": "magnitudes", "phases": "_phase_angles", "voltages": "_voltages",
             "constraint_ids": "constraint_index", "station_ids": "station_ids", "max_pilot": "max_pilot_signals", "min_pilot": "min_pilot_signals",
             "allowable_pilots": "allowable_rates", "is_continuous": "is_continuous"}
# public read-only accessors of the network that return the private array itself (confirmed by reading)
NET_ALIASES = {"phase_angles": "_phase_angles", "voltages": "_voltages"}


def terminal_attrs(e):
    """set of terminal attribute names an (expanded) argument expression reads from an object"""
    out = set()
    for c in ast.walk(e):
        if isinstance(c, ast.Attribute) and not (isinstance(c.value, ast.Name) and c.value.id == "np"):
            out.add(NET_ALIASES.get(c.attr, c.attr))
    return out


def rule_binding(ck):
    repo = ck.repo
    f = repo.fn("Interface._active_sessions")
    fl = flow_of(f)
    si = repo.cls("SessionInfo")
    init = repo.method(si, "__init__")
    rets = [n for n in fl.cfg.nodes if n.kind == "return"]
    ck.require(len(rets) == 1, "C05.R5", f, "single return", bad=f"{len(rets)} returns in _active_sessions", sink="session:returns")
    for r in rets:
        ex = fl.expand(r.expr, r)          # a loop with append is normalised to the equivalent comprehension
        if not (isinstance(ex, ast.ListComp) and len(ex.generators) == 1 and isinstance(ex.elt, ast.Call) and call_name(ex.elt) == "SessionInfo"):
            raise AnalysisError(f"_active_sessions: construction of the session list not recognised: {src(ex, 80)}")
        g = ex.generators[0]
        c = ex.elt
        itv = g.target.id if isinstance(g.target, ast.Name) else None
        src_it = canon(g.iter)
        ck.require(src_it in ("self._active_evs", "self._simulator.get_active_evs()") and not g.ifs, "C05.R5", f, g.iter,
                   ok="one SessionInfo per active EV, unfiltered", bad=f"sessions are built from {src_it}{' with a filter' if g.ifs else ''}, not from all active EVs",
                   sink="session:source")
        b = bind_args(c, init, method=True)
        for p, attr in SESSION_SYN.items():
            a = b.get(p)
            ok = a is not None and isinstance(a, ast.Attribute) and a.attr == attr and dotted(a.value) == itv
            ck.require(ok, "C05.R5", f, a if a is not None else c, ok=f"{p} <- ev.{attr}",
                       bad=f"SessionInfo parameter {p} is bound to `{src(a) if a is not None else 'nothing'}`; it must be the EV's {attr}", sink=f"session:{p}")
        a = b.get("current_time")
        ok = a is not None and canon(a) in ("self.current_time", "self._simulator._iteration")
        ck.require(ok, "C05.R5", f, a if a is not None else c, ok="current_time <- the simulator's current period",
                   bad="SessionInfo.current_time is not bound to the interface's current_time", sink="session:current_time")
        for extra in ("min_rates", "max_rates"):
            ck.require(extra not in b, "C05.R5", f, b.get(extra, c), ok=f"{extra} left at its default", bad=f"{extra} overridden when describing the true state",
                       sink=f"session:{extra}")
    g = repo.fn("Interface._infrastructure_info")
    gl = flow_of(g)
    ii = repo.cls("InfrastructureInfo")
    ginit = repo.method(ii, "__init__")
    calls = [(n, c) for n, c in calls_in(gl, "InfrastructureInfo")]
    ck.require(len(calls) == 1, "C05.R5", g, calls[0][1] if calls else "InfrastructureInfo(...)", bad=f"{len(calls)} InfrastructureInfo constructions", sink="infra:count")
    for n, c in calls:
        b = bind_args(c, ginit, method=True)
        for p, attr in INFRA_SYN.items():
            a = b.get(p)
            ex = gl.expand(a, n) if a is not None else None
            got = terminal_attrs(ex) - {"_simulator", "network"} if ex is not None else set()
            rooted = ex is not None and any(canon(x).startswith("self._simulator.network") for x in ast.walk(ex) if isinstance(x, ast.Attribute))
            ok = attr in got and got <= {attr, "shape"} and rooted
            if p == "constraint_matrix" and ex is not None:
                # the None -> empty 0xN substitution (fix F4) may appear as an alternative
                got2 = got - {"station_ids"}
                ok = attr in got2 and rooted
            ck.require(ok, "C05.R5", g, a if a is not None else c, ok=f"{p} <- network.{attr}",
                       bad=f"InfrastructureInfo parameter {p} is bound to `{src(a) if a is not None else 'nothing'}` (reads {sorted(got)}); it must be the network's {attr}",
                       sink=f"infra:{p}")
    # InfrastructureInfo / SessionInfo constructors store each parameter under its own name
    for cls_, initf in ((si, init), (ii, ginit)):
        ifl = flow_of(initf)
        for p in initf.params[1:]:
            st = [n for n in ifl.cfg.nodes if n.kind == "stmt" and isinstance(n.stmt, ast.Assign) and any(dotted(t) == f"self.{p}" for t in n.stmt.targets)]
            ok = False
            for n in st:
                own = p in {x.id for x in ast.walk(ifl.expand(n.stmt.value, n)) if isinstance(x, ast.Name)}
                # a store of something else is only accepted as the default on the `<param> is None` edge
                dflt = any((c := cmp_norm(a, t)) and c[1] == "is" and dotted(c[0]) == p and isinstance(c[2], ast.Constant) and c[2].value is None
                           for a, t in facts_at(ifl, n))
                if own:
                    ok = True
                elif not dflt:
                    ok = False
                    break
            ck.require(ok, "C05.R5", initf, st[0].stmt if st else f"self.{p} = {p}", ok=f"self.{p} derives from parameter {p}",
                       bad=f"{cls_.name}.{p} is not stored from its own parameter", sink=f"{cls_.name}:store:{p}")


# ----------------------------------------------------------------------------
# R6 active set / R7 previous-period accessors
# ----------------------------------------------------------------------------

def rule_active(ck):
    repo = ck.repo
    f = repo.fn("ChargingNetwork.active_evs")
    fl = flow_of(f)
    rets = [n for n in fl.cfg.nodes if n.kind == "return"]
    if len(rets) != 1:
        raise AnalysisError("ChargingNetwork.active_evs: expected a single return")
    r = rets[0]
    elems = collect_list(fl, r.expr, r)
    if elems is None:
        raise AnalysisError(f"active_evs: construction not recognised: {src(r.expr)}")
    ex = fl.expand(r.expr, r)
    comp = ex if isinstance(ex, ast.ListComp) else None
    if comp is None:
        raise AnalysisError("active_evs: only the comprehension form is recognised")
    g = comp.generators[0]
    ck.require(canon(iter_base(g.iter)) == "self._EVSEs", "C05.R6", f, g.iter, ok="every EVSE considered", bad="active_evs does not range over all EVSEs",
               sink="active:iter")
    var = g.target.id if isinstance(g.target, ast.Name) else None
    ck.require(isinstance(comp.elt, ast.Attribute) and comp.elt.attr in ("ev", "_ev") and dotted(comp.elt.value) == var, "C05.R6", f, comp.elt,
               ok="yields the EVSE's EV", bad="active_evs does not yield evse.ev", sink="active:elt")
    cond = ast.BoolOp(op=ast.And(), values=list(g.ifs)) if len(g.ifs) != 1 else g.ifs[0]

    def atom(e):
        if isinstance(e, ast.Compare) and len(e.ops) == 1 and isinstance(e.comparators[0], ast.Constant) and e.comparators[0].value is None:
            if isinstance(e.left, ast.Attribute) and e.left.attr in ("ev", "_ev") and dotted(e.left.value) == var:
                return "P", isinstance(e.ops[0], (ast.IsNot, ast.NotEq))
        if isinstance(e, ast.Attribute) and e.attr == "fully_charged" and isinstance(e.value, ast.Attribute) and e.value.attr in ("ev", "_ev"):
            return "F", True
        raise AnalysisError(f"active_evs filter: unknown atom {src(e)}")
    bad = compare(cond, ["P", "F"], lambda v: v["P"] and not v["F"], atom, lambda name, v: name != "F" or v["P"]) if g.ifs else ["no filter at all"]
    ck.require(not bad, "C05.R6", f, g.ifs[0] if g.ifs else comp, ok="active = connected and not fully charged (None-safe)",
               bad="active set filter differs from `ev is not None and not ev.fully_charged`: " + "; ".join(bad[:2]), sink="active:filter")
    # fully_charged threshold
    fc = repo.fn("EV.fully_charged")
    ffl = flow_of(fc)
    for rn in [n for n in ffl.cfg.nodes if n.kind == "return"]:
        e = ffl.expand(rn.expr, rn)
        pol = True
        while isinstance(e, ast.UnaryOp) and isinstance(e.op, ast.Not):
            e, pol = e.operand, not pol
        c = cmp_norm(e, pol)
        # fully charged  <=>  remaining_demand <= 1e-3
        ok = False
        if c:
            l, op, rr = c
            try:
                if op == "<=" and canon(l) == "self.remaining_demand" and abs(const_value(rr) - 1e-3) < 1e-15:
                    ok = True
            except (ValueError, TypeError):
                pass
        ck.require(ok, "C05.R6", fc, rn.expr, ok="fully charged iff remaining demand <= 1e-3 kWh",
                   bad=f"fully_charged must be `remaining_demand <= 1e-3` (i.e. not > 1e-3); got {src(rn.expr)}", sink="active:threshold")
    rd = repo.fn("EV.remaining_demand")
    rfl = flow_of(rd)
    for rn in [n for n in rfl.cfg.nodes if n.kind == "return"]:
        l = linear(rfl.expand(rn.expr, rn), norm=lambda s: s.replace("self._", "self."))
        ck.require(l == Lin({"self.requested_energy": 1, "self.energy_delivered": -1}), "C05.R6", rd, rn.expr, ok="remaining = requested - delivered",
                   bad=f"remaining_demand must be requested_energy - energy_delivered; got {src(rn.expr)}", sink="active:remaining")


def rule_prev(ck):
    repo = ck.repo
    f = repo.fn("Interface.last_applied_pilot_signals")
    fl = flow_of(f)
    rets = [n for n in fl.cfg.nodes if n.kind == "return"]
    comps = []
    for r in rets:
        ex = fl.expand(r.expr, r)
        if isinstance(ex, ast.DictComp):
            comps.append((r, ex))
        else:
            ok = isinstance(ex, ast.Dict) and not ex.keys
            ck.require(ok, "C05.R7", f, r.expr, ok="empty before the third period", bad=f"non-comprehension return {src(r.expr)} is not the empty mapping", sink="prev:empty")
            if ok:
                # on the edge where iteration - 1 > 0 is false
                fs = [cmp_norm(fl.expand(a, r), t) for a, t in facts_at(fl, r)]
                good = any(c and c[1] in ("<=",) and linear(c[0], norm=canon) - linear(c[2], norm=canon) == Lin({"self._simulator._iteration": 1}, -1) for c in fs)
                ck.require(good, "C05.R7", f, r.stmt, ok="empty exactly while iteration - 1 <= 0", bad="the empty result is not guarded by `iteration - 1 <= 0`",
                           sink="prev:empty-guard")
    ck.require(len(comps) == 1, "C05.R7", f, "dict comprehension", bad=f"{len(comps)} comprehension returns (need 1)", sink="prev:comp")
    for r, ex in comps:
        g = ex.generators[0]
        var = g.target.id if isinstance(g.target, ast.Name) else None
        ck.require(canon(g.iter) in ("self._active_evs", "self._simulator.get_active_evs()"), "C05.R7", f, g.iter, ok="ranges over the active EVs",
                   bad="previous pilots are not taken over the active EVs", sink="prev:iter")
        ck.require(isinstance(ex.key, ast.Attribute) and ex.key.attr == "session_id" and dotted(ex.key.value) == var, "C05.R7", f, ex.key, ok="keyed by session id",
                   bad="previous pilots must be keyed by session id", sink="prev:key")
        v = ex.value
        ok = isinstance(v, ast.Subscript) and canon(v.value) == "self._simulator.pilot_signals" and isinstance(v.slice, ast.Tuple) and len(v.slice.elts) == 2
        col_ok = row_ok = False
        if ok:
            row, col = v.slice.elts
            col_ok = linear(col, norm=canon) == Lin({"self._simulator._iteration": 1}, -1)
            row_ok = isinstance(row, ast.Call) and call_name(row) in ("index_of_evse", "get_station_index") and row.args and \
                isinstance(row.args[0], ast.Attribute) and row.args[0].attr == "station_id" and dotted(row.args[0].value) == var
        ck.require(ok and col_ok, "C05.R7", f, v, ok="column = exactly iteration - 1", bad="the previous pilot must be read at column iteration - 1 exactly", sink="prev:col")
        ck.require(ok and row_ok, "C05.R7", f, v, ok="row = index of the EV's own station", bad="the row must be index_of_evse(ev.station_id)", sink="prev:row")
        cond = ast.BoolOp(op=ast.And(), values=list(g.ifs)) if len(g.ifs) > 1 else (g.ifs[0] if g.ifs else None)
        good = False
        if cond is not None and isinstance(cond, ast.Compare):
            c = cmp_norm(cond)
            if c and c[1] == "<=" and isinstance(c[0], ast.Attribute) and c[0].attr == "arrival" and dotted(c[0].value) == var \
                    and linear(c[2], norm=canon) == Lin({"self._simulator._iteration": 1}, -1):
                good = True
        ck.require(good, "C05.R7", f, cond if cond is not None else ex, ok="sessions with arrival <= iteration - 1 (inclusive)",
                   bad=f"the filter must be `ev.arrival <= iteration - 1` (inclusive); got {src(cond) if cond is not None else 'no filter'}", sink="prev:filter")
        # on the edge iteration - 1 > 0
        fs = [cmp_norm(fl.expand(a, r), t) for a, t in facts_at(fl, r)]
        good = any(c and c[1] == "<" and linear(c[2], norm=canon) - linear(c[0], norm=canon) == Lin({"self._simulator._iteration": 1}, -1) for c in fs)
        ck.require(good, "C05.R7", f, r.stmt, ok="only when iteration - 1 > 0 (from the third period on)", bad="the comprehension is not guarded by `iteration - 1 > 0`",
                   sink="prev:guard")
    # last_actual_charging_rate
    h = repo.fn("Interface.last_actual_charging_rate")
    hl = flow_of(h)
    for r in [n for n in hl.cfg.nodes if n.kind == "return"]:
        ex = hl.expand(r.expr, r)
        ok = isinstance(ex, ast.DictComp) and not ex.generators[0].ifs and canon(ex.generators[0].iter) in ("self._active_evs",) and \
            isinstance(ex.key, ast.Attribute) and ex.key.attr == "session_id" and isinstance(ex.value, ast.Attribute) and ex.value.attr == "current_charging_rate" \
            and dotted(ex.key.value) == dotted(ex.value.value)
        ck.require(ok, "C05.R7", h, r.expr, ok="session id -> that EV's actual rate, all active EVs", bad="last_actual_charging_rate is not {ev.session_id: ev.current_charging_rate}",
                   sink="prev:rates")
    # scalar accessors
    for q, want in (("Interface.current_time", "self._simulator._iteration"), ("Interface.period", "self._simulator.period"),
                    ("Interface.get_prev_peak", "self._simulator.peak"), ("Interface.max_recompute_time", "self._simulator.max_recompute")):
        m = repo.fn(q)
        ml = flow_of(m)
        for r in [n for n in ml.cfg.nodes if n.kind == "return"]:
            ck.require(canon(ml.expand(r.expr, r)) == want, "C05.R7", m, r.expr, ok=f"returns {want}", bad=f"{q} must return {want}", sink=f"prev:{m.name}")
    m = repo.fn("Interface.current_datetime")
    ml = flow_of(m)
    for r in [n for n in ml.cfg.nodes if n.kind == "return"]:
        e = ml.expand(r.expr, r)
        ok = False
        if isinstance(e, ast.BinOp) and isinstance(e.op, ast.Add):
            for a, b in ((e.left, e.right), (e.right, e.left)):
                if canon(a) == "self._simulator.start" and isinstance(b, ast.BinOp) and isinstance(b.op, ast.Mult):
                    for td, k in ((b.left, b.right), (b.right, b.left)):
                        if isinstance(td, ast.Call) and call_name(td) == "timedelta" and len(td.keywords) == 1 and td.keywords[0].arg == "minutes" \
                                and not td.args and canon(td.keywords[0].value) in ("self.period", "self._simulator.period") \
                                and canon(k) in ("self.current_time", "self._simulator._iteration"):
                            ok = True
        ck.require(ok, "C05.R7", m, r.expr, ok="start + timedelta(minutes=period) * iteration", bad=f"current_datetime must be start + timedelta(minutes=period)*current_time; got {src(r.expr)}",
                   sink="prev:datetime")


def rule_holders(ck, rid="C05.R9"):
    """the objects a scheduler receives carry each value under its own name (shared engine: rules.same_name_constructor)"""
    from ..rules import same_name_constructor
    n = 0
    for cname in ("SessionInfo", "InfrastructureInfo"):
        n += same_name_constructor(ck, rid, ck.repo.cls(cname, module="interface.py"))
    ck.floor(rid, n, 15, "parameter-to-attribute stores of SessionInfo / InfrastructureInfo")


# ----------------------------------------------------------------------------
# R10 the interface is a stateless view: anything it remembers is re-validated against everything it was computed from
# ----------------------------------------------------------------------------

MEMO_DECORATORS = ("lru_cache", "cache", "cached_property", "memoize", "memoized")
VIEW_ROOT_SKIP = {"_simulator", "network", "self"}


def _value_roots(e, skip_attrs=()):
    """terminal attribute names of the simulator state an (expanded) expression reads *by value*: the last component of every dotted
    leaf; a leaf that only occurs as the argument of id(...) is an identity, not a value, and is left out"""
    inside_id = set()
    for c in ast.walk(e):
        if isinstance(c, ast.Call) and call_name(c) == "id":
            for x in ast.walk(c):
                inside_id.add(id(x))
    out = set()

    def go(x):
        if id(x) in inside_id:
            return
        d = dotted(x)
        if d is not None:
            last = d.split(".")[-1]
            if "." in d and last not in VIEW_ROOT_SKIP and last not in skip_attrs and d.split(".")[0] not in ("np", "numpy", "math"):
                out.add(NET_ALIASES.get(last, last))
            return
        for c in ast.iter_child_nodes(x):
            go(c)
    go(e)
    return out


def rule_stateless_view(ck, rid="C05.R10"):
    """`the scheduler sees the true state`: every value an Interface method returns is computed from the simulator as it is now.  An
    attribute the interface object keeps between calls (a memo) may only be handed out on a path whose guard compares, by value, every
    piece of simulator state the remembered value was computed from; a memoising decorator keys on the object's identity only."""
    repo = ck.repo
    classes = [repo.cls("Interface")] + [c for c in repo.subclasses("Interface")]
    n = 0
    for ci in classes:
        # attributes of the interface object written outside the constructor = remembered between calls
        stores = {}
        for name, m in ci.methods.items():
            for dec in getattr(m.node, "decorator_list", []):
                dn = (dotted(dec.func) if isinstance(dec, ast.Call) else dotted(dec)) or ""
                n += 1
                ck.require(dn.split(".")[-1] not in MEMO_DECORATORS, rid, m, dec, ok="no memoising decorator",
                           bad=f"{ci.name}.{name} is memoised by `{dn}` on the identity of its arguments: later changes of the simulator "
                               "(new limits, registrations, sessions) are invisible to the scheduler", sink=f"{name}:memo-decorator")
            if name == "__init__":
                continue
            fl = flow_of(m)
            for node, kind, path, tgt in state_writes(fl):
                if path.startswith("self.") and path.split(".")[1] != "_simulator" and path.count(".") == 1:
                    val = getattr(node.stmt, "value", None)
                    if val is not None:
                        stores.setdefault(path, []).append((m, fl, node, val))
        if not stores:
            n += 1
            ck.holds(rid, ci.methods.get("__init__") or next(iter(ci.methods.values())), f"{ci.name}: keeps no state between calls besides the simulator reference")
            continue
        for path, sts in sorted(stores.items()):
            attr = path.split(".")[1]
            need = set()
            for m, fl, node, val in sts:
                need |= _value_roots(fl.expand(val, node), skip_attrs=(attr,))
            for name, m in sorted(ci.methods.items()):
                if name == "__init__":
                    continue
                fl = flow_of(m)
                for r in fl.cfg.nodes:
                    if r.kind != "return" or r.expr is None:
                        continue
                    e = fl.expand(r.expr, r)
                    if not any(dotted(x) == path for x in ast.walk(e)):
                        continue
                    # a return of the value stored on this very path (`self.X = E; return self.X`) is E itself
                    if any(fl.cfg.dominates(node, r) for mm, ff, node, val in sts if mm is m):
                        continue
                    n += 1
                    covered = set()
                    for a, t in facts_at(fl, r):
                        if path in src(a) and isinstance(a, ast.Compare) and (
                                (t and isinstance(a.ops[0], (ast.Eq, ast.Is))) or (not t and isinstance(a.ops[0], (ast.NotEq, ast.IsNot)))):
                            for side in [a.left] + list(a.comparators):
                                covered |= _value_roots(fl.expand(side, r), skip_attrs=(attr,))
                    missing = sorted(need - covered)
                    ck.require(not missing, rid, m, r.stmt, ok=f"`{path}` is reused only when everything it was computed from is unchanged",
                               bad=f"{ci.name}.{name} hands out `{path}`, remembered from an earlier call and computed from "
                                   f"{sorted(need)}; the test that lets it be reused compares only {sorted(covered) or 'nothing'}: a later change of "
                                   f"{missing} (update_constraint, a registration, a new limit) never reaches the scheduler", sink=f"{name}:stale:{attr}")
    ck.floor(rid, n, 1, "Interface classes / remembered attributes / memoising decorators examined")


def run(ck):
    ck.attempt(rule_order)
    ck.attempt(rule_stateless_view)
    ck.attempt(rule_escape)
    ck.attempt(rule_binding)
    ck.attempt(rule_active)
    ck.attempt(rule_prev)
    # the per-station facts a scheduler asks for (maximum / minimum pilot, allowable levels, voltage, phase) are those of the station
    # it names (shared with C13)
    from .c13 import rule_accessors
    ck.attempt(rule_accessors, rid="C05.R8")
    ck.attempt(rule_holders)
    # "their true delivered energy, the previous period's actual rates": what an EV reports is what its battery returned for this very
    # pilot on every path through EV.charge (shared with C02)
    from .c02 import rule_same_value
    ck.attempt(rule_same_value, rid="C05.R11")


"""Dimension-and-scale inference over arithmetic (abstract interpretation).

Domain: exponents over (A, V, time, $, angle) x scale-to-SI, plus TOP (unknown, never
alarms) and LIT (a pure literal, compatible with anything in +,-,min,max,compare).
The literals 1000, 60 and 3600 are unit *conversions* (dimensionless quantities of
scale 1/c), so `x/1000` turns W into kW, `period/60` minutes into hours,
`60*period` minutes into seconds and `60/period` into "per hour"."""
import ast
import math

from .core import dotted, call_name, src

BASE = ("A", "V", "T", "USD", "DEG")


class U:
    __slots__ = ("d", "k")

    def __init__(self, d=None, k=1.0):
        self.d = tuple(d) if d else (0,) * len(BASE)
        self.k = float(k)

    def __mul__(s, o):
        return U([a + b for a, b in zip(s.d, o.d)], s.k * o.k)

    def __truediv__(s, o):
        return U([a - b for a, b in zip(s.d, o.d)], s.k / o.k)

    def same(s, o):
        return s.d == o.d and abs(math.log(s.k / o.k)) < 1e-9

    def __repr__(s):
        for n, u in NAMED.items():
            if u.same(s):
                return n
        n = "*".join(f"{b}^{e}" if e != 1 else b for b, e in zip(BASE, s.d) if e) or "1"
        return f"<{n} x{s.k:g}>"


def _base(n):
    d = [0] * len(BASE)
    d[BASE.index(n)] = 1
    return U(d)


NAMED = {}
ONE = U()
A_, V_, S_, USD, DEG = map(_base, BASE)
MIN = U(S_.d, 60)
H = U(S_.d, 3600)
W = A_ * V_
KW = U(W.d, 1000)
KWH = KW * H
NAMED.update({"1": ONE, "A": A_, "V": V_, "s": S_, "min": MIN, "h": H, "kW": KW, "kWh": KWH, "deg": DEG, "$": USD,
              "$/kWh": USD / KWH, "$/kW": USD / KW, "1/h": ONE / H, "W": W, "Ah": A_ * H, "A*min": A_ * MIN})
CONV = {1000: U(k=1 / 1000), 60: U(k=1 / 60), 3600: U(k=1 / 3600)}
LIT = "LIT"

PASS_THROUGH = {"abs", "float", "int", "sum", "ceil", "floor", "trunc", "rint", "array", "asarray", "mean", "Decimal", "copy", "deepcopy",
                "round", "max", "min", "amax", "amin", "tolist", "cumsum", "sorted", "list", "tuple", "nanmax", "nanmin"}
SAME_ALL = {"min", "max", "minimum", "maximum", "clip", "fmin", "fmax"}


class Units:
    """One function analysed with a declaration record:
    env   {local/param name: unit}
    attr  {dotted path or '*.attr' or 'name["key"]': unit}
    calls {terminal callee name: return unit}
    sigs  {terminal callee name: [unit or None per positional param] or {'kw': unit}}
    ret   declared return unit (or None: all returns must agree with each other)
    rows  {name of a matrix parameter: [unit per column]}: a row of it unpacked into names gives each name its column's unit,
          whatever the names are (`a, b, c = row`, `for i, (a, b, c) in enumerate(M)`, `for a, b, c in M`)
    """

    def __init__(self, finfo, decl, repo=None, follow=False, _stack=()):
        self.f = finfo
        self.repo = repo
        self.follow = follow        # descend into nested closures and helpers that are not anchor functions, binding parameter units
        self._stack = _stack        # from the call's arguments (interprocedural inference; recursion is cut)
        self.decl = decl
        self.local_funcs = {}
        self.descended = []
        self.env = {k: NAMED[v] for k, v in decl.get("env", {}).items()}
        self.attr = {k: NAMED[v] for k, v in decl.get("attr", {}).items()}
        self.calls = {k: (NAMED[v] if v else None) for k, v in decl.get("calls", {}).items()}
        self.sigs = {}
        for k, v in decl.get("sigs", {}).items():
            if isinstance(v, dict):
                self.sigs[k] = {kk: (NAMED[x] if x else None) for kk, x in v.items()}
            else:
                self.sigs[k] = [NAMED[x] if x else None for x in v]
        self.ret = NAMED[decl["ret"]] if decl.get("ret") else None
        self.rows = {k: [NAMED[x] if x else None for x in v] for k, v in decl.get("rows", {}).items()}
        self._row_vars = {}         # loop variable holding one row of a declared matrix -> its column units
        self.issues = []   # (node, message, sink)
        self.ops = 0
        self.rets = []

    def issue(self, node, msg, sink):
        self.issues.append((node, msg, sink))

    def dn(self, n):
        if isinstance(n, ast.Name):
            return n.id
        if isinstance(n, ast.Attribute):
            b = self.dn(n.value)
            return f"{b}.{n.attr}" if b else None
        if isinstance(n, ast.Subscript):
            b = self.dn(n.value)
            if b and isinstance(n.slice, ast.Constant) and isinstance(n.slice.value, str):
                return f'{b}["{n.slice.value}"]'
            return b
        return None

    def u(self, n):
        if isinstance(n, ast.Constant):
            if isinstance(n.value, bool) or not isinstance(n.value, (int, float)):
                return None
            return CONV.get(n.value, LIT)
        if isinstance(n, (ast.Name, ast.Attribute, ast.Subscript)):
            d = self.dn(n)
            if isinstance(n, ast.Name):
                if n.id in self.env:
                    return self.env[n.id]
            if d in self.attr:
                return self.attr[d]
            if isinstance(n, ast.Attribute):
                if n.attr == "T":
                    return self.u(n.value)
                if ("*." + n.attr) in self.attr:
                    return self.attr["*." + n.attr]
                if n.attr in ("hour",):
                    return H
                if n.attr in ("minute",):
                    return MIN
                if n.attr in ("second",):
                    return S_
            if isinstance(n, ast.Subscript):
                self._walk_index(n.slice)
                return self.u(n.value)
            return None
        if isinstance(n, ast.UnaryOp):
            return self.u(n.operand)
        if isinstance(n, ast.BinOp):
            l, r = self.u(n.left), self.u(n.right)
            if isinstance(n.op, (ast.Mult, ast.Div, ast.MatMult)):
                if l is None or r is None:
                    return None
                if l == LIT and r == LIT:
                    return LIT
                lu = ONE if l == LIT else l
                ru = ONE if r == LIT else r
                self.ops += 1
                return lu / ru if isinstance(n.op, ast.Div) else lu * ru
            if isinstance(n.op, (ast.Add, ast.Sub)):
                return self.same_all([n.left, n.right], n, "operands of +/- have different units", "addsub")
            if isinstance(n.op, (ast.FloorDiv, ast.Mod)):
                # truncating division: fine when the quotient is a pure count (s // (s per period)), a defect when it
                # truncates a dimensioned quantity or a unit-conversion factor (60 // period)
                if l is None or r is None or (l == LIT and r == LIT):
                    return None
                lu = ONE if l == LIT else l
                ru = ONE if r == LIT else r
                q = lu / ru
                self.ops += 1
                if not q.same(ONE):
                    self.issue(n, f"`{src(n, 50)}` truncates a quantity in {q} (integer division of a dimensioned value / conversion factor): "
                               f"exact only when the operands happen to divide evenly", "trunc-floordiv")
                return q if isinstance(n.op, ast.FloorDiv) else lu
            return None
        if isinstance(n, ast.Call):
            return self.call(n)
        if isinstance(n, ast.IfExp):
            self.u(n.test)
            return self.same_all([n.body, n.orelse], n, "conditional arms have different units", "ifexp")
        if isinstance(n, ast.Compare):
            self.same_all([n.left] + n.comparators, n, "compared values have different units", "compare")
            return None
        if isinstance(n, ast.BoolOp):
            for v in n.values:
                self.u(v)
            return None
        if isinstance(n, (ast.ListComp, ast.GeneratorExp, ast.SetComp)):
            saved = dict(self.env)
            for g in n.generators:
                iu = self.u(g.iter)
                if isinstance(g.target, ast.Name):
                    if isinstance(iu, U):
                        self.env[g.target.id] = iu
                    else:
                        self.env.pop(g.target.id, None) if g.target.id not in self.f_declared() else None
                for c in g.ifs:
                    self.u(c)
            r = self.u(n.elt)
            self.env = saved
            return r
        if isinstance(n, (ast.List, ast.Tuple)):
            if n.elts:
                # a literal is a homogeneous vector only if its elements are numbers: records / tables (tuples holding strings, nested
                # pairs, ...) are walked for their own sub-expressions but have no unit themselves.  min([...]) / max([...]) check
                # their operands explicitly (SAME_ALL).
                if any(isinstance(x, (ast.Tuple, ast.List, ast.Dict, ast.JoinedStr)) or (isinstance(x, ast.Constant) and isinstance(x.value, str)) for x in n.elts):
                    for x in n.elts:
                        self.u(x)
                    return None
                us = [self.u(x) for x in n.elts]
                ks = [x for x in us if isinstance(x, U)]
                if ks and all(k.same(ks[0]) for k in ks):
                    return ks[0]
                return None
            return None
        if isinstance(n, ast.Lambda):
            return None
        return None

    def f_declared(self):
        return self._declared

    def _walk_index(self, s):
        if isinstance(s, ast.Slice):
            for p in (s.lower, s.upper, s.step):
                if p is not None:
                    self.u(p)
        elif isinstance(s, ast.Tuple):
            for e in s.elts:
                self._walk_index(e)
        elif isinstance(s, ast.expr):
            self.u(s)

    def call(self, n):
        fn = self.dn(n.func) or (n.func.attr if isinstance(n.func, ast.Attribute) else "")
        last = fn.split(".")[-1] if fn else (call_name(n) or "")
        if last in ("arange", "range", "len") and (isinstance(n.func, ast.Name) or self.dn(n.func.value) in ("np", "numpy")):
            for a in n.args:
                self.u(a)
            return ONE           # counts / indices are pure numbers
        if last in SAME_ALL and not (isinstance(n.func, ast.Attribute) and last in ("min", "max", "clip") and not n.args and self.dn(n.func.value) not in ("np", "numpy", "math")):
            args = list(n.args) + [k.value for k in n.keywords if k.arg in ("a_min", "a_max")]
            if len(args) == 1 and isinstance(args[0], (ast.List, ast.Tuple)):
                args = args[0].elts
            if len(args) == 1:
                return self.u(args[0])
            return self.same_all(args, n, f"operands of {last}() have different units", last)
        if isinstance(n.func, ast.Attribute) and last in ("sum", "max", "min", "mean", "cumsum", "copy", "tolist", "astype", "flatten", "ravel") \
                and self.dn(n.func.value) not in ("np", "numpy", "math"):
            for a in n.args:
                self.u(a)
            ru = self.u(n.func.value)
            if last == "astype" and n.args and (dotted(n.args[0]) in ("int", "np.int64", "np.int32") or
                                                 (isinstance(n.args[0], ast.Constant) and str(n.args[0].value).startswith(("int", "timedelta64", "datetime64", "m8", "M8", "<m8", "<M8")))) \
                    and isinstance(ru, U):
                self.ops += 1
                if not ru.same(ONE):
                    self.issue(n, f"`{src(n, 50)}` casts a quantity in {ru} to an integer", "trunc-astype")
            return ru     # method-form reduction keeps the receiver's unit
        if last == "dot" and isinstance(n.func, ast.Attribute) and n.args:
            a, b = self.u(n.func.value), self.u(n.args[0])
            if isinstance(a, U) and isinstance(b, U):
                self.ops += 1
                return a * b
            return None
        if last in PASS_THROUGH:
            if not n.args:
                return None
            us = [self.u(a) for a in n.args]
            if last in ("int", "floor", "ceil", "round", "trunc", "rint") and isinstance(us[0], U):
                self.ops += 1
                if not us[0].same(ONE):
                    self.issue(n, f"`{src(n, 50)}` rounds a quantity in {us[0]} to an integer (only pure counts such as period indices may be truncated)",
                               f"trunc-{last}")
            return us[0]
        if last == "full" and len(n.args) >= 2:
            self.u(n.args[0])
            return self.u(n.args[1])
        if last in ("exp", "log"):
            a = self.u(n.args[0]) if n.args else None
            if isinstance(a, U):
                self.ops += 1
                if not a.same(ONE):
                    self.issue(n, f"{last}() of a dimensioned value ({a})", f"{last}-arg")
            return ONE
        if last == "sqrt":
            return None
        if last == "timedelta":
            for k in n.keywords:
                want = {"minutes": MIN, "hours": H, "seconds": S_}.get(k.arg)
                got = self.u(k.value)
                if want is not None and isinstance(got, U):
                    self.ops += 1
                    if not got.same(want):
                        self.issue(n, f"timedelta({k.arg}=...) is given a value in {got}", f"timedelta-{k.arg}")
            return None
        if last in ("timestamp", "total_seconds"):
            return S_
        if last == "normal" and len(n.args) >= 2:
            self.u(n.args[0])
            return self.u(n.args[1])
        if last in ("deg2rad", "radians"):
            a = self.u(n.args[0]) if n.args else None
            if isinstance(a, U):
                self.ops += 1
                if not a.same(DEG):
                    self.issue(n, f"{last}() of a value that is not in degrees ({a})", "deg2rad-arg")
            return ONE
        key = last if last in self.sigs else (fn if fn in self.sigs else None)
        if key is None and isinstance(n.func, ast.Subscript):
            d = self.dn(n.func)
            key = d if d in self.sigs else None
        if key is not None:
            sig = self.sigs[key]
            if isinstance(sig, dict):
                pos = sig.get("__pos__", [])
                pairs = list(zip(n.args, pos)) + [(k.value, sig.get(k.arg)) for k in n.keywords]
            else:
                pairs = list(zip(n.args, sig))
            for i, (a, want) in enumerate(pairs):
                got = self.u(a)
                if want is not None and isinstance(got, U):
                    self.ops += 1
                    if not got.same(want):
                        self.issue(n, f"argument `{src(a, 50)}` of {key}() is in {got} but the parameter expects {want}", f"arg{i}:{key}")
            for a in n.args[len(pairs):]:
                self.u(a)
        else:
            for a in n.args:
                self.u(a)
            for k in n.keywords:
                self.u(k.value)
        if self.follow:
            got = self.descend(n, last)
            if got is not NotImplemented:
                want = self.calls.get(last)
                if isinstance(got, U) and isinstance(want, U):
                    self.ops += 1
                    if not got.same(want):
                        self.issue(n, f"{last}() returns a value in {got} where the caller takes it as {want}", f"callret:{last}")
                return want if isinstance(want, U) else got
        if last in self.calls:
            return self.calls[last]
        if fn in self.calls:
            return self.calls[fn]
        if isinstance(n.func, ast.Subscript):
            d = self.dn(n.func)
            if d in self.calls:
                return self.calls[d]
        return None

    def _callee(self, n, last):
        """(function node, is_closure, is_method) for a call that may be descended into, else None"""
        if isinstance(n.func, ast.Name) and last in self.local_funcs:
            return self.local_funcs[last], True, False
        if self.repo is None or not last:
            return None
        from .inline import load_known
        known = load_known() or set()
        cands = [f for q, fs in self.repo.funcs.items() for f in fs if q.split(".")[-1] == last and q not in known]
        if len(cands) != 1:
            return None
        f = cands[0]
        if isinstance(n.func, ast.Name) and "." not in f.qual:
            return f.node, False, False
        if isinstance(n.func, ast.Attribute) and dotted(n.func.value) in ("self", "cls") and "." in f.qual:
            return f.node, False, True
        return None

    def descend(self, n, last):
        c = self._callee(n, last)
        if c is None:
            return NotImplemented
        fnode, closure, is_method = c
        if id(fnode) in self._stack or len(self._stack) >= 4:
            return NotImplemented
        from .inline import _bind
        b = _bind(fnode, n, is_method, None)
        if b is None:
            return NotImplemented
        env = dict(self.env) if closure else dict(self._declared_units)
        # declared names keep their declared unit in the callee (the tables are name-keyed); the arguments refine them
        for p_, a in b.items():
            if is_method and p_ == list(b)[0]:
                continue
            u = self.u(a)
            if isinstance(u, U):
                env[p_] = u
            elif p_ in self._declared_units:
                env[p_] = self._declared_units[p_]
            else:
                env.pop(p_, None)
        child = Units(type("F", (), {"node": fnode})(), {}, repo=self.repo, follow=True, _stack=self._stack + (id(fnode),))
        child.env = env
        child.attr, child.calls, child.sigs = self.attr, self.calls, self.sigs
        child._declared_units = self._declared_units
        child.local_funcs = dict(self.local_funcs) if closure else {}
        child.run()
        self.issues += child.issues
        self.ops += child.ops
        self.descended.append(fnode.name)
        self.descended += child.descended
        known = [u for _, u in child.rets if isinstance(u, U)]
        if known and all(k.same(known[0]) for k in known):
            return known[0]
        return None

    def same_all(self, exprs, node, msg, sink):
        us = [self.u(e) for e in exprs]
        known = [x for x in us if isinstance(x, U)]
        if not known:
            return LIT if us and all(x == LIT for x in us) else None
        self.ops += 1
        ref = known[0]
        for x in known[1:]:
            if not ref.same(x):
                self.issue(node, f"{msg}: {ref} vs {x}", sink)
                return None
        return ref

    # -- statements
    def run(self):
        self._declared = set(self.env)
        if not hasattr(self, "_declared_units"):
            self._declared_units = dict(self.env)
        self._rebound = set()
        body = [s for s in self.f.node.body]
        self.block(body)
        known = [(n, u) for n, u in self.rets if isinstance(u, U)]
        if self.ret is not None:
            for n, u in known:
                self.ops += 1
                if not u.same(self.ret):
                    self.issue(n, f"returns a value in {u} where {self.ret} is declared", "return-unit")
        elif len(known) > 1:
            for n, u in known[1:]:
                self.ops += 1
                if not u.same(known[0][1]):
                    self.issue(n, f"return statements disagree: {known[0][1]} vs {u}", "return-agree")
        return self

    def block(self, stmts):
        for s in stmts:
            self.st(s)

    def st(self, s):
        if isinstance(s, ast.Assign):
            u = self.u(s.value)
            for t in s.targets:
                self.bind(t, u, s)
        elif isinstance(s, ast.AnnAssign) and s.value is not None:
            self.bind(s.target, self.u(s.value), s)
        elif isinstance(s, ast.AugAssign):
            cur, v = self.u(s.target), self.u(s.value)
            if isinstance(s.op, (ast.Add, ast.Sub)) and isinstance(cur, U) and isinstance(v, U):
                self.ops += 1
                if not cur.same(v):
                    self.issue(s, f"`{src(s.target, 40)}` is in {cur} but is incremented by a value in {v}", f"aug:{self.dn(s.target)}")
            elif isinstance(s.op, (ast.Mult, ast.Div)) and isinstance(cur, U) and isinstance(v, U) and isinstance(s.target, ast.Name):
                self.env[s.target.id] = cur * v if isinstance(s.op, ast.Mult) else cur / v
        elif isinstance(s, ast.Return):
            if s.value is not None:
                self.rets.append((s, self.u(s.value)))
        elif isinstance(s, ast.Expr):
            self.u(s.value)
        elif isinstance(s, ast.If):
            self.u(s.test)
            self.block(s.body)
            self.block(s.orelse)
        elif isinstance(s, (ast.For, ast.While)):
            if isinstance(s, ast.While):
                self.u(s.test)
            else:
                iu = self.u(s.iter)
                if isinstance(s.target, ast.Name) and isinstance(iu, U) and s.target.id not in self._declared:
                    self.env[s.target.id] = iu
                # rows of a declared matrix
                it, tg = s.iter, s.target
                if isinstance(it, ast.Call) and isinstance(it.func, ast.Name) and it.func.id == "enumerate" and it.args and isinstance(tg, (ast.Tuple, ast.List)) and len(tg.elts) == 2:
                    it, tg = it.args[0], tg.elts[1]
                if isinstance(it, ast.Name) and it.id in self.rows:
                    cols = self.rows[it.id]
                    if isinstance(tg, ast.Name):
                        self._row_vars[tg.id] = cols
                    elif isinstance(tg, (ast.Tuple, ast.List)) and len(tg.elts) == len(cols):
                        for x, cu in zip(tg.elts, cols):
                            if isinstance(x, ast.Name) and cu is not None:
                                self.env[x.id] = cu
            self.block(s.body)
            self.block(s.orelse)
        elif isinstance(s, ast.With):
            self.block(s.body)
        elif isinstance(s, ast.Try):
            self.block(s.body)
            for h in s.handlers:
                self.block(h.body)
            self.block(s.orelse)
            self.block(s.finalbody)
        elif isinstance(s, ast.Raise) and s.exc is not None:
            pass
        elif isinstance(s, ast.FunctionDef):
            self.local_funcs[s.name] = s

    def bind(self, t, u, s):
        if isinstance(t, ast.Name):
            self._rebound.add(t.id)
            if isinstance(u, U):
                self.env[t.id] = u          # declarations give the *initial* unit; a rebinding carries its own
            elif t.id in self.env and (t.id not in self._declared or u is None and not isinstance(s.value, ast.Constant)):
                if t.id not in self._declared:
                    del self.env[t.id]
        elif isinstance(t, (ast.Attribute, ast.Subscript)):
            decl = self.u(t)
            if isinstance(decl, U) and isinstance(u, U):
                self.ops += 1
                if not decl.same(u):
                    self.issue(s, f"`{self.dn(t)}` is declared {decl} but is assigned a value in {u}", f"store:{self.dn(t)}")
        elif isinstance(t, (ast.Tuple, ast.List)):
            v = getattr(s, "value", None)
            if isinstance(v, ast.Name) and v.id in self._row_vars and len(t.elts) == len(self._row_vars[v.id]):
                for x, cu in zip(t.elts, self._row_vars[v.id]):
                    if isinstance(x, ast.Name) and cu is not None:
                        self._rebound.add(x.id)
                        self.env[x.id] = cu


def check_units(ck, rid, finfo, decl, follow=False):
    """run the engine on one function; each issue is a violation of `rid`; returns #checked operations."""
    e = Units(finfo, decl, repo=ck.repo, follow=follow).run()
    if e.issues:
        for node, msg, sink in e.issues:
            ck.violation(rid, finfo, node, msg, sink=sink)
    else:
        ck.holds(rid, finfo, f"{e.ops} unit-checked operations", "all consistent with the declared units")
    ck.count("unit-checked operations", e.ops)
    return e

"""Serialisation agreement engine (C09): written attributes vs dumped keys vs restored keys, per BaseSimObj subclass.

All facts are read from the syntax trees: `_to_dict` (following `super()._to_dict`), `_from_dict`
and `_from_dict_helper` (resolved through the MRO), constructors (parameter -> attribute map)."""
import ast

from .core import AnalysisError, dotted, call_name, const_value, src, walk_local, last_name
from .flow import leaves
from .rules import flow_of, bind_args, mutating_calls, resolve_prop

RESTORE_FUNCS = ("_from_dict", "_from_dict_helper")


# ----------------------------------------------------------------------------
# attributes written on self
# ----------------------------------------------------------------------------

def written_attrs(repo, ci):
    """{attr: [(FuncInfo, node)]} for `self.X = ...` (and setattr(self, 'X', ..)) in methods of the class hierarchy,
    excluding the restore functions (which write on the object they build)."""
    out = {}
    for c in repo.mro(ci):
        for name, m in list(c.methods.items()) + list(c.setters.items()):
            if name in RESTORE_FUNCS:
                continue
            if not m.params or "staticmethod" in m.decorators() or "classmethod" in m.decorators():
                continue
            sn = m.params[0]
            for n in walk_local(m.node):
                tg = []
                if isinstance(n, ast.Assign):
                    for t in n.targets:
                        tg += list(t.elts) if isinstance(t, (ast.Tuple, ast.List)) else [t]
                elif isinstance(n, (ast.AugAssign, ast.AnnAssign)):
                    if not (isinstance(n, ast.AnnAssign) and n.value is None):
                        tg = [n.target]
                for t in tg:
                    if isinstance(t, ast.Attribute) and isinstance(t.value, ast.Name) and t.value.id == sn:
                        out.setdefault(t.attr, []).append((m, n))
                if isinstance(n, ast.Call) and call_name(n) == "setattr" and len(n.args) >= 2 and dotted(n.args[0]) == sn:
                    try:
                        out.setdefault(const_value(n.args[1]), []).append((m, n))
                    except (ValueError, TypeError):
                        pass
    return out


def ctor_param_attrs(repo, ci, depth=4):
    """{param of ci's constructor: set of attributes that receive it} following super().__init__(...) chains."""
    init = repo.method(ci, "__init__", optional=True)
    if init is None:
        return {}, None
    out = {p: set() for p in init.params[1:]}

    def scan(fn_info, cls_info, mapping, d):
        # mapping: local name in fn -> original ctor param
        sn = fn_info.params[0]
        fl = flow_of(fn_info)
        for n in fl.cfg.nodes:
            if n.kind != "stmt":
                continue
            s = n.stmt
            if isinstance(s, (ast.Assign, ast.AnnAssign)) and getattr(s, "value", None) is not None:
                tg = s.targets if isinstance(s, ast.Assign) else [s.target]
                for t in tg:
                    if isinstance(t, ast.Attribute) and isinstance(t.value, ast.Name) and t.value.id == sn:
                        ex = fl.expand(s.value, n)
                        for nm in [x.id for x in ast.walk(ex) if isinstance(x, ast.Name)]:
                            if nm in mapping:
                                out[mapping[nm]].add(t.attr)
            for c in [x for x in walk_local(s) if isinstance(x, ast.Call)]:
                f = c.func
                if isinstance(f, ast.Attribute) and f.attr == "__init__" and isinstance(f.value, ast.Call) and call_name(f.value) == "super" and d > 0:
                    mro = repo.mro(cls_info)
                    parent = None
                    for pc in mro[1:]:
                        if "__init__" in pc.methods:
                            parent = pc
                            break
                    if parent is None:
                        continue
                    pinit = parent.methods["__init__"]
                    b = bind_args(c, pinit, method=True)
                    m2 = {}
                    for p, a in b.items():
                        ex = fl.expand(a, n)
                        for nm in [x.id for x in ast.walk(ex) if isinstance(x, ast.Name)]:
                            if nm in mapping:
                                m2[p] = mapping[nm]
                    scan(pinit, parent, m2, d - 1)
    owner = [c for c in repo.mro(ci) if "__init__" in c.methods][0]
    scan(init, owner, {p: p for p in init.params[1:]}, depth)
    return out, init


# ----------------------------------------------------------------------------
# dump table
# ----------------------------------------------------------------------------

class DumpEntry:
    def __init__(self, key, fn, node, value, by_name):
        self.key, self.fn, self.node, self.value, self.by_name = key, fn, node, value, by_name
        self.roots = set()       # self.<attr> roots of the value
        self.via_registry = False
        self.alts = []           # further stores of the same key on other branches


_CONST_SCOPE = {}     # id(flow) -> (repo, FuncInfo): where module-level / class-level constant names of that function resolve


def _named_constant(fl, ex):
    """value expression of a module-level constant (or a class-level one read through self. / cls. / the class name) that is assigned
    exactly once, at top level, in the module of the analysed function"""
    scope = _CONST_SCOPE.get(id(fl))
    if scope is None:
        return None
    repo, f = scope
    d = dotted(ex)
    if d is None:
        return None
    tree = repo.trees.get(f.module)
    if tree is None:
        return None
    parts = d.split(".")
    if len(parts) == 1:
        hits = [st for st in tree.body if isinstance(st, (ast.Assign, ast.AnnAssign)) and getattr(st, "value", None) is not None
                and any(isinstance(t, ast.Name) and t.id == d for t in (st.targets if isinstance(st, ast.Assign) else [st.target]))]
        stores = [x for x in ast.walk(tree) if isinstance(x, ast.Name) and x.id == d and isinstance(x.ctx, (ast.Store, ast.Del))]
        return hits[0].value if len(hits) == 1 and len(stores) == 1 else None
    if len(parts) == 2 and f.cls is not None and parts[0] in ("self", "cls", f.cls.name):
        for c in repo.mro(f.cls):
            if parts[1] in c.assigns:
                return c.assigns[parts[1]]
    return None


def _literal_list(fl, expr, node):
    ex = fl.expand(expr, node)
    try:
        v = const_value(ex)
    except (ValueError, TypeError):
        nc = _named_constant(fl, ex)
        if nc is None:
            return None
        try:
            v = const_value(nc)
        except (ValueError, TypeError):
            return None
    if isinstance(v, (list, tuple)) and all(isinstance(x, str) for x in v):
        return list(v)
    return None


def deep_expand(fl, expr, node, depth=3):
    """expansion of expr plus, for local containers initialised empty and filled by `L[k] = v` / `L.append(v)`,
    the expansions of the contributed values.  Returns a list of expanded ASTs."""
    out = [fl.expand(expr, node)]
    if depth <= 0:
        return out
    names = {x.id for x in ast.walk(expr) if isinstance(x, ast.Name) and isinstance(x.ctx, ast.Load)}
    for nm in names:
        defs = fl.defs_at(node, nm)
        for d in defs:
            how = fl.def_how(d, nm)
            if how[0] != "assign":
                continue
            init = how[1]
            if isinstance(init, ast.Name) and init.id != nm and depth > 0:
                out += deep_expand(fl, init, d, depth)          # a plain alias (result temporary): looked through at no cost
                continue
            empty = (isinstance(init, (ast.List, ast.Dict)) and not (getattr(init, "elts", None) or getattr(init, "keys", None))) or \
                    (isinstance(init, ast.Call) and call_name(init) in ("dict", "list") and not init.args)
            if not empty:
                continue
            for n in fl.cfg.nodes:
                if n.kind != "stmt":
                    continue
                s = n.stmt
                if isinstance(s, ast.Assign):
                    flat = []
                    for t in s.targets:
                        flat += list(t.elts) if isinstance(t, (ast.Tuple, ast.List)) else [t]
                    for t in flat:
                        if isinstance(t, ast.Subscript) and isinstance(t.value, ast.Name) and t.value.id == nm and d in fl.defs_at(n, nm):
                            out += deep_expand(fl, s.value, n, depth - 1)
                            out.append(fl.expand(t.slice, n))
                if isinstance(s, ast.AugAssign) and isinstance(s.target, ast.Name) and s.target.id == nm and isinstance(s.op, (ast.Add, ast.BitOr)):
                    out += deep_expand(fl, s.value, n, depth - 1)          # L += [v] / D |= {...}: contributes like append / update
                for e in fl.cfg.node_exprs(n):
                    for p, m, c in mutating_calls(e):
                        if p == nm and m in ("append", "extend", "add", "update", "insert") and d in fl.defs_at(n, nm):
                            for a in c.args:
                                out += deep_expand(fl, a, n, depth - 1)
    return out


def dump_table(repo, ci, _depth=0):
    """{key: DumpEntry} of the `_to_dict` that applies to class ci (following super()._to_dict)."""
    if _depth > 6:
        raise AnalysisError(f"{ci.name}._to_dict: super() chain too deep")
    owner = None
    for c in repo.mro(ci):
        if "_to_dict" in c.methods:
            owner = c
            break
    if owner is None or owner.name == "BaseSimObj":
        raise AnalysisError(f"{ci.name} has no _to_dict in its hierarchy")
    f = owner.methods["_to_dict"]
    fl = flow_of(f)
    rets = [n for n in fl.cfg.nodes if n.kind == "return"]
    if not rets:
        raise AnalysisError(f"{f.qual}: no return")
    _CONST_SCOPE[id(fl)] = (repo, f)
    dname = None
    inline_inits = []
    for r in rets:
        # `return dict(D), ctx` / `return D.copy(), ctx` / `return copy(D), ctx`: a copy of the dictionary D that was filled
        if isinstance(r.expr, ast.Tuple) and len(r.expr.elts) == 2 and isinstance(r.expr.elts[0], ast.Call):
            c0 = r.expr.elts[0]
            inner = None
            if call_name(c0) in ("dict", "copy", "deepcopy", "OrderedDict") and isinstance(c0.func, ast.Name) and len(c0.args) == 1 and not c0.keywords and isinstance(c0.args[0], ast.Name):
                inner = c0.args[0]
            elif call_name(c0) == "copy" and isinstance(c0.func, ast.Attribute) and isinstance(c0.func.value, ast.Name) and not c0.args:
                inner = c0.func.value
            if inner is not None:
                r = type("R", (), {"expr": ast.Tuple(elts=[inner, r.expr.elts[1]], ctx=ast.Load()), "stmt": r.stmt, "kind": "return"})()
        if isinstance(r.expr, ast.Tuple) and len(r.expr.elts) == 2 and len(rets) == 1 and \
                (isinstance(r.expr.elts[0], (ast.Dict, ast.DictComp)) or (isinstance(r.expr.elts[0], ast.Call) and call_name(r.expr.elts[0]) == "dict")):
            # `return {...}, ctx`: the dictionary is built in the return statement itself
            inline_inits.append((r, r.expr.elts[0]))
            dname = "__returned_dict__"
            continue
        if not (isinstance(r.expr, ast.Tuple) and len(r.expr.elts) == 2 and isinstance(r.expr.elts[0], ast.Name)):
            raise AnalysisError(f"{f.qual}: return form not recognised: {src(r.stmt)}")
        if dname not in (None, r.expr.elts[0].id):
            raise AnalysisError(f"{f.qual}: different dictionaries returned")
        dname = r.expr.elts[0].id
    table = {}
    sn = f.params[0]

    def add(key, node, value, by_name):
        e = DumpEntry(key, f, node, value, by_name)
        if key in table and table[key].fn is f:
            table[key].alts.append(e)       # same key stored on another branch (e.g. the `None` encoding of an absent object)
        else:
            table[key] = e

    recognised_init = False
    synthetic = []
    for r, v in inline_inits:
        a = ast.copy_location(ast.Assign(targets=[ast.Name(id=dname, ctx=ast.Store())], value=v, type_comment=None), r.stmt)
        synthetic.append((r, a))
    for n in fl.cfg.nodes:
        if n.kind not in ("stmt", "return"):
            continue
        s = n.stmt
        if n.kind == "return":
            hit = [a for r, a in synthetic if r is n]
            if not hit:
                continue
            s = hit[0]
        if isinstance(s, (ast.Assign, ast.AnnAssign)) and getattr(s, "value", None) is not None:
            tg = s.targets if isinstance(s, ast.Assign) else [s.target]
            for t in tg:
                # D = {...} / D = dict-comp / D = {}
                if isinstance(t, ast.Name) and t.id == dname:
                    v = s.value
                    if isinstance(v, ast.Dict):
                        for k, val in zip(v.keys, v.values):
                            try:
                                add(const_value(k), n, val, False)
                            except (ValueError, TypeError, AttributeError):
                                raise AnalysisError(f"{f.qual}: non-literal key in {src(v)}")
                        recognised_init = True
                    elif isinstance(v, ast.DictComp) and len(v.generators) == 1 and isinstance(v.generators[0].target, ast.Name):
                        lst = _literal_list(fl, v.generators[0].iter, n)
                        var = v.generators[0].target.id
                        if lst is None or dotted(v.key) != var:
                            raise AnalysisError(f"{f.qual}: dict comprehension not over a literal list: {src(v)}")
                        byname = isinstance(v.value, ast.Call) and call_name(v.value) == "getattr" and dotted(v.value.args[0]) == sn \
                            and dotted(v.value.args[1]) == var
                        if not byname:
                            raise AnalysisError(f"{f.qual}: dict comprehension value is not getattr(self, name)")
                        for k in lst:
                            add(k, n, v.value, True)
                        recognised_init = True
                    elif isinstance(v, ast.Call) and call_name(v) == "dict" and not v.args:
                        for kw in v.keywords:
                            add(kw.arg, n, kw.value, False)
                        recognised_init = True
                    else:
                        raise AnalysisError(f"{f.qual}: initialisation of {dname} not recognised: {src(s)}")
                # D, ctx = super()._to_dict(ctx)
                elif isinstance(t, (ast.Tuple, ast.List)) and t.elts and isinstance(t.elts[0], ast.Name) and t.elts[0].id == dname:
                    v = s.value
                    if isinstance(v, ast.Call) and isinstance(v.func, ast.Attribute) and v.func.attr == "_to_dict" \
                            and isinstance(v.func.value, ast.Call) and call_name(v.func.value) == "super":
                        parents = repo.mro(owner)[1:]
                        pci = None
                        for pc in parents:
                            if "_to_dict" in pc.methods:
                                pci = pc
                                break
                        if pci is None or pci.name == "BaseSimObj":
                            raise AnalysisError(f"{f.qual}: super()._to_dict has no implementation")
                        for k, e in dump_table(repo, pci, _depth + 1).items():
                            table.setdefault(k, e)
                        recognised_init = True
                    else:
                        raise AnalysisError(f"{f.qual}: initialisation of {dname} not recognised: {src(s)}")
                # D[k] = v
                elif isinstance(t, ast.Subscript) and isinstance(t.value, ast.Name) and t.value.id == dname:
                    k = t.slice
                    if isinstance(k, ast.Constant) and isinstance(k.value, str):
                        add(k.value, n, s.value, False)
                    elif isinstance(k, ast.Name):
                        loops = [tn for tn, lab in fl.cfg.edges_dominating(n) if tn.kind == "for" and lab is True
                                 and isinstance(tn.stmt.target, ast.Name) and tn.stmt.target.id == k.id]
                        lst = _literal_list(fl, loops[-1].stmt.iter, loops[-1]) if loops else None
                        if lst is None:
                            raise AnalysisError(f"{f.qual}: key variable {k.id} does not range over a literal list: {src(s)}")
                        byname = isinstance(s.value, ast.Call) and call_name(s.value) == "getattr" and len(s.value.args) >= 2 \
                            and dotted(s.value.args[0]) == sn and dotted(s.value.args[1]) == k.id
                        sliced = isinstance(s.value, ast.Subscript) and isinstance(s.value.value, ast.Call) and call_name(s.value.value) == "getattr" \
                            and len(s.value.value.args) >= 2 and dotted(s.value.value.args[0]) == sn and dotted(s.value.value.args[1]) == k.id
                        if not byname and not sliced:
                            raise AnalysisError(f"{f.qual}: loop store is not {dname}[name] = getattr(self, name): {src(s)}")
                        for key in lst:
                            add(key, n, s.value, True)
                    else:
                        raise AnalysisError(f"{f.qual}: key form not recognised: {src(s)}")
        for e in fl.cfg.node_exprs(n):
            for p, m, c in mutating_calls(e):
                if p == dname:
                    if m == "update" and len(c.args) == 1 and isinstance(c.args[0], ast.Dict) and not c.keywords:
                        for k, val in zip(c.args[0].keys, c.args[0].values):
                            add(const_value(k), n, val, False)
                    elif m == "update" and not c.args and c.keywords and all(k.arg is not None for k in c.keywords):
                        for kw in c.keywords:                      # D.update(key=value, ...)
                            add(kw.arg, n, kw.value, False)
                    elif m == "update" and len(c.args) == 1 and isinstance(c.args[0], ast.Call) and call_name(c.args[0]) == "dict" \
                            and not c.args[0].args and all(k.arg is not None for k in c.args[0].keywords) and not c.keywords:
                        for kw in c.args[0].keywords:              # D.update(dict(key=value, ...))
                            add(kw.arg, n, kw.value, False)
                    elif m == "update" and len(c.args) == 1 and not c.keywords and isinstance(c.args[0], (ast.DictComp, ast.GeneratorExp, ast.ListComp)) \
                            and len(c.args[0].generators) == 1 and isinstance(c.args[0].generators[0].target, ast.Name) and not c.args[0].generators[0].ifs:
                        # D.update({name: getattr(self, name) for name in NAMES}) / D.update((name, getattr(self, name)) for name in NAMES)
                        v = c.args[0]
                        var = v.generators[0].target.id
                        lst = _literal_list(fl, v.generators[0].iter, n)
                        if isinstance(v, ast.DictComp):
                            kx, vx = v.key, v.value
                        elif isinstance(v.elt, (ast.Tuple, ast.List)) and len(v.elt.elts) == 2:
                            kx, vx = v.elt.elts
                        else:
                            kx = vx = None
                        if lst is None or kx is None or dotted(kx) != var:
                            raise AnalysisError(f"{f.qual}: mutation of {dname} not recognised: {src(c)}")
                        byname = isinstance(vx, ast.Call) and call_name(vx) == "getattr" and len(vx.args) >= 2 and dotted(vx.args[0]) == sn and dotted(vx.args[1]) == var
                        if not byname:
                            raise AnalysisError(f"{f.qual}: update value is not getattr(self, name): {src(c)}")
                        for k in lst:
                            add(k, n, vx, True)
                    else:
                        raise AnalysisError(f"{f.qual}: mutation of {dname} not recognised: {src(c)}")
    if not recognised_init:
        raise AnalysisError(f"{f.qual}: no initialisation of {dname} found")
    # roots of explicit values
    for e0 in table.values():
      for e in [e0] + e0.alts:
        if e.fn is not f:
            continue
        if e.by_name:
            e0.roots.add(f"self.{e.key}")
            continue
        if isinstance(e.value, ast.Constant) and e.value.value is None and e is not e0 or (isinstance(e.value, ast.Constant) and e.value.value is None and e0.alts):
            continue                        # `None` placeholder branch
        for ex in deep_expand(fl, e.value, e.node):
            for lf in leaves(ex):
                lf2 = resolve_prop(repo, owner, lf.replace(sn + ".", "self.", 1) if lf.startswith(sn + ".") else lf)
                if lf2.startswith("self."):
                    e0.roots.add(".".join(lf2.split(".")[:2]).rstrip("()"))
            for c in ast.walk(ex):
                if isinstance(c, ast.Call) and call_name(c) == "_to_registry":
                    e0.via_registry = True
    return table


# ----------------------------------------------------------------------------
# restore table
# ----------------------------------------------------------------------------

class Restore:
    def __init__(self):
        self.reads = {}        # key -> [(fn, node, guarded)]
        self.sinks = []        # (kind 'attr'|'ctor'|'setattr', name, keys:set, via_build:bool, fn, node)
        self.funcs = []
        self.wrong_guards = []


def _walk_pruned(ex):
    """ast.walk that, below a _build_from_id(...) call, only follows the object-id argument (not the accumulators)."""
    todo = [ex]
    while todo:
        n = todo.pop()
        yield n
        if isinstance(n, ast.Call) and call_name(n) == "_build_from_id":
            if n.args:
                todo.append(n.args[0])
            continue
        todo.extend(ast.iter_child_nodes(n))


def _keys_in(exs, dparam):
    keys, build = set(), False
    for ex in exs:
        for c in _walk_pruned(ex):
            if isinstance(c, ast.Subscript) and isinstance(c.value, ast.Name) and c.value.id == dparam:
                try:
                    k = const_value(c.slice)
                    if isinstance(k, str):
                        keys.add(k)
                except (ValueError, TypeError):
                    pass
            if isinstance(c, ast.Call) and call_name(c) == "_build_from_id":
                build = True
    return keys, build


def restore_table(repo, ci):
    fd = repo.method(ci, "_from_dict", optional=True)
    if fd is None or (fd.cls is not None and fd.cls.name == "BaseSimObj"):
        raise AnalysisError(f"{ci.name} has no _from_dict in its hierarchy")
    R = Restore()
    init_map, init = ctor_param_attrs(repo, ci)
    todo = [(fd, None)]
    seen = set()
    while todo:
        f, _ = todo.pop()
        if id(f.node) in seen:
            continue
        seen.add(id(f.node))
        R.funcs.append(f)
        fl = flow_of(f)
        _CONST_SCOPE[id(fl)] = (repo, f)
        if "attribute_dict" not in f.params:
            raise AnalysisError(f"{f.qual}: parameter attribute_dict not found")
        dparam = "attribute_dict"
        # object under construction: name bound to cls(...) or the out_obj parameter
        objnames = set(p for p in f.params if p == "out_obj")
        for n in fl.cfg.nodes:
            if n.kind == "stmt" and isinstance(n.stmt, ast.Assign) and isinstance(n.stmt.value, ast.Call) \
                    and dotted(n.stmt.value.func) in ("cls", ci.name):
                for t in n.stmt.targets:
                    if isinstance(t, ast.Name):
                        objnames.add(t.id)
        handler_nodes = set()
        guarded_try = set()
        for t in ast.walk(f.node):
            if isinstance(t, ast.Try):
                catches = False
                for h in t.handlers:
                    names = [last_name(h.type)] if h.type is not None and not isinstance(h.type, ast.Tuple) else \
                        ([last_name(x) for x in h.type.elts] if h.type is not None else ["*"])
                    if "KeyError" in names or "*" in names or "Exception" in names:
                        catches = True
                    for b in h.body:
                        for x in ast.walk(b):
                            handler_nodes.add(id(x))
                if catches:
                    for b in t.body:
                        for x in ast.walk(b):
                            guarded_try.add(id(x))
        in_tested = set()
        for n in ast.walk(f.node):
            if isinstance(n, ast.Compare) and len(n.ops) == 1 and isinstance(n.ops[0], (ast.In, ast.NotIn)) \
                    and dotted(n.comparators[0]) == dparam and isinstance(n.left, ast.Constant):
                in_tested.add(n.left.value)
        # `if "key" in <another mapping>: ... attribute_dict["key"]`: the presence test looks in a different dictionary than the read
        for n in ast.walk(f.node):
            if isinstance(n, ast.If):
                for t in ast.walk(n.test):
                    if isinstance(t, ast.Compare) and len(t.ops) == 1 and isinstance(t.ops[0], (ast.In, ast.NotIn)) and isinstance(t.left, ast.Constant) \
                            and isinstance(t.left.value, str) and isinstance(t.comparators[0], ast.Name) and t.comparators[0].id != dparam \
                            and t.comparators[0].id in f.params:
                        k = t.left.value
                        reads_k = [x for b in n.body + n.orelse for x in ast.walk(b) if isinstance(x, ast.Subscript) and isinstance(x.value, ast.Name)
                                   and x.value.id == dparam and isinstance(x.slice, ast.Constant) and x.slice.value == k]
                        reads_other = [x for b in n.body + n.orelse for x in ast.walk(b) if isinstance(x, ast.Subscript) and isinstance(x.value, ast.Name)
                                       and x.value.id == t.comparators[0].id and isinstance(x.slice, ast.Constant) and x.slice.value == k]
                        if reads_k and not reads_other:
                            R.wrong_guards.append((f, t, k, t.comparators[0].id))
        # reads
        for n in fl.cfg.nodes:
            for e in fl.cfg.node_exprs(n):
                for c in [e] + list(walk_local(e)):
                    if isinstance(c, ast.Subscript) and isinstance(c.value, ast.Name) and c.value.id == dparam and isinstance(c.ctx, ast.Load):
                        legacy = id(c) in handler_nodes
                        keys = []
                        if isinstance(c.slice, ast.Constant) and isinstance(c.slice.value, str):
                            keys = [c.slice.value]
                        elif isinstance(c.slice, ast.Name):
                            loops = [tn for tn, lab in fl.cfg.edges_dominating(n) if tn.kind == "for" and lab is True
                                     and isinstance(tn.stmt.target, ast.Name) and tn.stmt.target.id == c.slice.id]
                            lst = _literal_list(fl, loops[-1].stmt.iter, loops[-1]) if loops else None
                            if lst is None:
                                raise AnalysisError(f"{f.qual}: key variable does not range over a literal list: {src(c)}")
                            keys = lst
                        else:
                            raise AnalysisError(f"{f.qual}: key form not recognised: {src(c)}")
                        for k in keys:
                            R.reads.setdefault(k, []).append((f, c, legacy, id(c) in guarded_try or k in in_tested))
        # sinks
        for n in fl.cfg.nodes:
            if n.kind == "stmt" and isinstance(n.stmt, (ast.Assign, ast.AnnAssign)) and getattr(n.stmt, "value", None) is not None:
                tg = n.stmt.targets if isinstance(n.stmt, ast.Assign) else [n.stmt.target]
                for t in tg:
                    if isinstance(t, ast.Attribute) and isinstance(t.value, ast.Name) and t.value.id in objnames:
                        if id(n.stmt) in handler_nodes:
                            continue
                        # `obj.x = int(obj.x)` / `obj.x = list(obj.x)`: a normalisation of what is already there, not a restore
                        if any(isinstance(x, ast.Attribute) and x.attr == t.attr and isinstance(x.value, ast.Name) and x.value.id == t.value.id
                               for x in ast.walk(n.stmt.value)) and not any(isinstance(x, ast.Name) and x.id == dparam for x in ast.walk(n.stmt.value)):
                            continue
                        keys, build = _keys_in(deep_expand(fl, n.stmt.value, n), dparam)
                        R.sinks.append(("attr", t.attr, keys, build, f, n.stmt))
            for e in fl.cfg.node_exprs(n):
                for c in [e] + list(walk_local(e)):
                    if not isinstance(c, ast.Call):
                        continue
                    if call_name(c) == "setattr" and len(c.args) == 3 and dotted(c.args[0]) in objnames:
                        # setattr(out_obj, attr, attribute_dict[attr]) over a literal list
                        a1, a2 = c.args[1], c.args[2]
                        same = isinstance(a1, ast.Name) and isinstance(a2, ast.Subscript) and dotted(a2.value) == dparam and dotted(a2.slice) == a1.id
                        loops = [tn for tn, lab in fl.cfg.edges_dominating(n) if tn.kind == "for" and lab is True
                                 and isinstance(tn.stmt.target, ast.Name) and isinstance(a1, ast.Name) and tn.stmt.target.id == a1.id]
                        lst = _literal_list(fl, loops[-1].stmt.iter, loops[-1]) if loops else None
                        if not same or lst is None:
                            raise AnalysisError(f"{f.qual}: setattr restore form not recognised: {src(c)}")
                        for k in lst:
                            R.sinks.append(("setattr", k, {k}, False, f, c))
                    elif dotted(c.func) in ("cls", ci.name) and init is not None and id(c) not in handler_nodes:
                        b = bind_args(c, init, method=True)
                        for p, a in b.items():
                            keys, build = _keys_in(deep_expand(fl, a, n), dparam)
                            R.sinks.append(("ctor", p, keys, build, f, c))
                    elif isinstance(c.func, ast.Attribute) and c.func.attr in RESTORE_FUNCS and dotted(c.func.value) in ("cls", ci.name):
                        callee = repo.method(ci, c.func.attr, optional=True)
                        if callee is not None:
                            todo.append((callee, None))
    return R, init_map
